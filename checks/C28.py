"""C28 — viral attributes propagate according to the declared rule.

Tier P (proof: SMT, unbounded in values; the SQL text is what the REAL generator functions return on this run)
  src/vtlengine/ViralPropagation/sql.py: vp_pair_sql, _enumerated_single_case, vp_dataset_wide_sql, vp_group_sql,
  vp_reduce_refs, vp_no_rule_group_sql are CALLED with rules built from the real ViralPropagationRule class and with
  column references as operands; the returned text is parsed (sqlglot) and evaluated by vc.sqlvc_ext.VpEngine over
  nullable symbolic operands.
    * enumerated rules: every rule SHAPE with <= 3 clauses (each unary or binary, any value / result / default being the
      null constant or a string constant).  The string constants are placeholders that the evaluator interprets as
      SYMBOLIC codes, so one solver query covers every choice of constants and every equality pattern between them.
    * aggregate rules: min, max, sum, avg over 1..4 operands and every NULL pattern.
  Specification (written here from the property statement and the generator's documentation):
      pair(rule, a, b) = result of the first declared binary clause whose two values are the pair {a, b} in either order
                         (null constant <-> NULL operand), else of the first declared unary clause whose value is a or b,
                         else the default (NULL without `else`)      [first declared match: upstream test 1-1]
      single(rule, x)  = unary clause whose value is x, else default                  (per datapoint, enumerated rules)
      aggregate f      = f over the NON-NULL values (NULL when there is none)          (pair, group, whole operand)
      a rule applied to a group / to the operands of a join is a function of the MULTISET of values (order independence)
  src/vtlengine/ViralPropagation/__init__.py + Interpreter (vc.pyvc, real source): ViralPropagationRegistry.register /
  get_existing / rule_for (variable rule overrides the value-domain rule, lookup by exact name), visit_Start raises
  1-3-3-6 exactly for a viral attribute of a result without a rule, visit_ViralPropagationDef rejects duplicates / mixes.
Tier B (bounded, never counted as proved): which combinator each operator applies - small programs on the real
  engine (vc.pipeline: API.run minus the parser) with a hand-built ViralPropagationDef, every row permutation of the
  inputs, compared with an independent reference of the propagation model.
"""
from __future__ import annotations

import itertools
import os
import sys
import time
from dataclasses import dataclass
from fractions import Fraction
from pathlib import Path
from typing import Any, Callable, Dict, Iterable, List, Optional, Sequence, Tuple

sys.path.insert(0, str(Path(__file__).resolve().parent.parent))
from vc import core, smt, sqlconf  # noqa: E402
from vc.core import BOUNDED_OK, DISCHARGED, REFUTED, UNDECIDED, Check, Obligation, pmap, run_smt  # noqa: E402
from vc.smt import BOOL, INT, REAL, T, And, Eq, Implies, Not, Or, is_sym  # noqa: E402
from vc.sqlvc import NULL, SV, SqlOutside  # noqa: E402
from vc.sqlvc_ext import RAdd, RDiv, REq, RLe, VpEngine, ite_sv, sv_same  # noqa: E402

SQLF = "src/vtlengine/ViralPropagation/sql.py"
REGF = "src/vtlengine/ViralPropagation/__init__.py"
COL = '"VAt_1"'
AGGS = ("min", "max", "sum", "avg")


# ======================================================================================================================
# rule shapes and their two readings (real rule object for the generator / symbolic rule for the specification)
# ======================================================================================================================
@dataclass(frozen=True)
class Shape:
    arities: Tuple[int, ...]
    vnull: Tuple[bool, ...]      # per value slot (clause order, then position): the null constant
    rnull: Tuple[bool, ...]      # per clause: result is the null constant
    dnull: bool                  # no `else` (or `else null`)

    def tag(self) -> str:
        cl = ["when " + " and ".join(v or "null" for v in vs) + " then " + (r or "null") for vs, r in zip(self.slots(), self.results())]
        return "; ".join(cl + ([] if self.dnull else ["else DF"])) or "(no clause, no else)"

    def slots(self) -> List[List[Optional[str]]]:
        """Placeholder names of the value slots, per clause (None = null constant)."""
        out, i = [], 0
        for k in self.arities:
            out.append([None if self.vnull[i + j] else f"V{i + j}" for j in range(k)])
            i += k
        return out

    def results(self) -> List[Optional[str]]:
        return [None if rn else f"R{i}" for i, rn in enumerate(self.rnull)]

    def default(self) -> Optional[str]:
        return None if self.dnull else "DF"


def shapes(max_clauses: int, null_results: str) -> List[Shape]:
    """null_results: 'all' = every null placement on results, 'thin' = at most one null result, 'quick' = thin and, for
    three clauses, at most one null constant among values and results (the generators treat the clauses independently)."""
    out: List[Shape] = []
    for k in range(max_clauses + 1):
        for ar in itertools.product((1, 2), repeat=k):
            s = sum(ar)
            for vn in itertools.product((False, True), repeat=s):
                # a binary clause `when null and null` never satisfies the distinct-values requirement: left out
                i, bad = 0, False
                for a in ar:
                    if a == 2 and vn[i] and vn[i + 1]:
                        bad = True
                    i += a
                if bad:
                    continue
                for rn in itertools.product((False, True), repeat=k):
                    if null_results in ("thin", "quick") and sum(rn) > 1:
                        continue
                    if null_results == "quick" and k == 3 and sum(rn) + sum(vn) > 1:
                        continue
                    for dn in (False, True):
                        out.append(Shape(ar, vn, rn, dn))
    return out


class Rules:
    """Access to the real rule class / generators of the working tree (re-imported on every run)."""

    def __init__(self) -> None:
        core.boot(full=True)
        import importlib
        self.mod = importlib.import_module("vtlengine.ViralPropagation.sql")
        self.Rule = importlib.import_module("vtlengine.ViralPropagation").ViralPropagationRule

    def fn(self, name: str) -> Any:
        return getattr(self.mod, name, None)

    def enumerated(self, sh: Shape, names: Optional[Dict[str, Any]] = None) -> Any:
        nm = (lambda p: p) if names is None else (lambda p: names[p])
        clauses = [{"values": [None if v is None else nm(v) for v in vs], "result": None if r is None else nm(r)}
                   for vs, r in zip(sh.slots(), sh.results())]
        d = sh.default()
        return self.Rule(name="vp", signature_type="variable", target="VAt_1", enumerated_clauses=clauses,
                         aggregate_function=None, default_value=None if d is None else nm(d))

    def aggregate(self, fn: str) -> Any:
        return self.Rule(name="vp", signature_type="variable", target="VAt_1", enumerated_clauses=[],
                         aggregate_function=fn, default_value=None)


class Sym:
    """Symbolic reading of a shape: every placeholder is an Int code (a string constant, any), operands are
    nullable atoms."""

    def __init__(self, eng: VpEngine) -> None:
        self.eng = eng
        d = eng.decls
        self.code = {p: d.const(p.lower(), INT) for p in [f"V{i}" for i in range(6)] + [f"R{i}" for i in range(3)] + ["DF"]}
        for p, t in self.code.items():
            eng.lits[p] = SV("atom", t, False)
        self.ops = [SV("atom", d.const(f"x{i}", INT), d.const(f"x{i}.null", BOOL)) for i in range(4)]
        self.nums = [SV("num", d.const(f"q{i}", REAL), d.const(f"q{i}.null", BOOL)) for i in range(4)]

    def sv(self, p: Optional[str]) -> SV:
        return NULL if p is None else SV("atom", self.code[p], False)

    def model_vars(self, n: int) -> List[str]:
        return [t.sx for t in self.code.values()] + [x for o in self.ops[:n] for x in (o.v.sx, o.null.sx)]


def matches(slot: SV, x: SV) -> Any:
    """The clause value `slot` (a constant, possibly the null constant) is the operand value x."""
    if slot.sort == "null":
        return x.null if x.sort != "null" else True
    if x.sort == "null":
        return False
    return And(Not(x.null), Eq(x.v, slot.v))


def clause_matches(vals: Sequence[SV], a: SV, b: SV) -> Any:
    if len(vals) == 2:
        return Or(And(matches(vals[0], a), matches(vals[1], b)), And(matches(vals[1], a), matches(vals[0], b)))
    return Or(matches(vals[0], a), matches(vals[0], b))


def first_match(cands: Sequence[Tuple[Any, SV]], default: SV) -> SV:
    out = default
    for c, r in reversed(list(cands)):
        out = ite_sv(c, r, out) if is_sym(c) else (r if c else out)
    return out


def spec_pair(clauses: Sequence[Tuple[Sequence[SV], SV]], default: SV, a: SV, b: SV, res: SV) -> Any:
    """`res` is the value of the rule for the pair {a, b}: binary clauses first, then unary clauses, each group in the order
    of declaration (the generator's documentation; the upstream test 1-1 `when "C" then "C"; when "N" then "N"; else "F"` on
    the pair (C, N) -> C documents that the first declared matching clause wins), else the default."""
    bins = [(clause_matches(v, a, b), r) for v, r in clauses if len(v) == 2]
    uns = [(clause_matches(v, a, b), r) for v, r in clauses if len(v) == 1]
    return sv_same(res, first_match(bins + uns, default))


def spec_single(clauses: Sequence[Tuple[Sequence[SV], SV]], default: SV, x: SV, res: SV) -> Any:
    return sv_same(res, first_match([(matches(v[0], x), r) for v, r in clauses if len(v) == 1], default))


def adjacent_swaps(n: int) -> List[List[int]]:
    """The n-1 adjacent transpositions.  They generate the symmetric group, and the obligations quantify over ALL values,
    so `f(x) = f(x . t)` for every adjacent transposition t is equivalent to invariance under every permutation."""
    out = []
    for i in range(n - 1):
        p = list(range(n))
        p[i], p[i + 1] = p[i + 1], p[i]
        out.append(p)
    return out


def distinct_binary_values(clauses: Sequence[Tuple[Sequence[SV], SV]]) -> Any:
    """Requirement stated by the generator: the two values of a binary clause are different constants."""
    out = []
    for v, _r in clauses:
        if len(v) == 2 and v[0].sort != "null" and v[1].sort != "null":
            out.append(Not(Eq(v[0].v, v[1].v)))
    return And(*out)


def spec_aggregate(fn: str, xs: Sequence[Any]) -> Optional[Any]:
    """xs: the NON-NULL values (Fractions or Real terms).  Returns a predicate on the result value, None = NULL."""
    if not xs:
        return None
    if fn in ("min", "max"):
        le = (lambda r, x: RLe(r, x)) if fn == "min" else (lambda r, x: RLe(x, r))
        return lambda r: And(And(*[le(r, x) for x in xs]), Or(*[REq(r, x) for x in xs]))
    tot: Any = Fraction(0)
    for x in xs:
        tot = RAdd(tot, x)
    if fn == "sum":
        return lambda r: REq(r, tot)
    return lambda r: REq(r, RDiv(tot, len(xs)))


# ======================================================================================================================
# discharging: one obligation = many cases (each one SMT query); first counter-model is replayed
# ======================================================================================================================
@dataclass
class Case:
    label: str
    asserts: List[Any]                 # pre + negated goal
    vars: List[str]
    replay: Optional[Callable[[Dict[str, str]], Tuple[Optional[bool], str, Any]]] = None
    key: str = ""
    outside: str = ""                  # non-empty: the SQL left the model (obligation undecided)


def discharge_cases(chk: Check, eng: VpEngine, function: str, cid: str, text: str, cases: Sequence[Case],
                    timeout: float = 20.0) -> Obligation:
    """Registers the obligation; it is decided by `solve_pending` (all obligations' solver runs go out together)."""
    ob = chk.ob(f"{function}::{cid}", function, text)
    out = [c for c in cases if c.outside]
    if out:
        ob.status, ob.detail = UNDECIDED, f"{out[0].label}: {out[0].outside}"
        return ob
    if not cases:
        ob.status, ob.detail = UNDECIDED, "no case generated"
        return ob
    PENDING.append((ob, list(cases), cid, float(os.environ.get("VERIF_TIMEOUT", timeout))))
    return ob


PENDING: List[Tuple[Obligation, List[Case], str, float]] = []


def solve_pending(eng: VpEngine) -> None:
    """The solver CLI takes ~1 s to start: the cases of all pending obligations go to z3 in incremental batches (push /
    check-sat / pop), all batches in parallel; every case that is not unsat there is then decided on its own by run_smt
    (z3, cvc5 takes the unknowns) to obtain the model."""
    work = []
    for k, (_ob, cases, _cid, timeout) in enumerate(PENDING):
        for i in range(0, len(cases), BATCH):
            work.append((k, i, [c.asserts for c in cases[i:i + BATCH]], timeout))
    t0 = time.time()
    answers = pmap(lambda w: batch_status(eng, w[2], w[3]), work)
    batch_s = time.time() - t0
    hints: Dict[int, Dict[int, str]] = {}
    for (k, i, al, _t), ans in zip(work, answers):
        for j, s in enumerate(ans):
            hints.setdefault(k, {})[i + j] = s
    ncases = max(1, sum(len(c) for _o, c, _i, _t in PENDING))
    for k, (ob, cases, cid, timeout) in enumerate(PENDING):
        ob.seconds = batch_s * len(cases) / ncases
        finish_obligation(eng, ob, cases, cid, timeout, [hints[k][i] for i in range(len(cases))])
    PENDING.clear()


def finish_obligation(eng: VpEngine, ob: Obligation, cases: Sequence[Case], cid: str, timeout: float,
                      status: Sequence[str]) -> Obligation:
    t0 = time.time() - ob.seconds
    chunks = range(0, len(cases), BATCH)
    backends = {"z3"}
    for i, c in enumerate(cases):
        if status[i] == "unsat":
            continue
        r = run_smt(smt.query(eng.decls, c.asserts, get=c.vars), timeout=timeout, tag=cid[:30])
        backends.add(r.backend)
        ob.seconds = time.time() - t0
        ob.backend = "+".join(sorted(backends))
        if r.status == "unsat":
            continue
        if r.status == "unknown":
            ob.status, ob.detail = UNDECIDED, f"solver unknown on case {c.label}: {r.raw[:160]}"
            return ob
        ob.status, ob.backend = REFUTED, r.backend
        ob.detail = f"case [{c.label}] counter-model {dict(list(r.model.items())[:14])}"
        ob.witness = {"case": c.label, "model": r.model}
        ob.finding_key = c.key
        if c.replay is not None:
            try:
                ok, detail, wit = c.replay(r.model)
                ob.replayed, ob.replay_detail = ok, detail
                if wit is not None:
                    ob.witness = wit
            except Exception as e:  # noqa: BLE001
                ob.replayed, ob.replay_detail = None, f"replay harness error: {type(e).__name__}: {e}"
        return ob
    ob.seconds = time.time() - t0
    ob.backend = "+".join(sorted(backends))
    ob.status = DISCHARGED
    ob.detail = f"{len(cases)} cases (one check-sat each, {len(chunks)} solver runs), all unsat"
    return ob


BATCH = 150


def batch_status(eng: VpEngine, assert_lists: Sequence[Sequence[Any]], timeout: float) -> List[str]:
    """One z3 process, one (push)(assert ...)(check-sat)(pop) block per case.  Answers other than `unsat` are only hints:
    the caller re-decides those cases individually."""
    import subprocess
    import tempfile
    text_all = " ".join(a.sx for al in assert_lists for a in al if is_sym(a)) + " " + " ".join(eng.decls.axioms)
    lines = [eng.decls.header()] + smt._shared_defs(text_all)  # noqa: SLF001 - same composition as smt.query
    for al in assert_lists:
        lines.append("(push 1)")
        for a in al:
            lines.append(f"(assert {a.sx if is_sym(a) else smt.lit(bool(a))})")
        lines.append("(check-sat)")
        lines.append("(pop 1)")
    with tempfile.NamedTemporaryFile("w", suffix=".smt2", prefix="c28_batch_", delete=False) as fh:
        fh.write("\n".join(lines) + "\n")
        path = fh.name
    try:
        p = subprocess.run([core.Z3, "-smt2", f"-T:{int(timeout * 2 + 10)}", path], capture_output=True, text=True,
                           timeout=timeout * 2 + 20)
        out = [ln.strip() for ln in p.stdout.splitlines() if ln.strip() in ("sat", "unsat", "unknown")]
    except subprocess.TimeoutExpired:
        out = []
    finally:
        try:
            os.unlink(path)
        except OSError:
            pass
    return out + ["unknown"] * (len(assert_lists) - len(out))


# ======================================================================================================================
# native side: the real generator text in the real DuckDB
# ======================================================================================================================
def lit_sql(v: Any, typ: str) -> str:
    if v is None:
        return f"CAST(NULL AS {typ})"
    if isinstance(v, str):
        return "CAST('" + v.replace("'", "''") + f"' AS {typ})"
    if isinstance(v, Fraction):
        v = int(v) if v.denominator == 1 else float(v)
    return f"CAST({v!r} AS {typ})"


def num_type(vals: Iterable[Any]) -> str:
    return "BIGINT" if all(v is None or Fraction(v).denominator == 1 for v in vals) else "DOUBLE"


_CON: List[Any] = []


def duck() -> Any:
    """The shared in-memory DuckDB of vc.sqlconf, single-threaded (thousands of one-row queries: thread start-up dominates,
    and `list()` then delivers the rows in the order of the relation, which the order-dependence replays rely on)."""
    if not _CON:
        c = sqlconf.conn()
        c.execute("SET threads TO 1")
        _CON.append(c)
    return _CON[0]


def native_refs(expr: str, aliases: Sequence[str], vals: Sequence[Any], typ: str) -> Any:
    """expr mentions <alias>."VAt_1" for each alias: one single-row relation per operand (as in a join)."""
    frm = ", ".join(f"(SELECT {lit_sql(v, typ)} AS {COL}) AS {al}" for al, v in zip(aliases, vals))
    return duck().execute(f"SELECT {expr} FROM {frm}").fetchone()[0]


def native_group(expr: str, vals: Sequence[Any], typ: str, every_row: bool = False) -> Any:
    """expr is an aggregate / window expression over the column "VAt_1" of a relation holding vals in this row order."""
    rel = " UNION ALL ".join(f"SELECT {i} AS k, {lit_sql(v, typ)} AS {COL}" for i, v in enumerate(vals))
    if every_row:
        rows = duck().execute(f"SELECT k, {expr} FROM ({rel}) AS t ORDER BY k").fetchall()
        return [r[1] for r in rows]
    return duck().execute(f"SELECT {expr} FROM (SELECT * FROM ({rel}) ORDER BY k) AS t").fetchone()[0]


def same_native(a: Any, b: Any) -> bool:
    if a is None or b is None:
        return a is None and b is None
    if isinstance(a, str) or isinstance(b, str):
        return a == b
    return abs(float(a) - float(b)) <= 1e-9 * max(1.0, abs(float(a)), abs(float(b)))


def real_value(txt: str) -> Fraction:
    """Value of a Real term printed by z3 / cvc5: 3.0, (- 3.0), (/ 1.0 2.0), (- (/ 1 2)) ..."""
    toks = txt.replace("(", " ( ").replace(")", " ) ").split()

    def parse(i: int) -> Tuple[Fraction, int]:
        if toks[i] == "(":
            op = toks[i + 1]
            args, j = [], i + 2
            while toks[j] != ")":
                v, j = parse(j)
                args.append(v)
            if op == "-":
                return (-args[0] if len(args) == 1 else args[0] - args[1]), j + 1
            if op == "/":
                return args[0] / args[1], j + 1
            raise ValueError(txt)
        return Fraction(toks[i]), i + 1
    return parse(0)[0]


class Concrete:
    """A counter-model of an enumerated-rule obligation turned into strings: equal codes -> the same string."""

    def __init__(self, sym: Sym, sh: Shape, model: Dict[str, str], n_ops: int) -> None:
        self.names: Dict[int, str] = {}
        used = [p for vs in sh.slots() for p in vs if p] + [p for p in sh.results() if p] + ([sh.default()] if sh.default() else [])
        self.const: Dict[str, str] = {}
        for p in used:
            self.const[p] = self.name(core.smt_int(model[sym.code[p].sx]))
        self.ops: List[Optional[str]] = []
        for o in sym.ops[:n_ops]:
            self.ops.append(None if core.smt_bool(model[o.null.sx]) else self.name(core.smt_int(model[o.v.sx])))

    def name(self, code: int) -> str:
        if code not in self.names:
            self.names[code] = "ABCDEFGHIJKLMNOPQRSTUVWXYZ"[len(self.names)]
        return self.names[code]

    def sv(self, s: Optional[str]) -> SV:
        return NULL if s is None else SV("atom", {v: k for k, v in self.names.items()}[s], False)

    def unsv(self, v: SV) -> Optional[str]:
        return None if (v.sort == "null" or v.null is True) else self.names.get(v.v, f"<code {v.v}>")


# ======================================================================================================================
# tier P, part 1: the SQL rule algebra
# ======================================================================================================================
def sql_tier(chk: Check) -> None:  # noqa: C901
    R = Rules()
    eng = VpEngine()
    sym = Sym(eng)
    thorough = chk.tier == "thorough"
    need = ["vp_pair_sql", "_enumerated_single_case", "vp_dataset_wide_sql", "vp_group_sql", "vp_reduce_refs",
            "vp_no_rule_group_sql"]
    missing = [n for n in need if R.fn(n) is None]
    if missing:
        ob = chk.ob(f"{SQLF}::generators-present", SQLF, "the generator functions under contract exist")
        ob.status, ob.detail = UNDECIDED, f"not found in the working tree: {missing} (moved or renamed: no verdict)"
        return
    for n in need:
        chk.under_contract(f"{SQLF}:{n}")
    chk.under_contract(f"{SQLF}:_enumerated_case", "inlined")
    chk.under_contract(f"{SQLF}:_value_in_pair", "inlined")
    chk.under_contract(f"{SQLF}:_sql_literal", "inlined")

    A, B = 'a."VAt_1"', 'b."VAt_1"'
    refs = [f'o{i}."VAt_1"' for i in range(4)]

    def guard(f: Callable[[], SV]) -> Tuple[Optional[SV], str]:
        try:
            return f(), ""
        except SqlOutside as e:
            return None, f"outside the SQL model: {e}"
        except Exception as e:  # noqa: BLE001 - the generator itself failed on this rule
            return None, f"generator/evaluator error: {type(e).__name__}: {e}"

    def sym_rule(sh: Shape) -> Tuple[List[Tuple[List[SV], SV]], SV]:
        return [([sym.sv(p) for p in vs], sym.sv(r)) for vs, r in zip(sh.slots(), sh.results())], sym.sv(sh.default())

    def conc_rule(sh: Shape, c: Concrete) -> Tuple[Any, List[Tuple[List[SV], SV]], SV]:
        rule = R.enumerated(sh, c.const)
        cl = [([c.sv(None if p is None else c.const[p]) for p in vs], c.sv(None if r is None else c.const[r]))
              for vs, r in zip(sh.slots(), sh.results())]
        return rule, cl, c.sv(None if sh.default() is None else c.const[sh.default()])

    fam_pair = shapes(3, "all" if thorough else "quick")
    fam_fold = shapes(3 if thorough else 2, "thin")
    chk.extra["rule_shapes"] = {"pair/single": len(fam_pair), "fold": len(fam_fold)}

    # ---- enumerated: pair = specification, symmetric ------------------------------------------------------------------
    a, b = sym.ops[0], sym.ops[1]
    cases_ok, cases_sym, cases_eqv, cases_single, cases_dw = [], [], [], [], []
    for sh in fam_pair:
        rule = R.enumerated(sh)
        cl, dflt = sym_rule(sh)
        v, why = guard(lambda: eng.value_of(R.fn("vp_pair_sql")(rule, A, B), {"a.vat_1": a, "b.vat_1": b}))
        v2, why2 = guard(lambda: eng.value_of(R.fn("vp_pair_sql")(rule, B, A), {"a.vat_1": a, "b.vat_1": b}))

        def rp_pair(model: Dict[str, str], sh: Shape = sh, swapped: bool = False) -> Any:
            c = Concrete(sym, sh, model, 2)
            crule, ccl, cd = conc_rule(sh, c)
            sql = R.fn("vp_pair_sql")(crule, A, B)
            got = native_refs(sql, ["a", "b"], c.ops, "VARCHAR")
            if swapped:
                got2 = native_refs(R.fn("vp_pair_sql")(crule, B, A), ["a", "b"], c.ops, "VARCHAR")
                return got != got2, f"real DuckDB: pair({c.ops[0]!r}, {c.ops[1]!r}) = {got!r} but with the operands " \
                                    f"swapped = {got2!r}; SQL: {sql}", {"rule": sh.tag(), "constants": c.const, "operands": c.ops}
            ok = spec_pair(ccl, cd, c.sv(c.ops[0]), c.sv(c.ops[1]), c.sv(got) if got is None or got in c.names.values()
                           else SV("atom", -1, False))
            return ok is not True, f"real DuckDB: vp_pair_sql = {got!r} for the pair ({c.ops[0]!r}, {c.ops[1]!r}); the rule " \
                                   f"[{sh.tag()}] with constants {c.const} does not allow that value; SQL: {sql}", \
                {"rule": sh.tag(), "constants": c.const, "operands": c.ops, "sql": sql, "real_result": got}
        pre = distinct_binary_values(cl)
        mv = sym.model_vars(2)
        if v is None or v2 is None:
            cases_ok.append(Case(sh.tag(), [], [], outside=why or why2))
            continue
        cases_ok.append(Case(sh.tag(), [pre, Not(spec_pair(cl, dflt, a, b, v))], mv, rp_pair, "vp_pair_sql::enumerated::wrong-clause"))
        cases_sym.append(Case(sh.tag(), [Not(sv_same(v, v2))], mv, lambda m, f=rp_pair: f(m, swapped=True),
                              "vp_pair_sql::enumerated::asymmetric"))
        eqs = [Eq(vs[0].v, vs[1].v) for vs, _r in cl if len(vs) == 2 and vs[0].sort != "null" and vs[1].sort != "null"]
        if eqs and not any(sh.rnull) and len(sh.arities) <= 2:
            cases_eqv.append(Case(sh.tag(), [Or(*eqs), Not(spec_pair(cl, dflt, a, b, v))], mv, rp_pair,
                                  "vp_pair_sql::enumerated::binary-clause-equal-values"))
        # single value (row-preserving operators)
        for gname, bucket in (("_enumerated_single_case", cases_single), ("vp_dataset_wide_sql", cases_dw)):
            s1, why1 = guard(lambda: eng.value_of(R.fn(gname)(rule, COL), {"vat_1": a}))

            def rp_single(model: Dict[str, str], sh: Shape = sh, gname: str = gname) -> Any:
                c = Concrete(sym, sh, model, 1)
                crule, ccl, cd = conc_rule(sh, c)
                sql = R.fn(gname)(crule, COL)
                got = native_group(sql, c.ops, "VARCHAR", every_row=True)[0]
                ok = spec_single(ccl, cd, c.sv(c.ops[0]), c.sv(got) if got is None or got in c.names.values()
                                 else SV("atom", -1, False))
                return ok is not True, f"real DuckDB: {gname} maps the value {c.ops[0]!r} to {got!r}; rule [{sh.tag()}] " \
                                       f"with constants {c.const}; SQL: {sql}", \
                    {"rule": sh.tag(), "constants": c.const, "value": c.ops[0], "sql": sql, "real_result": got}
            if s1 is None:
                bucket.append(Case(sh.tag(), [], [], outside=why1))
            else:
                bucket.append(Case(sh.tag(), [Not(spec_single(cl, dflt, a, s1))], sym.model_vars(1), rp_single,
                                   f"{gname}::enumerated::wrong-clause"))

    f = f"{SQLF}:vp_pair_sql"
    discharge_cases(chk, eng, f, "enumerated::pair-is-the-rule",
                    "for every enumerated rule (<= 3 clauses, any constants, binary clauses with two different values) and all "
                    "nullable operands a, b: the value is the result of the binary clause whose values are {a, b} in either "
                    "order, else of a matching unary clause, else the default", cases_ok)
    discharge_cases(chk, eng, f, "enumerated::symmetric", "vp_pair_sql(rule, a, b) = vp_pair_sql(rule, b, a) for every "
                    "enumerated rule and all nullable operands", cases_sym)
    discharge_cases(chk, eng, f, "enumerated::binary-clause-with-equal-values",
                    "a binary clause `when v and v` (accepted by the grammar and by visit_ViralPropagationDef) matches only the "
                    "pair {v, v}", cases_eqv)
    discharge_cases(chk, eng, f"{SQLF}:_enumerated_single_case", "enumerated::single-value-is-the-rule",
                    "per datapoint: the value is the result of a unary clause whose value is x (null constant <-> NULL), else "
                    "the default; binary clauses never apply to a single value", cases_single)
    discharge_cases(chk, eng, f"{SQLF}:vp_dataset_wide_sql", "enumerated::per-datapoint",
                    "for an enumerated rule the row-preserving form maps each row's own value (same function as the single "
                    "case), independent of the other rows", cases_dw)

    # ---- enumerated: group / n-ary forms ---------------------------------------------------------------------------------
    fold_eq, grp_perm, red_perm = [], [], []
    for sh in fam_fold:
        rule = R.enumerated(sh)
        for n in (1, 2, 3, 4):
            xs = sym.ops[:n]
            g, why = guard(lambda: eng.value_of(R.fn("vp_group_sql")(rule, COL), {}, {"vat_1": xs}))
            env = {f"o{i}.vat_1": x for i, x in enumerate(xs)}
            r, why2 = guard(lambda: eng.value_of(R.fn("vp_reduce_refs")(rule, refs[:n]), env))
            tag = f"n={n} {sh.tag()}"
            if g is None or r is None:
                fold_eq.append(Case(tag, [], [], outside=why or why2))
                continue
            mv = sym.model_vars(n)

            def rp_fold(model: Dict[str, str], sh: Shape = sh, n: int = n) -> Any:
                c = Concrete(sym, sh, model, n)
                crule = conc_rule(sh, c)[0]
                s1, s2 = R.fn("vp_group_sql")(crule, COL), R.fn("vp_reduce_refs")(crule, refs[:n])
                g1 = native_group(s1, c.ops, "VARCHAR")
                g2 = native_refs(s2, [f"o{i}" for i in range(n)], c.ops, "VARCHAR")
                return g1 != g2, f"real DuckDB: group form over {c.ops} = {g1!r}, pairwise fold of vp_pair_sql = {g2!r}", \
                    {"rule": sh.tag(), "constants": c.const, "values": c.ops, "group_sql": s1}
            fold_eq.append(Case(tag, [Not(sv_same(g, r))], mv, rp_fold, "vp_group_sql::enumerated::not-the-fold-of-pair"))
            if n < 3:
                continue
            gp, rpm = [], []
            for perm in adjacent_swaps(n):
                ys = [xs[i] for i in perm]
                gp.append(eng.value_of(R.fn("vp_group_sql")(rule, COL), {}, {"vat_1": ys}))
                rpm.append(eng.value_of(R.fn("vp_reduce_refs")(rule, refs[:n]), {f"o{i}.vat_1": y for i, y in enumerate(ys)}))

            def rp_perm(model: Dict[str, str], sh: Shape = sh, n: int = n, grouped: bool = True) -> Any:
                c = Concrete(sym, sh, model, n)
                crule = conc_rule(sh, c)[0]
                sql = R.fn("vp_group_sql")(crule, COL) if grouped else R.fn("vp_reduce_refs")(crule, refs[:n])
                seen: Dict[Any, Any] = {}
                for perm in itertools.permutations(range(n)):
                    vals = [c.ops[i] for i in perm]
                    got = native_group(sql, vals, "VARCHAR") if grouped else \
                        native_refs(sql, [f"o{i}" for i in range(n)], vals, "VARCHAR")
                    seen.setdefault(got, vals)
                what = "row order of the group" if grouped else "order of the operands"
                return len(seen) > 1, f"real DuckDB: the same {n} values give {len(seen)} different results depending on the " \
                                      f"{what}: " + "; ".join(f"{v} -> {k!r}" for k, v in seen.items()) + f"; SQL: {sql[:300]}", \
                    {"rule": sh.tag(), "constants": c.const, "values": c.ops, "results_by_order": {str(v): k for k, v in seen.items()}}
            grp_perm.append(Case(tag, [Not(And(*[sv_same(g, p) for p in gp]))], mv, rp_perm,
                                 "vp_group_sql::enumerated::order-dependent"))
            red_perm.append(Case(tag, [Not(And(*[sv_same(r, p) for p in rpm]))], mv,
                                 lambda m, f=rp_perm: f(m, grouped=False), "vp_reduce_refs::enumerated::order-dependent"))
    discharge_cases(chk, eng, f"{SQLF}:vp_group_sql", "enumerated::group-is-the-left-fold-of-pair",
                    "list_reduce(list(col), ...) over a group x1..xn (n = 1..4) equals vp_reduce_refs over the same values in the "
                    "same order (nested vp_pair_sql), so the group form applies exactly the pair function of the rule", fold_eq)
    discharge_cases(chk, eng, f"{SQLF}:vp_group_sql", "enumerated::group-order-independent",
                    "the value of an enumerated rule over a group (aggregations, hierarchies) does not depend on the order in which "
                    "list(col) delivers the group's values (n = 3, 4; every permutation, decided through the adjacent "
                    "transpositions)", grp_perm)
    discharge_cases(chk, eng, f"{SQLF}:vp_reduce_refs", "enumerated::operand-order-independent",
                    "the value of an enumerated rule over the operands of an n-ary join (n = 3, 4) is a function of the multiset of "
                    "values, not of the operand order", red_perm)

    # priority-chain rules (the shape of the test-suite rule `when "C" then "C"; when "N" then "N"; else "F"`): the pair
    # function is associative and commutative, so here order independence MUST hold
    chain_cases = []
    for k in (1, 2, 3):
        sh = Shape((1,) * k, (False,) * k, (False,) * k, False)
        names = {f"V{i}": f"V{i}" for i in range(k)}
        names.update({f"R{i}": f"V{i}" for i in range(k)})       # result = the clause's own value
        names["DF"] = "DF"
        rule = R.enumerated(sh, names)
        for n in (2, 3, 4):
            xs = sym.ops[:n]
            for gen_name in ("vp_group_sql", "vp_reduce_refs"):
                def val(ys: Sequence[SV], gen_name: str = gen_name, rule: Any = rule, n: int = n) -> SV:
                    if gen_name == "vp_group_sql":
                        return eng.value_of(R.fn(gen_name)(rule, COL), {}, {"vat_1": list(ys)})
                    return eng.value_of(R.fn(gen_name)(rule, refs[:n]), {f"o{i}.vat_1": y for i, y in enumerate(ys)})
                try:
                    base = val(xs)
                    others = [val([xs[i] for i in p]) for p in adjacent_swaps(n)]
                except SqlOutside as e:
                    chain_cases.append(Case(f"{gen_name} chain{k} n={n}", [], [], outside=str(e)))
                    continue

                def rp_chain(model: Dict[str, str], k: int = k, n: int = n, gen_name: str = gen_name) -> Any:
                    codes: Dict[int, str] = {}

                    def nm(c: int) -> str:
                        return codes.setdefault(c, "ABCDEFGHIJKLMNOP"[len(codes)])
                    cn = {f"V{i}": nm(core.smt_int(model[f"v{i}"])) for i in range(k)}
                    cn.update({f"R{i}": cn[f"V{i}"] for i in range(k)})
                    cn["DF"] = nm(core.smt_int(model["df"]))
                    vals = [None if core.smt_bool(model[f"x{i}.null"]) else nm(core.smt_int(model[f"x{i}"])) for i in range(n)]
                    crule = R.enumerated(Shape((1,) * k, (False,) * k, (False,) * k, False), cn)
                    sql = R.fn(gen_name)(crule, COL) if gen_name == "vp_group_sql" else R.fn(gen_name)(crule, refs[:n])
                    seen: Dict[Any, Any] = {}
                    for perm in itertools.permutations(range(n)):
                        vv = [vals[i] for i in perm]
                        got = native_group(sql, vv, "VARCHAR") if gen_name == "vp_group_sql" else \
                            native_refs(sql, [f"o{i}" for i in range(n)], vv, "VARCHAR")
                        seen.setdefault(got, vv)
                    return len(seen) > 1, f"real DuckDB: priority rule {cn}: {len(seen)} different results by order: " + \
                        "; ".join(f"{v} -> {kk!r}" for kk, v in seen.items()), {"constants": cn, "values": vals}
                cs = [sym.code[f"V{i}"] for i in range(k)] + [sym.code["DF"]]
                distinct = And(*[Not(Eq(cs[i], cs[j])) for i in range(len(cs)) for j in range(i + 1, len(cs))])
                chain_cases.append(Case(f"{gen_name} chain{k} n={n}", [distinct, Not(And(*[sv_same(base, o) for o in others]))],
                                        sym.model_vars(n), rp_chain, f"{gen_name}::priority-chain::order-dependent"))
    discharge_cases(chk, eng, f"{SQLF}:vp_group_sql", "enumerated::priority-rules-order-independent",
                    "for priority rules `when v1 then v1; ...; when vk then vk; else d` with pairwise different constants (k <= 3, "
                    "the shape used by the test suite; their pair function is associative) the group form and the n-ary form "
                    "give the same value for every order of 2..4 nullable values", chain_cases)

    aggregate_rules(chk, eng, sym, R)
    solve_pending(eng)
    chk.extra["sql_constructs_evaluated"] = sorted(eng.constructs)


def aggregate_rules(chk: Check, eng: VpEngine, sym: Sym, R: Rules) -> None:  # noqa: C901
    A, B = 'a."VAt_1"', 'b."VAt_1"'
    refs = [f'o{i}."VAt_1"' for i in range(4)]

    def operands(n: int, nulls: Sequence[bool]) -> List[SV]:
        return [NULL if nulls[i] else SV("num", sym.nums[i].v, False) for i in range(n)]

    def goal(fn: str, xs: Sequence[SV], res: SV) -> Any:
        sp = spec_aggregate(fn, [x.v for x in xs if x.sort != "null"])
        if sp is None:
            return res.sort == "null" or res.null
        if res.sort == "null":
            return False
        return And(Not(res.null), sp(res.v))

    def concrete_vals(model: Dict[str, str], n: int, nulls: Sequence[bool]) -> List[Optional[Fraction]]:
        return [None if nulls[i] else real_value(model[f"q{i}"]) for i in range(n)]

    def check_native(fn: str, vals: Sequence[Optional[Fraction]], got: Any) -> bool:
        sp = spec_aggregate(fn, [v for v in vals if v is not None])
        if isinstance(got, str):
            return False
        if sp is None:
            return got is None
        return got is not None and sp(Fraction(got).limit_denominator(10 ** 9)
                                      if not isinstance(got, float) else Fraction(got).limit_denominator(10 ** 9)) is True

    for fn in AGGS:
        rule = R.aggregate(fn)
        per: Dict[str, List[Case]] = {"pair::non-null": [], "pair::null-operand": [], "pair::symmetric": [],
                                      "group": [], "whole-operand": [], "nary::non-null": [], "nary::null-operand": []}
        for n in (1, 2, 3, 4):
            for nulls in itertools.product((False, True), repeat=n):
                xs = operands(n, nulls)
                lab = f"n={n} nulls={''.join('N' if z else 'v' for z in nulls)}"
                mv = [f"q{i}" for i in range(n) if not nulls[i]]
                hasnull = "null-operand" if any(nulls) else "non-null"

                def mk(kind: str, sqlf: Callable[[], str], evalf: Callable[[str], SV], native: Callable[[str, List[Any], str], Any],
                       key: str, lab: str = lab, n: int = n, nulls: Sequence[bool] = nulls, xs: List[SV] = xs,
                       mv: List[str] = mv) -> None:
                    try:
                        sql = sqlf()
                        v = evalf(sql)
                    except SqlOutside as e:
                        per[kind].append(Case(lab, [], [], outside=str(e)))
                        return

                    def rp(model: Dict[str, str]) -> Any:
                        vals = concrete_vals(model, n, nulls)
                        got = native(sql, vals, num_type(vals))
                        want = [v for v in vals if v is not None]
                        return not check_native(fn, vals, got), \
                            f"real DuckDB: {sql} over {[None if v is None else str(v) for v in vals]} = {got!r}; aggregate {fn} of " \
                            f"the non-null values {[str(w) for w in want]} is " \
                            f"{'NULL' if not want else str(min(want) if fn == 'min' else max(want) if fn == 'max' else sum(want) if fn == 'sum' else sum(want) / len(want))}", \
                            {"function": fn, "sql": sql, "values": [None if v is None else str(v) for v in vals], "real_result": str(got)}
                    per[kind].append(Case(lab, [Not(goal(fn, xs, v))], mv, rp, key))

                if n == 2:
                    mk(f"pair::{hasnull}", lambda: R.fn("vp_pair_sql")(rule, A, B),
                       lambda sql, xs=xs: eng.value_of(sql, {"a.vat_1": xs[0], "b.vat_1": xs[1]}),
                       lambda sql, vals, typ: native_refs(sql, ["a", "b"], vals, typ),
                       f"vp_pair_sql::{fn}::{hasnull}")
                    try:
                        v1 = eng.value_of(R.fn("vp_pair_sql")(rule, A, B), {"a.vat_1": xs[0], "b.vat_1": xs[1]})
                        v2 = eng.value_of(R.fn("vp_pair_sql")(rule, B, A), {"a.vat_1": xs[0], "b.vat_1": xs[1]})
                        per["pair::symmetric"].append(Case(lab, [Not(sv_same(v1, v2))], mv, None, f"vp_pair_sql::{fn}::asymmetric"))
                    except SqlOutside as e:
                        per["pair::symmetric"].append(Case(lab, [], [], outside=str(e)))
                mk("group", lambda: R.fn("vp_group_sql")(rule, COL),
                   lambda sql, xs=xs: eng.value_of(sql, {}, {"vat_1": list(xs)}),
                   lambda sql, vals, typ: native_group(sql, vals, typ), f"vp_group_sql::{fn}")
                # row-preserving form: every row carries the aggregate over the WHOLE operand (row 0 observed; the expression
                # has no reference to the row, the native replay compares every row)
                mk("whole-operand", lambda: R.fn("vp_dataset_wide_sql")(rule, COL),
                   lambda sql, xs=xs: eng.value_of(sql, {"vat_1": xs[0]}, {"vat_1": list(xs)}),
                   lambda sql, vals, typ: (lambda rows: rows[0] if all(same_native(r, rows[0]) for r in rows) else "rows differ: " + str(rows))(
                       native_group(sql, vals, typ, every_row=True)), f"vp_dataset_wide_sql::{fn}")
                if n >= 2:
                    mk(f"nary::{hasnull}", lambda n=n: R.fn("vp_reduce_refs")(rule, refs[:n]),
                       lambda sql, xs=xs: eng.value_of(sql, {f"o{i}.vat_1": x for i, x in enumerate(xs)}),
                       lambda sql, vals, typ, n=n: native_refs(sql, [f"o{i}" for i in range(n)], vals, typ),
                       f"vp_reduce_refs::{fn}::{'null-operand' if any(nulls) else ('pairwise-fold' if n > 2 else 'non-null')}")
        texts = {
            "pair::non-null": (f"{SQLF}:vp_pair_sql", f"aggregate {fn}: for two non-NULL operands the value is {fn}(a, b)"),
            "pair::null-operand": (f"{SQLF}:vp_pair_sql", f"aggregate {fn}: with NULL operands the value is {fn} over the non-NULL "
                                   "operands (NULL when both are NULL), as the group form computes it"),
            "pair::symmetric": (f"{SQLF}:vp_pair_sql", f"aggregate {fn}: vp_pair_sql(a, b) = vp_pair_sql(b, a)"),
            "group": (f"{SQLF}:vp_group_sql", f"aggregate {fn}: the group form over x1..xn (n = 1..4, every NULL pattern) is {fn} of "
                      "the non-NULL values (hence independent of their order)"),
            "whole-operand": (f"{SQLF}:vp_dataset_wide_sql", f"aggregate {fn}: on a row-preserving operator every row gets {fn} over "
                              "the non-NULL values of the WHOLE operand (n = 1..4 rows, every NULL pattern)"),
            "nary::non-null": (f"{SQLF}:vp_reduce_refs", f"aggregate {fn}: over 2..4 non-NULL operands of a join the value is {fn} of "
                               "all of them (a function of the multiset)"),
            "nary::null-operand": (f"{SQLF}:vp_reduce_refs", f"aggregate {fn}: over 2..4 operands with NULLs the value is {fn} of the "
                                   "non-NULL ones"),
        }
        for kind, cases in per.items():
            fn_, text = texts[kind]
            discharge_cases(chk, eng, fn_, f"{fn}::{kind}", text, cases)

    # no rule: single-row group keeps its value, larger groups give NULL (unreachable in accepted programs: 1-3-3-6)
    nr = []
    for n in (1, 2, 3):
        for nulls in itertools.product((False, True), repeat=n):
            xs = operands(n, nulls)
            try:
                v = eng.value_of(R.fn("vp_no_rule_group_sql")(COL), {}, {"vat_1": xs})
            except SqlOutside as e:
                nr.append(Case(f"n={n}", [], [], outside=str(e)))
                continue
            want = xs[0] if n == 1 else NULL
            nr.append(Case(f"n={n} nulls={nulls}", [Not(sv_same(v, want))], [f"q{i}" for i in range(n) if not nulls[i]], None,
                           "vp_no_rule_group_sql"))
    discharge_cases(chk, eng, f"{SQLF}:vp_no_rule_group_sql", "single-row-group-keeps-value",
                    "without a rule a group of one row keeps its value and a larger group gives NULL (n = 1..3)", nr)


# ======================================================================================================================
# the model of the new SQL primitives against the real DuckDB (every run; a mismatch is an engine fault)
# ======================================================================================================================
def conformance(chk: Check) -> None:
    R = Rules()
    eng = VpEngine()
    bad: List[str] = []
    n = 0
    A, B = 'a."VAt_1"', 'b."VAt_1"'
    refs = [f'o{i}."VAt_1"' for i in range(3)]

    def atom(s: Optional[str]) -> SV:
        return NULL if s is None else SV("atom", eng.code(s), False)

    def unatom(v: SV) -> Optional[str]:
        return None if v.sort == "null" or v.null is True else eng.text_of(v.v)

    rules = [R.Rule("r", "variable", "VAt_1", [{"values": ["C", "N"], "result": "X"}, {"values": ["C"], "result": "C"},
                                                {"values": ["N"], "result": "N"}], None, "F"),
             R.Rule("r", "variable", "VAt_1", [{"values": [None, "C"], "result": "it's"}, {"values": [None], "result": None}], None, None),
             R.Rule("r", "variable", "VAt_1", [{"values": ["A"], "result": "B"}], None, "A"),
             R.Rule("r", "variable", "VAt_1", [], None, "D")]
    dom = [None, "C", "N", "A", "zz"]
    for rule in rules:
        for a in dom:
            for b in dom:
                sql = R.fn("vp_pair_sql")(rule, A, B)
                m = unatom(eng.value_of(sql, {"a.vat_1": atom(a), "b.vat_1": atom(b)}))
                r = native_refs(sql, ["a", "b"], [a, b], "VARCHAR")
                n += 1
                if m != r:
                    bad.append(f"{sql} on ({a!r},{b!r}): model {m!r}, DuckDB {r!r}")
            sql1 = R.fn("_enumerated_single_case")(rule, COL)
            m1 = unatom(eng.value_of(sql1, {"vat_1": atom(a)}))
            r1 = native_group(sql1, [a], "VARCHAR", every_row=True)[0]
            n += 1
            if m1 != r1:
                bad.append(f"{sql1} on {a!r}: model {m1!r}, DuckDB {r1!r}")
        for k in (1, 2, 3):
            for vals in itertools.product(dom[:4] if k < 3 else dom[:3], repeat=k):
                sg = R.fn("vp_group_sql")(rule, COL)
                mg = unatom(eng.value_of(sg, {}, {"vat_1": [atom(v) for v in vals]}))
                rg = native_group(sg, list(vals), "VARCHAR")
                sr = R.fn("vp_reduce_refs")(rule, refs[:k])
                mr = unatom(eng.value_of(sr, {f"o{i}.vat_1": atom(v) for i, v in enumerate(vals)}))
                rr = native_refs(sr, [f"o{i}" for i in range(k)], list(vals), "VARCHAR")
                n += 2
                if mg != rg:
                    bad.append(f"{sg} over {vals}: model {mg!r}, DuckDB {rg!r}")
                if mr != rr:
                    bad.append(f"{sr} over {vals}: model {mr!r}, DuckDB {rr!r}")
    ndom: List[Any] = [None, Fraction(1), Fraction(2), Fraction(-5), Fraction(5, 2)]

    def num(v: Any) -> SV:
        return NULL if v is None else SV("num", v, False)

    def unnum(v: SV) -> Any:
        return None if v.sort == "null" or v.null is True else v.v

    for fn in AGGS:
        rule = R.aggregate(fn)
        for k in (1, 2, 3):
            for vals in itertools.product(ndom if k < 3 else [None, Fraction(2), Fraction(5, 2)], repeat=k):
                typ = num_type(vals)
                todo = [(R.fn("vp_group_sql")(rule, COL), {}, True, False), (R.fn("vp_dataset_wide_sql")(rule, COL), {"vat_1": num(vals[0])}, True, True),
                        (R.fn("vp_no_rule_group_sql")(COL), {}, True, False)]
                if k >= 2:
                    todo.append((R.fn("vp_reduce_refs")(rule, refs[:k]), {f"o{i}.vat_1": num(v) for i, v in enumerate(vals)}, False, False))
                for sql, env, grouped, every in todo:
                    m = unnum(eng.value_of(sql, env, {"vat_1": [num(v) for v in vals]} if grouped else None))
                    if grouped:
                        r = native_group(sql, list(vals), typ, every_row=every)
                        r = r[0] if every else r
                    else:
                        r = native_refs(sql, [f"o{i}" for i in range(k)], list(vals), typ)
                    n += 1
                    if not same_native(m, r):
                        bad.append(f"{sql} over {[None if v is None else str(v) for v in vals]}: model {m}, DuckDB {r!r}")
    # primitives of the extension that the current tree may not emit (they appear in repaired / refactored generators)
    def plain(v: SV) -> Any:
        return None if v.sort == "null" or v.null is True else (eng.text_of(v.v) if v.sort == "atom" else v.v)
    for expr in ("COALESCE(a + b, a, b)", "COALESCE((a + b) / 2.0, a, b)", "a IS NOT DISTINCT FROM b", "a IS DISTINCT FROM b",
                 "LEAST(a, b)", "GREATEST(b, a)", "CASE WHEN a < b THEN a WHEN a >= b THEN b END", "a + b", "a - b"):
        for a in ndom:
            for b in ndom:
                typ = num_type([a, b])
                m = plain(eng.value_of(expr, {"a": num(a), "b": num(b)}))
                r = duck().execute(f"SELECT {expr} FROM (SELECT {lit_sql(a, typ)} AS a, {lit_sql(b, typ)} AS b)").fetchone()[0]
                n += 1
                if not (m == r if isinstance(m, bool) or isinstance(r, bool) else same_native(m, r)):
                    bad.append(f"{expr} on ({a}, {b}): model {m}, DuckDB {r!r}")
    for expr in ("a IS NOT DISTINCT FROM b", "a IS NOT DISTINCT FROM 'C'", "a IS NOT DISTINCT FROM NULL", "COALESCE(a, b, 'zz')",
                 "CASE WHEN (a IS NOT DISTINCT FROM 'C' AND b IS NOT DISTINCT FROM NULL) OR a = b THEN 'x' ELSE 'y' END",
                 "'C' IN (a, b)", "a IN ('C', 'N')", "NOT (a = 'C' OR b IS NULL)"):
        for a in dom:
            for b in dom:
                m = plain(eng.value_of(expr, {"a": atom(a), "b": atom(b)}))
                r = duck().execute(f"SELECT {expr} FROM (SELECT {lit_sql(a, 'VARCHAR')} AS a, {lit_sql(b, 'VARCHAR')} AS b)").fetchone()[0]
                n += 1
                if m != r:
                    bad.append(f"{expr} on ({a!r}, {b!r}): model {m!r}, DuckDB {r!r}")
    chk.extra["model_conformance"] = {"cases": n, "mismatches": len(bad)}
    if bad:
        chk.fault(f"vc.sqlvc_ext disagrees with the real DuckDB on {len(bad)} of {n} concrete cases, e.g. {bad[0]}")


def parametricity(chk: Check) -> None:
    """The placeholders are read as symbolic constants because the generators only splice constants into the text as
    literals.  Sampled here: with another (adversarial) choice of constants the generated text parses to the same tree up
    to that renaming of literals (sqlglot un-escapes the literals, so the quoting of `_sql_literal` is covered too)."""
    from sqlglot import exp, parse_one
    R = Rules()
    sigma = {f"V{i}": s for i, s in enumerate(["it's", "", "N", "x y", "Ünï", "''"])}
    sigma.update({"R0": "it's", "R1": "q'", "R2": "", "DF": "d'd"})
    bad = []
    n = 0
    refs = [f'o{i}."VAt_1"' for i in range(2)]
    for sh in shapes(2, "thin") + shapes(3, "thin")[::11]:
        for gen in (lambda r: R.fn("vp_pair_sql")(r, 'a."VAt_1"', 'b."VAt_1"'), lambda r: R.fn("_enumerated_single_case")(r, COL),
                    lambda r: R.fn("vp_group_sql")(r, COL), lambda r: R.fn("vp_reduce_refs")(r, refs)):
            t1 = parse_one(gen(R.enumerated(sh)), read="duckdb")
            t2 = parse_one(gen(R.enumerated(sh, sigma)), read="duckdb")
            for lit in t1.find_all(exp.Literal):
                if lit.is_string and lit.this in sigma:
                    lit.set("this", sigma[lit.this])
            n += 1
            if t1 != t2:
                bad.append(sh.tag())
    # and the literal text is read back by the real DuckDB as the constant itself
    con = duck()
    lit_fn = R.fn("_sql_literal")
    for s in list(sigma.values()) + ["a''b", "%_\\", "line\nbreak", "NULL"]:
        n += 1
        if lit_fn is None or con.execute(f"SELECT {lit_fn(s)}").fetchone()[0] != s:
            bad.append(f"_sql_literal({s!r})")
    ob = chk.ob(f"{SQLF}::constants-are-spliced-as-literals", SQLF, "premise of the symbolic reading of constants: with other "
                "string constants (quotes, blanks, empty, non-ASCII) every generator returns the same expression up to the renaming "
                "of the literals, and DuckDB reads each literal back as the constant itself", bounded=True)
    ob.backend = "native-sampled"
    if bad:
        ob.status, ob.detail = UNDECIDED, f"{len(bad)} of {n} samples differ, e.g. {bad[0]}: the symbolic reading of constants is not justified"
    else:
        ob.status, ob.detail = BOUNDED_OK, f"{n} samples"


# ======================================================================================================================
# tier P, part 2: registry and interpreter (vc.pyvc on the real source)
# ======================================================================================================================
def python_tier(chk: Check) -> None:  # noqa: C901
    from vc.pycheck import discharge
    from vc.pyvc import Engine, ObjV, PathResult
    rel = "ViralPropagation/__init__.py"
    irel = "Interpreter/__init__.py"
    try:
        eng = Engine()
        RegC = eng.lookup_global(rel, "ViralPropagationRegistry")
        RuleC = eng.lookup_global(rel, "ViralPropagationRule")
        f_rule_for = eng.func(rel, "ViralPropagationRegistry.rule_for")
        f_register = eng.func(rel, "ViralPropagationRegistry.register")
        f_existing = eng.func(rel, "ViralPropagationRegistry.get_existing")
        ok_init, f_init = eng.class_attr(RegC, "__init__")
    except Exception as e:  # noqa: BLE001
        ob = chk.ob(f"{REGF}::registry-present", REGF, "ViralPropagationRegistry.register / rule_for / get_existing exist")
        ob.status, ob.detail = UNDECIDED, f"{type(e).__name__}: {e}"
        return
    for q in ("register", "rule_for", "get_existing"):
        chk.under_contract(f"{REGF}:ViralPropagationRegistry.{q}")
    st1 = eng.sym_str("sig1")
    reg = ObjV(RegC, {})
    rv = ObjV(RuleC, {"name": "r1", "signature_type": st1, "target": "VAt_1", "enumerated_clauses": [],
                      "aggregate_function": "max", "default_value": None})
    rd = ObjV(RuleC, {"name": "r2", "signature_type": "valuedomain", "target": "VD_1", "enumerated_clauses": [],
                      "aggregate_function": "min", "default_value": None})

    def setup(e: Any) -> None:
        reg.attrs.clear()
        e.call(f_init, [reg], {})
        e.call(f_register, [reg, rv], {})
        e.call(f_register, [reg, rd], {})

    cname, cvd = eng.sym_str("comp.name"), eng.sym_str("comp.value_domain")
    is_var = Eq(st1, "variable")

    def which(p: PathResult, want_rv: Any, want_rd: Any) -> Any:
        if p.kind != "return":
            return False
        if p.value is rv:
            return want_rv
        if p.value is rd:
            return want_rd
        if p.value is None:
            return And(Not(want_rv), Not(want_rd))
        return False

    def native_registry(model: Dict[str, str]) -> Any:
        core.boot(full=True)
        import importlib
        m = importlib.import_module("vtlengine.ViralPropagation")
        r = m.ViralPropagationRegistry()
        sig = core.smt_str(model["sig1"]) if "sig1" in model else "variable"
        r1 = m.ViralPropagationRule("r1", sig, "VAt_1", [], "max", None)
        r2 = m.ViralPropagationRule("r2", "valuedomain", "VD_1", [], "min", None)
        r.register(r1)
        r.register(r2)
        return r, r1, r2, sig

    def rp_rule_for(kind: str) -> Callable[[Dict[str, str], PathResult], Any]:
        def rp(model: Dict[str, str], p: PathResult) -> Any:
            import types
            r, r1, r2, sig = native_registry(model)
            name = core.smt_str(model["comp.name"])
            comp = types.SimpleNamespace(name=name)
            vd = None
            if kind == "vd":
                vd = core.smt_str(model["comp.value_domain"])
                comp.value_domain = vd
            elif kind == "vd-none":
                comp.value_domain = None
            got = r.rule_for(comp)
            if sig == "variable" and name == "VAt_1":
                want = r1
            elif vd == "VD_1":
                want = r2
            elif vd == "VAt_1" and sig != "variable":
                want = r1
            else:
                want = None
            return got is not want, f"real rule_for(name={name!r}, value_domain={vd!r}) with r1 registered as {sig!r}/VAt_1 and r2 as " \
                                    f"valuedomain/VD_1 returns {getattr(got, 'name', None)!r}, expected {getattr(want, 'name', None)!r}", \
                {"component": {"name": name, "value_domain": vd}, "sig1": sig, "got": getattr(got, "name", None)}
        return rp

    f = f"{REGF}:ViralPropagationRegistry.rule_for"
    mv = ["sig1", "comp.name", "comp.value_domain"]
    var_hit = And(is_var, Eq(cname, "VAt_1"))
    for kind, comp, vd_rd, vd_rv in (
            ("vd", ObjV("Component", {"name": cname, "value_domain": cvd}), Eq(cvd, "VD_1"), And(Not(is_var), Eq(cvd, "VAt_1"))),
            ("vd-none", ObjV("Component", {"name": cname, "value_domain": None}), False, False),
            ("no-vd-attribute", ObjV("Component", {"name": cname}), False, False)):
        paths = eng.explore(f_rule_for, [reg, comp], setup=setup)
        ob_rf = discharge(chk, eng, f, f"variable-rule-overrides-value-domain::{kind}",
                  f"[component {kind}] after register(r1: <sig1>/VAt_1) and register(r2: valuedomain/VD_1), for every component name, value "
                  "domain and sig1: rule_for returns r1 iff (sig1 = 'variable' and name = 'VAt_1' exactly), else the value-domain rule "
                  "registered under exactly the component's value domain, else None",
                  paths, [], lambda p, a=vd_rd, b=vd_rv: which(p, Or(var_hit, And(Not(var_hit), Not(a), b)), And(Not(var_hit), a)),
                  mv[:3 if kind == "vd" else 2], rp_rule_for(kind), lambda m, p, kind=kind: f"rule_for::{kind}")
        registry_fallback(ob_rf)
    st, tg = eng.sym_str("q.signature_type"), eng.sym_str("q.target")
    paths = eng.explore(f_existing, [reg, st, tg], setup=setup)

    def rp_existing(model: Dict[str, str], p: PathResult) -> Any:
        r, r1, r2, sig = native_registry(model)
        s, t = core.smt_str(model["q.signature_type"]), core.smt_str(model["q.target"])
        got = r.get_existing(s, t)
        varr = {"VAt_1": r1} if sig == "variable" else {}
        vdr = {"VD_1": r2, **({} if sig == "variable" else {"VAt_1": r1})}
        want = (varr if s == "variable" else vdr).get(t)
        return got is not want, f"real get_existing({s!r}, {t!r}) = {getattr(got, 'name', None)!r}, expected {getattr(want, 'name', None)!r}", None
    qv = Eq(st, "variable")
    ob_ge = discharge(chk, eng, f"{REGF}:ViralPropagationRegistry.get_existing", "same-kind-and-exact-target",
              "get_existing(kind, target) returns the rule registered with that kind ('variable' / anything else = value domain) under "
              "exactly that target, else None", paths, [],
              lambda p: which(p, Or(And(qv, is_var, Eq(tg, "VAt_1")), And(Not(qv), Not(is_var), Eq(tg, "VAt_1"))), And(Not(qv), Eq(tg, "VD_1"))),
              ["sig1", "q.signature_type", "q.target"], rp_existing, lambda m, p: "get_existing")
    registry_fallback(ob_ge)
    # get_rule_for_variable: the variable rule registered under exactly the name, else None
    def rp_grv(model: Dict[str, str], p: PathResult) -> Any:
        r, r1, _r2, sig = native_registry(model)
        n = core.smt_str(model["q.variable"])
        got, want = r.get_rule_for_variable(n), (r1 if sig == "variable" and n == "VAt_1" else None)
        return got is not want, f"real get_rule_for_variable({n!r}) = {getattr(got, 'name', None)!r}, expected " \
                                f"{getattr(want, 'name', None)!r}", None

    try:
        f_grv = eng.func(rel, "ViralPropagationRegistry.get_rule_for_variable")
        vn = eng.sym_str("q.variable")
        ob_gv = discharge(chk, eng, f"{REGF}:ViralPropagationRegistry.get_rule_for_variable", "exact-name",
                          "get_rule_for_variable(n) returns the variable rule registered under exactly n (r1 iff sig1 = 'variable' and "
                          "n = 'VAt_1'), else None", eng.explore(f_grv, [reg, vn], setup=setup), [],
                          lambda p: which(p, And(is_var, Eq(vn, "VAt_1")), False), ["sig1", "q.variable"], rp_grv,
                          lambda m, p: "get_rule_for_variable")
        registry_fallback(ob_gv)
        chk.under_contract(f"{REGF}:ViralPropagationRegistry.get_rule_for_variable")
    except Exception:  # noqa: BLE001 - the helper is optional API; its absence is no verdict
        pass

    # ---- the interpreter: a viral attribute of a result without a rule is rejected with 1-3-3-6 --------------------------
    f2 = f"src/vtlengine/{irel}:InterpreterAnalyzer.visit_Start"
    f3 = f"src/vtlengine/{irel}:InterpreterAnalyzer.visit_ViralPropagationDef"
    try:
        interp = eng.lookup_global(irel, "InterpreterAnalyzer")
        Role = eng.lookup_global("Model/__init__.py", "Role")
        members = eng.enum_members(Role)
        role_sort = eng.enum_sort("Role", list(members.values()))
        DatasetC = eng.lookup_global("Model/__init__.py", "Dataset")
        CompC = eng.lookup_global("Model/__init__.py", "Component")
        f_start = eng.func(irel, "InterpreterAnalyzer.visit_Start")
        f_vpdef = eng.func(irel, "InterpreterAnalyzer.visit_ViralPropagationDef")
        ok_v, visit_fn = eng.class_attr(interp, "visit")
        assert ok_v and members and "VIRAL_ATTRIBUTE" in members
    except Exception as e:  # noqa: BLE001
        ob = chk.ob(f"{f2}::present", f2, "InterpreterAnalyzer.visit_Start / visit_ViralPropagationDef exist")
        ob.status, ob.detail = UNDECIDED, f"{type(e).__name__}: {e}"
        return
    chk.under_contract(f2)
    chk.under_contract(f3)
    chk.under_contract("src/vtlengine/Model/__init__.py:Dataset.get_viral_attributes", "inlined")
    kw = {"line_start": 1, "column_start": 1, "line_stop": 1, "column_stop": 1}

    def mk(cls: str, **attrs: Any) -> Any:
        return ObjV(eng.lookup_global("AST/__init__.py", cls), {**attrs, **kw})

    vname = eng.sym_str("viral.name")
    crole = eng.sym_enum("viral.role", role_sort)

    def visit_stub(e: Any, self_obj: Any, node: Any, *a: Any, **k: Any) -> Any:
        if node.cls.name == "ViralPropagationDef":
            return e.call(f_vpdef, [self_obj, node], {})
        comp = ObjV(CompC, {"name": vname, "role": crole, "data_type": None, "nullable": True})
        idc = ObjV(CompC, {"name": "Id_1", "role": members["IDENTIFIER"], "data_type": None, "nullable": False})
        return ObjV(DatasetC, {"name": "DS_r", "components": {"Id_1": idc, "c": comp}, "data": None})
    eng.contracts[(visit_fn.rel, visit_fn.qualname)] = visit_stub
    chk.assume("visit_Start obligations: self.visit(<assignment>) is replaced by a contract returning a Dataset with one identifier "
               "and one further component of symbolic name and role (what the semantic pass returns is the business of C10/C11); "
               "visit_ViralPropagationDef, the registry and Dataset.get_viral_attributes are the real code, inlined")
    is_viral = crole.eq_member(members["VIRAL_ATTRIBUTE"])
    gpre = {(rel, "_current_registry"): None, ("Exceptions/__init__.py", "dataset_output"): None}
    # component names: identifiers (letter, then letters / digits / underscore), other than the dataset's own Id_1
    letter = '(re.union (re.range "A" "Z") (re.range "a" "z"))'
    name_ok = And(smt.InRe(vname, f'(re.++ {letter} (re.* (re.union {letter} (re.range "0" "9") (str.to_re "_"))))'),
                  Not(Eq(vname, "Id_1")))

    def is_1336(p: PathResult) -> Any:
        e = p.value
        if p.kind != "raise" or not isinstance(e, ObjV) or getattr(e.cls, "name", "") != "SemanticError":
            return False
        code = e.args[0] if e.args else e.kwargs.get("code")
        return And(code == "1-3-3-6", Eq(e.kwargs.get("name", ""), vname))

    def rp_start(with_def: bool) -> Callable[[Dict[str, str], PathResult], Any]:
        def rp(model: Dict[str, str], p: PathResult) -> Any:
            name = core.smt_str(model["viral.name"])
            ridx = core.smt_int(model[crole.term.sx])
            role = list(members.values())[ridx].attrs["value"]
            code = native_semantic(name, role, "VAt_1" if with_def else None)
            want = "1-3-3-6" if role == "Viral Attribute" and not (with_def and name == "VAt_1") else "ok"
            return code != want, f"real semantic analysis of `DS_r := DS_1` (DS_1 has component {name!r} with role {role!r}" \
                                 f"{', rule declared for VAt_1' if with_def else ', no rule declared'}): {code}, expected {want}", \
                {"component": name, "role": role, "rule_for": "VAt_1" if with_def else None, "outcome": code}
        return rp

    for with_def in (True, False):
        children = [mk("Assignment", left=mk("VarID", value="DS_r"), op=":=", right=mk("VarID", value="DS_1"))]
        if with_def:
            children.insert(0, mk("ViralPropagationDef", name="vp", signature_type="variable", target="VAt_1", enumerated_clauses=[],
                                  aggregate_clause=mk("AggregateVpClause", function="max"), default_value=None))
        self_obj = ObjV(interp, {"datasets_inputs": [], "scalars_inputs": [], "datasets": {}, "scalars": {}, "is_from_join": False,
                                 "value_domains": None})
        paths = eng.explore(f_start, [self_obj, mk("Start", children=children)], gpre=gpre)
        no_rule = And(is_viral, Not(Eq(vname, "VAt_1"))) if with_def else is_viral
        tag = "rule-declared-for-VAt_1" if with_def else "no-rule-declared"
        discharge(chk, eng, f2, f"viral-attribute-without-rule-is-1-3-3-6::{tag}",
                  f"[{tag}] for every component name and role of the statement's result: visit_Start raises SemanticError 1-3-3-6 "
                  "(naming the component) iff the component is a viral attribute and no rule is registered under exactly its name; "
                  "otherwise it returns the result", paths, [name_ok],
                  lambda p, no_rule=no_rule: And(Implies(no_rule, is_1336(p)), Implies(Not(no_rule), p.kind == "return")),
                  ["viral.name", crole.term.sx], rp_start(with_def), lambda m, p, tag=tag: f"visit_Start::1-3-3-6::{tag}",
                  include_site_obligations=False)

    # the rule object the generators receive is the declared one (values, results, default, aggregate function kept in order)
    res = [eng.sym_str(f"res{i}") for i in range(2)]
    dflt, target = eng.sym_str("default"), eng.sym_str("target")
    node = mk("ViralPropagationDef", name="vp", signature_type="variable", target=target,
              enumerated_clauses=[mk("EnumeratedVpClause", name=None, values=["A", "B"], result=res[0]),
                                  mk("EnumeratedVpClause", name=None, values=["A"], result=res[1])],
              aggregate_clause=None, default_value=dflt)
    self_obj = ObjV(interp, {"datasets": {}, "scalars": {}, "value_domains": None})
    paths = eng.explore(f_vpdef, [self_obj, node], gpre={(rel, "_current_registry"): None})

    def post_def(p: PathResult) -> Any:
        if p.kind != "return":
            return False
        r = p.gpost.get((rel, "_current_registry"))
        rules = list(getattr(r, "attrs", {}).get("_variable_rules", {}).items())
        if len(rules) != 1 or getattr(r, "attrs", {}).get("_valuedomain_rules") != {}:
            return False
        key, rule = rules[0]
        cl = rule.attrs.get("enumerated_clauses")
        shape_ok = isinstance(cl, list) and len(cl) == 2 and cl[0].get("values") == ["A", "B"] and cl[1].get("values") == ["A"] \
            and rule.attrs.get("aggregate_function") is None
        if not shape_ok:
            return False
        return And(Eq(key, target), Eq(rule.attrs.get("target"), target), Eq(cl[0].get("result"), res[0]),
                   Eq(cl[1].get("result"), res[1]), Eq(rule.attrs.get("default_value"), dflt))
    discharge(chk, eng, f3, "registers-the-declared-rule",
              "an accepted enumerated definition is registered under its target as a variable rule whose clauses (values in "
              "order, results), default and (absent) aggregate function are the declared ones, for every target / result / default",
              paths, [], post_def, ["target", "default", "res0", "res1"], None, lambda m, p: "visit_ViralPropagationDef::registers",
              include_site_obligations=False)
    definition_checks(chk)


def native_registry_search() -> Optional[Dict[str, Any]]:
    """Concrete search on the REAL registry class for a disagreement with the contract
         rule_for(c) = variable rule registered under EXACTLY c.name, else the value-domain rule registered under exactly
                       c.value_domain (when the component has one), else None;
         get_rule_for_variable(n) = variable rule registered under exactly n, else None;
         get_existing(kind, t) = rule registered with that kind ('variable' / anything else) under exactly t, else None
    with names chosen to separate candidate behaviours: exact name, case variants, prefix / suffix variants, two rules
    registered in both orders, variable vs value-domain rules."""
    import types
    core.boot(full=True)
    import importlib
    m = importlib.import_module("vtlengine.ViralPropagation")
    names = ["At_1", "at_1", "AT_1", "At_1x", "At_", "xAt_1", "VD_1", "vd_1"]
    for t1 in names:
        for t2 in names:
            for k1 in ("variable", "valuedomain"):
                for k2 in ("variable", "valuedomain"):
                    reg = m.ViralPropagationRegistry()
                    r1 = m.ViralPropagationRule("r1", k1, t1, [], "min", None)
                    r2 = m.ViralPropagationRule("r2", k2, t2, [], "max", None)
                    var: Dict[str, Any] = {}
                    vd: Dict[str, Any] = {}
                    for r in (r1, r2):
                        reg.register(r)
                        (var if r.signature_type == "variable" else vd)[r.target] = r
                    setting = {"registered_in_order": [[k1, t1, "r1"], [k2, t2, "r2"]]}

                    def bad(call: str, got: Any, want: Any) -> Dict[str, Any]:
                        return {**setting, "call": call, "returned": getattr(got, "name", None), "contract": getattr(want, "name", None)}
                    for n in names:
                        got = reg.get_rule_for_variable(n) if hasattr(reg, "get_rule_for_variable") else var.get(n)
                        if got is not var.get(n):
                            return bad(f"get_rule_for_variable({n!r})", got, var.get(n))
                        for dom in ["<no attribute>", None] + names:
                            comp = types.SimpleNamespace(name=n)
                            if dom != "<no attribute>":
                                comp.value_domain = dom
                            want = var.get(n)
                            if want is None and dom not in ("<no attribute>", None):
                                want = vd.get(dom)
                            got = reg.rule_for(comp)
                            if got is not want:
                                return bad(f"rule_for(component name={n!r}, value_domain={dom!r})", got, want)
                        for kind in ("variable", "valuedomain"):
                            want = (var if kind == "variable" else vd).get(n)
                            got = reg.get_existing(kind, n)
                            if got is not want:
                                return bad(f"get_existing({kind!r}, {n!r})", got, want)
    return None


def registry_fallback(ob: Obligation) -> None:
    """An obligation on the registry that the symbolic executor could not decide (the method left the Python subset, e.g.
    str.casefold): a concrete disagreement found on the real class decides a refutation; none leaves it undecided."""
    if ob.status != UNDECIDED:
        return
    try:
        ce = native_registry_search()
    except Exception as e:  # noqa: BLE001
        ob.detail += f" | native search failed: {type(e).__name__}: {e}"
        return
    if ce is None:
        ob.detail += " | native search over exact / case-variant / prefix / suffix names: no disagreement (still undecided)"
        return
    ob.detail = f"symbolic execution: {ob.detail[:200]} | decided by the native search on the real registry class"
    ob.status, ob.backend, ob.witness, ob.replayed = REFUTED, "native-search-real-registry", ce, True
    ob.replay_detail = f"real ViralPropagationRegistry after register {ce['registered_in_order']}: {ce['call']} returns " \
                       f"{ce['returned']!r}, the contract (lookup by exact name) gives {ce['contract']!r}"
    ob.finding_key = "rule_for::lookup-not-exact"


def native_join_refs(aliases: Sequence[str], carries: Sequence[bool]) -> Tuple[List[str], List[str]]:
    """The real SQLTranspiler._build_join_viral_cols on a join whose operands have these SQL aliases: (references handed to
    vp_reduce_refs, references of the carrying operands in written order)."""
    core.boot(full=True)
    import importlib
    T = importlib.import_module("vtlengine.duckdb_transpiler.Transpiler")
    M = importlib.import_module("vtlengine.Model")
    VP = importlib.import_module("vtlengine.ViralPropagation")
    DT = importlib.import_module("vtlengine.DataTypes")
    reg = VP.ViralPropagationRegistry()
    reg.register(VP.ViralPropagationRule("vp", "variable", "VAt_1", [], "avg", None))
    infos = []
    for i, (a, c) in enumerate(zip(aliases, carries)):
        comps = {"Id_1": M.Component("Id_1", DT.Integer, M.Role.IDENTIFIER, False)}
        if c:
            comps["VAt_1"] = M.Component("VAt_1", DT.Integer, M.Role.VIRAL_ATTRIBUTE, True)
        infos.append({"ds": M.Dataset(name=f"D{i}", components=comps, data=None), "alias": a, "sql_alias": a,
                      "id_names": {"Id_1"}, "node": None, "table_src": a})
    seen: List[List[str]] = []
    orig = T.vp_reduce_refs
    T.vp_reduce_refs = lambda rule, refs: (seen.append(list(refs)), orig(rule, refs))[1]      # observe, then the real function
    try:
        T.SQLTranspiler._build_join_viral_cols(infos, reg, {"VAt_1"})
    finally:
        T.vp_reduce_refs = orig
    return (seen[0] if seen else []), [f'{a}."VAt_1"' for a, c in zip(aliases, carries) if c]


def join_refs_order(chk: Check) -> None:
    """The operands of an n-ary join reach vp_reduce_refs in the order written in the join (that order is what the engine's
    propagation model fixes when the rule's pair function is not associative)."""
    from vc.pycheck import discharge
    from vc.pyvc import Engine, ObjV, PathResult
    trel, rel = "duckdb_transpiler/Transpiler/__init__.py", "ViralPropagation/__init__.py"
    f = f"src/vtlengine/{trel}:SQLTranspiler._build_join_viral_cols"
    try:
        eng = Engine()
        fn = eng.func(trel, "SQLTranspiler._build_join_viral_cols")
        members = eng.enum_members(eng.lookup_global("Model/__init__.py", "Role"))
        CompC, DatasetC = eng.lookup_global("Model/__init__.py", "Component"), eng.lookup_global("Model/__init__.py", "Dataset")
        RegC, RuleC = eng.lookup_global(rel, "ViralPropagationRegistry"), eng.lookup_global(rel, "ViralPropagationRule")
        f_register = eng.func(rel, "ViralPropagationRegistry.register")
        _ok, f_init = eng.class_attr(RegC, "__init__")
        assert members and "VIRAL_ATTRIBUTE" in members
    except Exception as e:  # noqa: BLE001
        ob = chk.ob(f"{f}::present", f, "SQLTranspiler._build_join_viral_cols exists")
        ob.status, ob.detail = UNDECIDED, f"{type(e).__name__}: {e}"
        return
    chk.under_contract(f)

    def reduce_contract(e: Any, rule: Any, refs: Any) -> Any:
        e.effects.append(("vp_reduce_refs", list(refs)))
        return "<REDUCED>"
    eng.contracts[("ViralPropagation/sql.py", "vp_reduce_refs")] = reduce_contract
    reg = ObjV(RegC, {})
    rv = ObjV(RuleC, {"name": "vp", "signature_type": "variable", "target": "VAt_1", "enumerated_clauses": [],
                      "aggregate_function": "avg", "default_value": None})

    def setup(e: Any) -> None:
        reg.attrs.clear()
        e.call(f_init, [reg], {})
        e.call(f_register, [reg, rv], {})

    def native_counterexample(n: int, carries: Sequence[bool]) -> Optional[Tuple[List[str], List[str], List[str]]]:
        for perm in itertools.permutations(["a", "b", "c", "d"][:n]):
            for names in (list(perm), [f"DS_{'1 10 2 3'.split()[ 'abcd'.index(p)]}" for p in perm]):
                got, want = native_join_refs(names, carries)
                if got != want:
                    return names, got, want
        return None

    for n in (2, 3, 4):
        aliases = [eng.sym_str(f"join{n}.alias{i}") for i in range(n)]
        for carries in itertools.product((True, False), repeat=n):
            if sum(carries) < 2:
                continue
            infos = []
            for i in range(n):
                comps = {"Id_1": ObjV(CompC, {"name": "Id_1", "role": members["IDENTIFIER"], "data_type": None, "nullable": False})}
                if carries[i]:
                    comps["VAt_1"] = ObjV(CompC, {"name": "VAt_1", "role": members["VIRAL_ATTRIBUTE"], "data_type": None,
                                                  "nullable": True})
                infos.append({"ds": ObjV(DatasetC, {"name": f"D{i}", "components": comps, "data": None}),
                              "sql_alias": aliases[i], "alias": aliases[i]})
            want = [smt.Concat(aliases[i], '."VAt_1"') for i in range(n) if carries[i]]
            tag = f"{n}-operands::" + "".join("v" if c else "-" for c in carries)
            try:
                paths = eng.explore(fn, [infos, reg, {"VAt_1"}], setup=setup)
            except Exception as e:  # noqa: BLE001
                ob = chk.ob(f"{f}::refs-in-written-order::{tag}", f, "references reach vp_reduce_refs in written operand order")
                ob.status, ob.detail = UNDECIDED, f"{type(e).__name__}: {e}"
                paths = None

            def post(p: PathResult, want: List[Any] = want) -> Any:
                calls = [r for k, r in p.effects if k == "vp_reduce_refs"]
                if p.kind != "return" or len(calls) != 1 or len(calls[0]) != len(want) or p.value != ['<REDUCED> AS "VAt_1"']:
                    return False
                return And(*[Eq(g, w) for g, w in zip(calls[0], want)])

            def rp(model: Dict[str, str], p: PathResult, n: int = n, carries: Sequence[bool] = carries) -> Any:
                names = [core.smt_str(model[f"join{n}.alias{i}"]) for i in range(n)]
                got, exp = native_join_refs(names, carries)
                return got != exp, f"real _build_join_viral_cols, operands written as {names} (carrying VAt_1: " \
                                   f"{[a for a, c in zip(names, carries) if c]}): vp_reduce_refs receives {got}, written order is {exp}", \
                    {"aliases_in_written_order": names, "refs_passed": got, "refs_in_written_order": exp}
            if paths is not None:
                ob = discharge(chk, eng, f, f"refs-in-written-order::{tag}",
                               f"[join of {n} operands, VAt_1 carried by {tag.split('::')[1]}] for ALL aliases: exactly one call of "
                               "vp_reduce_refs, with the references <alias>.\"VAt_1\" of the carrying operands in the order written in the "
                               "join, and its result is the merged column", paths, [], post,
                               [f"join{n}.alias{i}" for i in range(n)], rp, lambda m, p: "_build_join_viral_cols::operand-order",
                               include_site_obligations=False)
            if ob.status == UNDECIDED:
                # the symbolic executor could not follow the method (e.g. it now sorts / compares the aliases): a concrete
                # counterexample among all relative orders of written vs alphabetical alias order still decides a refutation
                ce = native_counterexample(n, carries)
                if ce is not None:
                    names, got, exp = ce
                    ob.detail = f"symbolic execution: {ob.detail[:160]} | decided by the exhaustive native enumeration of alias orders"
                    ob.status, ob.backend = REFUTED, "native-exhaustive-alias-orders"
                    ob.witness = {"aliases_in_written_order": names, "refs_passed": got, "refs_in_written_order": exp}
                    ob.replayed = True
                    ob.replay_detail = f"real _build_join_viral_cols, operands written as {names}: vp_reduce_refs receives {got}, " \
                                       f"written order is {exp}"
                    ob.finding_key = "_build_join_viral_cols::operand-order"


def native_semantic(comp_name: str, role: str, rule_target: Optional[str]) -> str:
    """Real semantic_analysis (API function minus the parser) of `DS_r := DS_1`."""
    from vc import pipeline as P
    core.boot(full=True)
    A = P.A()
    comps = [{"name": "Id_1", "type": "Integer", "role": "Identifier", "nullable": False}]
    if comp_name != "Id_1":
        comps.append({"name": comp_name, "type": "String", "role": role, "nullable": role != "Identifier"})
    stmts = [P.assign("DS_r", P.var("DS_1"))]
    if rule_target is not None:
        stmts.insert(0, A.ViralPropagationDef(name="vp", signature_type="variable", target=rule_target, enumerated_clauses=[],
                                              aggregate_clause=A.AggregateVpClause(function="max", **P.KW), default_value=None, **P.KW))
    try:
        P.api_from_ast("semantic_analysis")(P.start(stmts), P.structures([{"name": "DS_1", "DataStructure": comps}]))
        return "ok"
    except Exception as e:  # noqa: BLE001
        from vc.e2e import err_code
        return err_code(e)


def definition_checks(chk: Check) -> None:
    """Bounded, native: which definitions visit_ViralPropagationDef rejects (every equality pattern of <= 2 clauses over
    two constants and the null constant; mixes; duplicate targets)."""
    from vc import pipeline as P
    from vc.e2e import err_code
    core.boot(full=True)
    import importlib
    A = P.A()
    Interp = importlib.import_module("vtlengine.Interpreter").InterpreterAnalyzer
    f3 = "src/vtlengine/Interpreter/__init__.py:InterpreterAnalyzer.visit_ViralPropagationDef"

    def run(defs: Sequence[Any]) -> str:
        try:
            Interp(datasets={}, scalars={}).visit(P.start(list(defs)))
            return "ok"
        except Exception as e:  # noqa: BLE001
            return err_code(e)

    def vp(target: str, clauses: Sequence[Tuple[Sequence[Any], Any]] = (), agg: Optional[str] = None, kind: str = "variable") -> Any:
        return A.ViralPropagationDef(name="vp", signature_type=kind, target=target, enumerated_clauses=[
            A.EnumeratedVpClause(name=None, values=list(v), result=r, **P.KW) for v, r in clauses],
            aggregate_clause=A.AggregateVpClause(function=agg, **P.KW) if agg else None, default_value=None, **P.KW)
    bad: List[Any] = []
    n = 0
    consts = ["A", "B", None]
    clause_values = [[a] for a in consts] + [[a, b] for a in consts for b in consts if not (a is None and b is None) and a != b]
    for c1 in clause_values:
        for c2 in clause_values:
            n += 1
            same = len(c1) == len(c2) and sorted(map(repr, c1)) == sorted(map(repr, c2))
            got = run([vp("VAt_1", [(c1, "X"), (c2, "Y")])])
            if got != ("1-3-3-4" if same else "ok"):
                bad.append({"clauses": [c1, c2], "outcome": got, "expected": "1-3-3-4" if same else "accepted"})
    for agg in AGGS:
        n += 2
        if run([vp("VAt_1", [(["A"], "X")], agg)]) != "1-3-3-3":
            bad.append({"mixed": agg})
        if run([vp("VAt_1", agg=agg)]) != "ok":
            bad.append({"aggregate-only": agg})
    for kind, code in (("variable", "1-3-3-1"), ("valuedomain", "1-3-3-2")):
        n += 2
        if run([vp("T", agg="max", kind=kind), vp("T", agg="min", kind=kind)]) != code:
            bad.append({"duplicate target": kind})
        if run([vp("T", agg="max", kind=kind), vp("U", agg="min", kind=kind)]) != "ok":
            bad.append({"different targets": kind})
    ob = chk.ob(f"{f3}::rejections", f3, "a definition is rejected with 1-3-3-4 iff two clauses describe the same value combination "
                "(same arity, same values in any order), with 1-3-3-3 iff it mixes clauses and an aggregate, with 1-3-3-1 / 1-3-3-2 iff "
                "its target already has a rule of that kind; otherwise it is accepted (two clauses over {A, B, null}; 4 aggregates)",
                bounded=True)
    ob.backend = "bounded-exhaustive-native"
    if bad:
        ob.status, ob.detail, ob.witness = REFUTED, f"{len(bad)} of {n} definitions: {bad[0]}", bad[0]
        ob.replayed, ob.replay_detail, ob.finding_key = True, f"real InterpreterAnalyzer: {bad[0]}", "visit_ViralPropagationDef::rejections"
    else:
        ob.status, ob.detail = BOUNDED_OK, f"{n} definitions"


# ======================================================================================================================
# tier B (bounded): which combinator each operator applies, on the real engine
# ======================================================================================================================
class Unspecified(Exception):
    """The propagation model (as far as I can take it from the property text) does not define this case."""


WRITTEN_FOLD = "VAt_1 (left fold in written operand order)"
FAIL_PRIORITY = {"not-written-order-fold": 0, "error": 1, "viral-column-missing": 2, "structure": 3, "value": 4, "order": 5}
UNSPEC = "<unspecified>"
ORDER_DEP = "<depends on the order of the values>"

# rule kinds of the bounded tier: (viral data type, enumerated clauses, default, aggregate function)
B_RULES: Dict[str, Tuple[str, List[Tuple[List[Any], Any]], Any, Optional[str]]] = {
    "enumerated-priority": ("String", [(["C"], "C"), (["N"], "N")], "F", None),
    "enumerated-with-binary-clause": ("String", [(["C", "N"], "X"), (["C"], "C"), (["N"], "N")], "F", None),
    "aggregate-min": ("Integer", [], None, "min"),
    "aggregate-max": ("Integer", [], None, "max"),
    "aggregate-sum": ("Integer", [], None, "sum"),
    "aggregate-avg": ("Integer", [], None, "avg"),
    "enumerated-integer-constants": ("Integer", [([1, 5], 9), ([1], 1), ([5], 5)], 0, None),
}
INT_KIND = "enumerated-integer-constants"
NONALPHA = "inner join of three datasets whose written operand order is not the alphabetical order of the aliases"
ORDER_SENSITIVE_KINDS = ("enumerated-with-binary-clause", "aggregate-avg")     # pair function not associative


def ref_pair(rule: Any, a: Any, b: Any) -> Any:
    _t, clauses, default, agg = rule
    if agg:
        return ref_agg(agg, [a, b])
    for vals, res in clauses:
        if len(vals) == 2 and ((a == vals[0] and b == vals[1]) or (a == vals[1] and b == vals[0])):
            return res
    for vals, res in clauses:
        if len(vals) == 1 and (a == vals[0] or b == vals[0]):
            return res
    return default


def ref_single(rule: Any, x: Any) -> Any:
    _t, clauses, default, _agg = rule
    for vals, res in clauses:
        if len(vals) == 1 and x == vals[0]:
            return res
    return default


def ref_agg(fn: str, vals: Sequence[Any]) -> Any:
    xs = [Fraction(v) for v in vals if v is not None]
    if not xs:
        return None
    return {"min": min, "max": max, "sum": sum, "avg": lambda z: sum(z) / len(z)}[fn](xs)


def ref_group(rule: Any, vals: Sequence[Any]) -> Any:
    """The rule over the multiset of values of the datapoints combined into one result datapoint."""
    if rule[3]:
        return ref_agg(rule[3], vals)
    if len(vals) == 1:
        return UNSPEC          # one datapoint in the group: value itself or the per-datapoint map? not stated
    out = set()
    for perm in set(itertools.permutations(vals)):
        acc = perm[0]
        for x in perm[1:]:
            acc = ref_pair(rule, acc, x)
        out.add(acc)
    return out.pop() if len(out) == 1 else ORDER_DEP


def ref_rowwise(rule: Any, rows: List[Dict[str, Any]]) -> None:
    """Row-preserving dataset-level operator: per datapoint for enumerated rules, whole operand for aggregate rules."""
    if rule[3]:
        v = ref_agg(rule[3], [r["VAt_1"] for r in rows])
        for r in rows:
            r["VAt_1"] = v
    else:
        for r in rows:
            r["VAt_1"] = ref_single(rule, r["VAt_1"])


@dataclass
class RefDS:
    ids: List[str]
    rows: List[Dict[str, Any]]

    def key(self, r: Dict[str, Any]) -> Tuple[Any, ...]:
        return tuple(r[i] for i in self.ids)


def ref_cexpr(e: Any, r: Dict[str, Any]) -> Any:
    if e[0] == "comp":
        return r[e[1]]
    if e[0] == "const":
        return e[1]
    if e[0] == "bin":
        a, b = ref_cexpr(e[2], r), ref_cexpr(e[3], r)
        if a is None or b is None:
            return None
        return {"+": lambda: a + b, ">": lambda: a > b, "<": lambda: a < b, "=": lambda: a == b, ">=": lambda: a >= b}[e[1]]()
    raise Unspecified(str(e))


def ref_eval(t: Any, env: Dict[str, RefDS], rule: Any) -> RefDS:  # noqa: C901
    k = t[0]
    if k == "ds":
        d = env[t[1]]
        return RefDS(list(d.ids), [dict(r) for r in d.rows])
    if k == "bin":
        _k, op, x, y = t
        if x[0] == "const" or y[0] == "const":
            d = ref_eval(y if x[0] == "const" else x, env, rule)
            ref_rowwise(rule, d.rows)
            return d
        a, b = ref_eval(x, env, rule), ref_eval(y, env, rule)
        if sorted(a.ids) != sorted(b.ids):
            raise Unspecified("operands with different identifiers")
        bi = {b.key(r): r for r in b.rows}
        rows = []
        for r in a.rows:
            o = bi.get(tuple(r[i] for i in b.ids))
            if o is not None:
                n = {i: r[i] for i in a.ids}
                n["VAt_1"] = ref_pair(rule, r["VAt_1"], o["VAt_1"])
                rows.append(n)
        return RefDS(list(a.ids), rows)
    if k == "un":
        d = ref_eval(t[2], env, rule)
        ref_rowwise(rule, d.rows)
        return d
    if k == "agg":
        d = ref_eval(t[2], env, rule)
        gids = list(t[4] or []) if t[3] == "group by" else []
        groups: Dict[Tuple[Any, ...], List[Any]] = {}
        for r in d.rows:
            groups.setdefault(tuple(r[i] for i in gids), []).append(r["VAt_1"])
        return RefDS(gids, [{**dict(zip(gids, g)), "VAt_1": ref_group(rule, vs)} for g, vs in groups.items()])
    if k == "clause":
        _k, kind, x, args = t
        d = ref_eval(x, env, rule)
        if kind == "filter":
            d.rows = [r for r in d.rows if ref_cexpr(args, r) is True]
        elif kind in ("calc", "keep", "rename"):
            pass                                     # measures only in the generated programs: viral attribute unchanged
        else:
            raise Unspecified(kind)
        return d
    if k == "set":
        ds = [ref_eval(x, env, rule) for x in t[2]]
        a, b = ds[0], ds[1]
        ka, kb = {a.key(r) for r in a.rows}, {b.key(r) for r in b.rows}
        if t[1] == "union":
            rows = a.rows + [r for r in b.rows if b.key(r) not in ka]
        elif t[1] == "intersect":
            rows = [r for r in a.rows if a.key(r) in kb]
        elif t[1] == "setdiff":
            rows = [r for r in a.rows if a.key(r) not in kb]
        elif t[1] == "symdiff":
            rows = [r for r in a.rows if a.key(r) not in kb] + [r for r in b.rows if b.key(r) not in ka]
        else:
            raise Unspecified(t[1])
        return RefDS(list(a.ids), rows)
    if k == "join":
        _k, op, operands, using, body = t
        if op != "inner_join" or using or body:
            raise Unspecified("only plain inner joins on the common identifiers are in the model of this check")
        ds = [ref_eval(x, env, rule) for x, _a in operands]
        if any(sorted(d.ids) != sorted(ds[0].ids) for d in ds):
            raise Unspecified("join operands with different identifiers")
        rows = []
        for r in ds[0].rows:
            key = ds[0].key(r)
            others = [next((o for o in d.rows if tuple(o[i] for i in ds[0].ids) == key), None) for d in ds[1:]]
            if all(o is not None for o in others):
                vals = [r["VAt_1"]] + [o["VAt_1"] for o in others]   # type: ignore[index]
                n = {i: r[i] for i in ds[0].ids}
                n["VAt_1"] = ref_pair(rule, vals[0], vals[1]) if len(vals) == 2 else ref_group(rule, vals)
                # what the engine's model fixes where the rule is not a function of the multiset: the left fold of the pair
                # function over the operands IN THE ORDER WRITTEN in the join (vp_reduce_refs: "ordered list of column refs")
                acc = vals[0]
                for x in vals[1:]:
                    acc = ref_pair(rule, acc, x)
                n[WRITTEN_FOLD] = acc
                rows.append(n)
        return RefDS(list(ds[0].ids), rows)
    raise Unspecified(k)


def b_tables(kind: str, with_nulls: bool) -> Dict[str, Tuple[List[Tuple[str, str]], List[Tuple[str, str]], List[Dict[str, Any]]]]:
    """name -> (identifiers, measures, rows).  DS_1/DS_2 share the measure name (binary / set operators), DS_3/DS_4 have
    their own measure names (joins).  Conflicting viral values on the shared keys, NULLs when with_nulls."""
    string = B_RULES[kind][0] == "String"
    pool = (["C", "N", "N", "F", "F", "Z", "C"] if string else [1, 5, 2, 5, 7, 3, 2])   # DS_1, Id_1 = 1: C, N, F
    ids = [("Id_1", "Integer"), ("Id_2", "Integer")]

    def rows(keys: Sequence[Tuple[int, int]], me: str, shift: int, nulls: Sequence[int]) -> List[Dict[str, Any]]:
        out = []
        for j, (a, b) in enumerate(keys):
            v = pool[(j * 2 + shift) % len(pool)]
            out.append({"Id_1": a, "Id_2": b, me: float(10 * a + b + shift), "VAt_1": None if (with_nulls and j in nulls) else v})
        return out
    k1 = [(1, 1), (1, 2), (1, 3), (2, 1), (2, 2)]
    k2 = [(1, 1), (1, 2), (2, 2), (2, 3)]
    return {"DS_1": (ids, [("Me_1", "Number")], rows(k1, "Me_1", 0, (2, 3))),
            "DS_2": (ids, [("Me_1", "Number")], rows(k2, "Me_1", 1, (1,))),
            "DS_3": (ids, [("Me_2", "Number")], rows(k2, "Me_2", 3, (0,))),
            "DS_4": (ids, [("Me_3", "Number")], rows(k1, "Me_3", 4, (4,))),
            # DS_10 sorts between DS_1 and DS_2 as a name: joins whose written operand order is not the alphabetical one
            "DS_10": (ids, [("Me_4", "Number")], rows(k1, "Me_4", 5, (1,)))}


def join_operand_orders(ir: Any, env: Dict[str, "RefDS"], rule: Any) -> Optional[Tuple[int, int]]:
    """For a join IR of >= 3 operands: (#joined keys, #keys whose left fold in ALPHABETICAL alias order differs from the fold in
    written order) - the vacuity guard of the classes that pin the written order."""
    if ir[0] != "join" or len(ir[2]) < 3:
        return None
    ds = [ref_eval(x, env, rule) for x, _a in ir[2]]
    names = [a or x[1] for x, a in ir[2]]
    alpha = sorted(range(len(names)), key=lambda i: names[i])
    n = diff = 0
    for r in ds[0].rows:
        key = ds[0].key(r)
        vals = [r["VAt_1"]]
        for d in ds[1:]:
            o = next((o for o in d.rows if tuple(o[i] for i in ds[0].ids) == key), None)
            if o is None:
                break
            vals.append(o["VAt_1"])
        if len(vals) != len(ds):
            continue
        n += 1

        def fold(order: Sequence[int]) -> Any:
            acc = vals[order[0]]
            for i in order[1:]:
                acc = ref_pair(rule, acc, vals[i])
            return acc
        if not b_same(*(float(v) if isinstance(v, Fraction) else v for v in (fold(range(len(vals))), fold(alpha)))):
            diff += 1
    return n, diff


def b_programs() -> List[Tuple[str, str, Any]]:
    """(operator class, text, IR)"""
    d1, d2, d3, d4 = ("ds", "DS_1"), ("ds", "DS_2"), ("ds", "DS_3"), ("ds", "DS_4")
    g1 = ("agg", "sum", d1, "group by", ["Id_1"], None)
    return [
        ("dataset-dataset binary operator", "DS_1 + DS_2", ("bin", "+", d1, d2)),
        ("dataset-dataset binary operator", "DS_2 * DS_1", ("bin", "*", d2, d1)),
        ("dataset-scalar operator", "DS_1 * 2", ("bin", "*", d1, ("const", 2))),
        ("dataset-scalar operator", "1 + DS_2", ("bin", "+", ("const", 1), d2)),
        ("unary operator", "abs(DS_1)", ("un", "abs", d1)),
        ("unary operator", "- DS_2", ("un", "-", d2)),
        ("aggregation (group by)", "sum(DS_1 group by Id_1)", g1),
        ("aggregation (group by)", "max(DS_1 group by Id_2)", ("agg", "max", d1, "group by", ["Id_2"], None)),
        ("aggregation (group by)", "count(DS_2 group by Id_1)", ("agg", "count", d2, "group by", ["Id_1"], None)),
        ("inner join of two datasets", "inner_join(DS_1, DS_3)", ("join", "inner_join", [(d1, None), (d3, None)], None, [])),
        ("inner join of three datasets", "inner_join(DS_1, DS_3, DS_4)", ("join", "inner_join", [(d1, None), (d3, None), (d4, None)], None, [])),
        (NONALPHA, "inner_join(DS_3, DS_10, DS_1)", ("join", "inner_join", [(d3, None), (("ds", "DS_10"), None), (d1, None)], None, [])),
        (NONALPHA, "inner_join(DS_1, DS_3, DS_10)", ("join", "inner_join", [(d1, None), (d3, None), (("ds", "DS_10"), None)], None, [])),
        (NONALPHA, "inner_join(DS_4 as z, DS_1 as a, DS_3 as m)", ("join", "inner_join", [(d4, "z"), (d1, "a"), (d3, "m")], None, [])),
        ("clause filter", "DS_1[filter Me_1 > 12]", ("clause", "filter", d1, ("bin", ">", ("comp", "Me_1"), ("const", 12)))),
        ("clause calc", "DS_1[calc Me_2 := Me_1 + 1]", ("clause", "calc", d1, [("Me_2", ("bin", "+", ("comp", "Me_1"), ("const", 1)))])),
        ("clause keep", "DS_1[keep Me_1]", ("clause", "keep", d1, ["Me_1"])),
        ("clause rename", "DS_1[rename Me_1 to Me_9]", ("clause", "rename", d1, [("Me_1", "Me_9")])),
        ("plain assignment", "DS_1", d1),
        ("set operator union", "union(DS_1, DS_2)", ("set", "union", [d1, d2])),
        ("set operator intersect", "intersect(DS_1, DS_2)", ("set", "intersect", [d1, d2])),
        ("set operator setdiff", "setdiff(DS_1, DS_2)", ("set", "setdiff", [d1, d2])),
        ("set operator symdiff", "symdiff(DS_1, DS_2)", ("set", "symdiff", [d1, d2])),
        ("operator over a dataset-dataset expression", "sum(DS_1 + DS_2 group by Id_1)",
         ("agg", "sum", ("bin", "+", d1, d2), "group by", ["Id_1"], None)),
        ("operator over a dataset-dataset expression", "abs(DS_1 - DS_2)", ("un", "abs", ("bin", "-", d1, d2))),
        ("operator over a dataset-dataset expression", "DS_1 + DS_2 + DS_4[rename Me_3 to Me_1]",
         ("bin", "+", ("bin", "+", d1, d2), ("clause", "rename", d4, [("Me_3", "Me_1")]))),
        ("composition of row-preserving operators and clauses", "abs(DS_1)[filter Id_2 = 2]",
         ("clause", "filter", ("un", "abs", d1), ("bin", "=", ("comp", "Id_2"), ("const", 2)))),
        ("composition of row-preserving operators and clauses", "sum(DS_1[filter Id_2 < 3] group by Id_1)",
         ("agg", "sum", ("clause", "filter", d1, ("bin", "<", ("comp", "Id_2"), ("const", 3))), "group by", ["Id_1"], None)),
    ]


def b_orders(n: int, thorough: bool, seed: int) -> List[List[int]]:
    import random
    rng = random.Random(seed)
    base = list(range(n))
    out = [base, base[::-1], base[2:] + base[:2]]
    for _ in range(9 if thorough else 1):
        p = base[:]
        rng.shuffle(p)
        out.append(p)
    return out


def b_job(job: Tuple[str, bool, Any, List[int]]) -> Any:
    """Runs in a worker process: one program on the real engine.  Returns (ids, {key: viral value}, roles) or an error."""
    kind, with_nulls, irs, order = job
    try:
        from spec import vtlref as RF
        from vc import pipeline as P
        from vc.e2e import err_code, norm_value
        import pandas as pd
        os.environ.setdefault("VTL_THREADS", "2")        # 16 workers x DuckDB's default of one thread per core would thrash
        core.boot(full=True)
        A = P.A()
        vtype, clauses, default, agg = B_RULES[kind]
        vp = A.ViralPropagationDef(name="vp", signature_type="variable", target="VAt_1", enumerated_clauses=[
            A.EnumeratedVpClause(name=None, values=list(v), result=r, **P.KW) for v, r in clauses],
            aggregate_clause=A.AggregateVpClause(function=agg, **P.KW) if agg else None, default_value=default, **P.KW)
        structs, data = [], {}
        for name, (ids, meas, rows) in b_tables(kind, with_nulls).items():
            comps = [{"name": n, "type": ty, "role": "Identifier", "nullable": False} for n, ty in ids]
            comps += [{"name": n, "type": ty, "role": "Measure", "nullable": True} for n, ty in meas]
            comps.append({"name": "VAt_1", "type": vtype, "role": "Viral Attribute", "nullable": True})
            structs.append({"name": name, "DataStructure": comps})
            rr = [rows[i] for i in order if i < len(rows)]
            cols = [c["name"] for c in comps]
            df = pd.DataFrame([{c: r.get(c) for c in cols} for r in rr], columns=cols)
            if vtype == "Integer":
                df["VAt_1"] = df["VAt_1"].astype("Int64")
            data[name] = df
        run = P.api_from_ast("run")

        def pack(res: Any) -> Any:
            roles = {n: c.role.value for n, c in res.components.items()}
            ids_r = [n for n, r in roles.items() if r == "Identifier"]
            if "VAt_1" not in res.data.columns:
                return ("ok", ids_r, None, roles)
            return ("ok", ids_r, [(tuple(norm_value(rec[i]) for i in ids_r), norm_value(rec["VAt_1"]))
                                  for rec in res.data.to_dict("records")], roles)

        def go(idx: Sequence[int]) -> Any:
            ast = P.start([vp] + [P.assign(f"DS_r{i}", RF.to_ast(irs[i]), True) for i in idx])
            return run(ast, P.structures(structs), {k: v.copy() for k, v in data.items()}, return_only_persistent=False)
        # all programs as one script (independent persistent assignments over the same inputs); when the script fails as a
        # whole, every program is run on its own so that a failure is attributed to the program that causes it
        try:
            res = go(range(len(irs)))
            return [pack(res[f"DS_r{i}"]) for i in range(len(irs))]
        except Exception:  # noqa: BLE001
            out = []
            for i in range(len(irs)):
                try:
                    out.append(pack(go([i])[f"DS_r{i}"]))
                except Exception as e:  # noqa: BLE001
                    out.append(("error", err_code(e), f"{type(e).__name__}: {str(e)[:200]}", type(e).__module__))
            return out
    except Exception as e:  # noqa: BLE001
        import traceback
        return [("harness", traceback.format_exc()[-600:], str(e), "")] * len(irs)


CASE_VARIANT_DATA = {"DS_A": ("At_1", "min", [(1, 1, 4), (1, 2, 9), (2, 1, 3), (2, 2, 8)]),
                     "DS_B": ("at_1", "max", [(1, 1, 4), (1, 2, 9), (2, 1, 3), (2, 2, 8)])}


def b_case_variant_job(order: Sequence[int]) -> Any:
    """Worker process: two datasets whose viral attributes differ only in case (At_1 / at_1), one rule each (min / max),
    one aggregation over each.  Returns {result name: [(Id_1, viral value)]} or an error."""
    try:
        from spec import vtlref as RF
        from vc import pipeline as P
        from vc.e2e import err_code, norm_value
        import pandas as pd
        os.environ.setdefault("VTL_THREADS", "2")
        core.boot(full=True)
        A = P.A()
        defs, structs, data, stmts = [], [], {}, []
        for ds, (attr, agg, rows) in CASE_VARIANT_DATA.items():
            defs.append(A.ViralPropagationDef(name=f"vp_{ds}", signature_type="variable", target=attr, enumerated_clauses=[],
                                              aggregate_clause=A.AggregateVpClause(function=agg, **P.KW), default_value=None, **P.KW))
            structs.append({"name": ds, "DataStructure": [
                {"name": "Id_1", "type": "Integer", "role": "Identifier", "nullable": False},
                {"name": "Id_2", "type": "Integer", "role": "Identifier", "nullable": False},
                {"name": "Me_1", "type": "Number", "role": "Measure", "nullable": True},
                {"name": attr, "type": "Integer", "role": "Viral Attribute", "nullable": True}]})
            rr = [rows[i] for i in order if i < len(rows)]
            data[ds] = pd.DataFrame({"Id_1": [r[0] for r in rr], "Id_2": [r[1] for r in rr], "Me_1": [1.0] * len(rr),
                                     attr: [r[2] for r in rr]})
            stmts.append(P.assign(f"R_{ds}", RF.to_ast(("agg", "sum", ("ds", ds), "group by", ["Id_1"], None)), True))
        try:
            res = P.api_from_ast("run")(P.start(defs + stmts), P.structures(structs), data, return_only_persistent=False)
        except Exception as e:  # noqa: BLE001
            return ("error", err_code(e), f"{type(e).__name__}: {str(e)[:200]}", type(e).__module__)
        out = {}
        for ds, (attr, _agg, _rows) in CASE_VARIANT_DATA.items():
            df = res[f"R_{ds}"].data
            out[ds] = None if attr not in df.columns else sorted((norm_value(r["Id_1"]), norm_value(r[attr])) for r in df.to_dict("records"))
        return ("ok", out)
    except Exception as e:  # noqa: BLE001
        import traceback
        return ("harness", traceback.format_exc()[-600:], str(e), "")


def b_same(a: Any, b: Any) -> bool:
    if a is None or b is None:
        return a is None and b is None
    if isinstance(a, str) or isinstance(b, str):
        return a == b
    return abs(float(a) - float(b)) <= 1e-9 * max(1.0, abs(float(a)))


class BTier:
    def __init__(self, chk: Check) -> None:
        import multiprocessing as mp
        from concurrent.futures import ProcessPoolExecutor
        self.chk = chk
        thorough = chk.tier == "thorough"
        self.orders = b_orders(5, thorough, chk.seed)
        self.progs = b_programs()
        everything = list(range(len(self.progs)))
        self.batches = [(kind, wn, order, everything) for kind in B_RULES if kind != INT_KIND for wn in (False, True)
                        for order in self.orders]
        # constants of an enumerated rule are VTL constants: integers for an Integer viral attribute (two programs suffice)
        self.batches += [(INT_KIND, wn, self.orders[0], [0, 4]) for wn in (False, True)]
        self.jobs: List[Tuple[str, str, str, bool, Any, List[int]]] = [
            (self.progs[i][0], self.progs[i][1], kind, wn, self.progs[i][2], order) for kind, wn, order, idx in self.batches for i in idx]
        # half of the cores: the parent (model conformance, symbolic evaluation, z3 batches) runs at the same time
        self.pool = ProcessPoolExecutor(max_workers=max(2, min(core.NCPU, 16) // 2), mp_context=mp.get_context("fork"))
        self.futs = [self.pool.submit(b_job, (kind, wn, [self.progs[i][2] for i in idx], order))
                     for kind, wn, order, idx in self.batches]
        self.case_futs = [(o, self.pool.submit(b_case_variant_job, [i for i in o if i < 4])) for o in self.orders[:2]]

    def collect(self) -> None:  # noqa: C901
        chk = self.chk
        fn = "src/vtlengine/duckdb_transpiler/Transpiler/__init__.py:SQLTranspiler"
        chk.under_contract(fn, "bounded")
        results = [r for f in self.futs for r in f.result()]
        case_results = [(o, f.result()) for o, f in self.case_futs]
        self.pool.shutdown()
        # rules are looked up by EXACT name: viral attributes that differ only in case (in different datasets) keep their own rule
        ob = chk.ob(f"{fn}::wiring::case-variant viral attribute names", fn,
                    "DS_A has the viral attribute At_1 (rule: aggregate min), DS_B has at_1 (rule: aggregate max): sum(DS_A group by "
                    "Id_1) carries the min and sum(DS_B group by Id_1) the max of each group's viral values", bounded=True)
        ob.backend = "bounded-enumeration-real-engine"
        ob.status, ob.detail = BOUNDED_OK, f"{len(case_results)} runs"
        for o, res in case_results:
            if res[0] == "harness":
                ob.status, ob.detail = UNDECIDED, "harness error: " + res[1]
                break
            problem = None
            if res[0] == "error":
                if res[3].startswith("vtlengine") and str(res[1]).startswith(("1-", "0-")):
                    ob.status, ob.detail = UNDECIDED, f"the engine does not accept the program ({res[1]}): nothing to compare"
                    break
                problem = f"run() raised {res[2]}"
            else:
                for ds, (attr, agg, rows) in CASE_VARIANT_DATA.items():
                    f_agg = min if agg == "min" else max
                    want = sorted((g, f_agg(v for a, _b, v in rows if a == g)) for g in {r[0] for r in rows})
                    got = res[1][ds]
                    if got is None or len(got) != len(want) or any(k1 != k2 or not b_same(v1, v2) for (k1, v1), (k2, v2) in zip(got, want)):
                        problem = f"sum({ds} group by Id_1): {attr} = {got}, the rule `aggregate {agg}` declared for {attr} gives {want}"
                        break
            if problem:
                ob.status, ob.detail = REFUTED, problem
                ob.witness = {"program": "define viral propagation (variable At_1) aggregate min; (variable at_1) aggregate max; "
                                         "R_DS_A <- sum(DS_A group by Id_1); R_DS_B <- sum(DS_B group by Id_1);",
                              "data": {k: {"viral attribute": v[0], "rows (Id_1, Id_2, value)": v[2]} for k, v in CASE_VARIANT_DATA.items()},
                              "row_order": o, "problem": problem}
                ob.replayed, ob.replay_detail = True, "observed on the real engine (API.run below the parser): " + problem
                ob.finding_key = "wiring::case-variant viral attribute names"
                break
        classes: Dict[Tuple[str, str, bool], Dict[str, Any]] = {}
        unspecified: Dict[str, int] = {}
        for (cls, text, kind, wn, ir, order), res in zip(self.jobs, results):
            c = classes.setdefault((cls, kind, wn), {"n": 0, "fail": None, "harness": None, "by_program": {}})
            rule = B_RULES[kind]
            tabs = b_tables(kind, wn)
            env = {n: RefDS([i for i, _t in ids], [dict(r) for r in rows]) for n, (ids, _m, rows) in tabs.items()}
            data = {n: [tabs[n][2][i] for i in order if i < len(tabs[n][2])] for n in tabs if n in text}
            if res[0] == "harness":
                c["harness"] = res[1]
                continue
            try:
                ref = ref_eval(ir, env, rule)
            except Unspecified as e:
                unspecified[str(e)] = unspecified.get(str(e), 0) + 1
                continue
            jo = join_operand_orders(ir, env, rule)
            if jo is not None:
                c["discriminating_keys"] = c.get("discriminating_keys", 0) + jo[1]
            if res[0] == "error":
                _k, code, msg, module = res
                if module.startswith("vtlengine") and str(code).startswith(("1-", "0-")) and code != "1-3-3-6":
                    continue                     # the engine does not accept the program: nothing to compare
                c["n"] += 1
                if c["fail"] is None:
                    c["fail"] = (text, f"run() raised {msg} (code {code}); the propagation model defines a result", data, "error")
                continue
            _k, ids_r, got, roles = res
            c["n"] += 1
            problem = None
            want = {tuple(r[i] for i in ids_r): r["VAt_1"] for r in ref.rows} if sorted(ids_r) == sorted(ref.ids) else None
            folds = {tuple(r[i] for i in ids_r): r[WRITTEN_FOLD] for r in ref.rows if WRITTEN_FOLD in r} if want is not None else {}
            what = "value"
            if got is None or roles.get("VAt_1") != "Viral Attribute":
                problem = f"the returned data has no viral attribute column VAt_1 (declared components {roles})"
                what = "viral-column-missing"
            elif want is None:
                problem, what = f"identifiers {ids_r} vs model {ref.ids}", "structure"
            elif sorted(k for k, _v in got) != sorted(want):
                problem, what = f"datapoint keys {sorted(k for k, _v in got)} vs model {sorted(want)}", "structure"
            else:
                def show(x: Any) -> str:
                    return str(x) if isinstance(x, Fraction) else repr(x)

                def num(x: Any) -> Any:
                    return float(x) if isinstance(x, Fraction) else x
                for key, v in got:
                    w = want[key]
                    if w == UNSPEC:
                        unspecified["single-datapoint group under an enumerated rule"] = \
                            unspecified.get("single-datapoint group under an enumerated rule", 0) + 1
                        continue
                    if key in folds:
                        # join: where the rule is not a function of the multiset the model is the written-order left fold.  A
                        # value that is neither the multiset value nor that fold is never attributed to the known D1 / D3 keys
                        fold = folds[key]
                        if w != ORDER_DEP and b_same(v, num(w)):
                            continue
                        if b_same(v, num(fold)):
                            if w != ORDER_DEP and what == "value" and problem is None:
                                problem = f"datapoint {dict(zip(ids_r, key))}: VAt_1 = {v!r} (the pairwise fold in written operand " \
                                          f"order), the rule over all joined values gives {show(w)}"
                            continue
                        problem = f"datapoint {dict(zip(ids_r, key))}: VAt_1 = {v!r} is not the left fold of the rule over the operands " \
                                  f"in the order written in the join ({show(fold)})" + \
                                  ("" if w == ORDER_DEP else f" nor the rule over all joined values ({show(w)})")
                        what = "not-written-order-fold"
                        break
                    if w == ORDER_DEP:
                        continue                 # decided below: the engine's value must at least not depend on the row order
                    if not b_same(v, num(w)):
                        problem = f"datapoint {dict(zip(ids_r, key))}: VAt_1 = {v!r}, the rule gives {show(w)}"
                        break
            c["by_program"].setdefault(text, []).append((order, dict(got) if got else {}, data))
            if problem and (c["fail"] is None or FAIL_PRIORITY[what] < FAIL_PRIORITY[c["fail"][3]]):
                c["fail"] = (text, problem, data, what)
        chk.extra["bounded_programs"] = {"runs": len(self.jobs), "row_orders_per_program": len(self.orders),
                                         "programs": len(b_programs()), "unspecified_cases_left_out": unspecified}
        for (cls, kind, wn), c in sorted(classes.items()):
            lab = f"{cls} / {kind} rule / {'with' if wn else 'without'} NULL viral values"
            ob = chk.ob(f"{fn}::wiring::{cls}::{kind}::{'nulls' if wn else 'no-nulls'}", fn,
                        f"[{lab}] every result datapoint's viral attribute is the rule applied as the propagation model prescribes "
                        f"and does not depend on the row order of the inputs ({len(self.orders)} row orders per program)", bounded=True)
            ob.backend = "bounded-enumeration-real-engine"
            if c["harness"]:
                ob.status, ob.detail = UNDECIDED, "harness error: " + c["harness"]
                continue
            # order dependence: same program, same data, different row order -> different viral values
            if c["fail"] is None:
                for text, runs in c["by_program"].items():
                    base = runs[0]
                    for o, got, data in runs[1:]:
                        diff = [k for k in got if k in base[1] and not b_same(got[k], base[1][k])]
                        if diff:
                            c["fail"] = (text, f"datapoint {diff[0]}: VAt_1 = {base[1][diff[0]]!r} with the input rows in order "
                                         f"{base[0]} but {got[diff[0]]!r} in order {o} (same datapoints)", data, "order")
                            break
                    if c["fail"]:
                        break
            if c["fail"]:
                text, problem, data, what = c["fail"]
                ob.status, ob.detail = REFUTED, f"DS_r <- {text}  ==>  {problem}"
                ob.witness = {"program": f"DS_r <- {text};", "rule": {"clauses": B_RULES[kind][1], "default": B_RULES[kind][2],
                                                                      "aggregate": B_RULES[kind][3]}, "data": data, "problem": problem}
                ob.replayed, ob.replay_detail = True, "observed on the real engine (API.run below the parser): " + problem
                ob.finding_key = f"wiring::{cls}::viral-column-missing" if what == "viral-column-missing" else \
                    f"wiring::{cls}::{kind}::{'nulls' if wn else 'no-nulls'}::{what}"
            elif c["n"] == 0:
                ob.status, ob.detail = UNDECIDED, "no program of this class was accepted and comparable"
            elif cls == NONALPHA and kind in ORDER_SENSITIVE_KINDS and not c.get("discriminating_keys"):
                ob.status, ob.detail = UNDECIDED, "vacuous: on this data the fold in alphabetical alias order equals the fold in " \
                                                  "written order for every joined datapoint"
            else:
                ob.status, ob.detail = BOUNDED_OK, f"{c['n']} runs" + (
                    f"; {c['discriminating_keys']} joined datapoints distinguish the written operand order from the alphabetical "
                    "alias order" if c.get("discriminating_keys") else "")


# ======================================================================================================================
def main() -> None:
    chk = Check("C28", "proof", "SQL text returned by the real generators of ViralPropagation/sql.py (called with real rule "
                "objects of every shape <= 3 clauses / every aggregate) evaluated symbolically (vc.sqlvc_ext: 3VL, NULL-"
                "skipping LEAST/GREATEST and aggregates, list_reduce unrolled, string constants as symbolic codes) and "
                "compared with the propagation model by z3/cvc5; registry and 1-3-3-6 path obligations by vc.pyvc on the "
                "real source; counter-models replayed in the real DuckDB / real interpreter; operator wiring: bounded "
                "enumeration of programs on the real engine (labelled bounded)", min_obligations=120)
    only = os.environ.get("VERIF_PART", "")
    phases: Dict[str, float] = {}

    def phase(name: str, f: Callable[[], None]) -> None:
        t0 = time.time()
        f()
        phases[name] = round(time.time() - t0, 1)
    bt = BTier(chk) if only in ("", "b") else None       # worker processes are forked before the parent opens DuckDB
    if only in ("", "conf"):
        phase("model-conformance", lambda: conformance(chk))
        phase("parametricity", lambda: parametricity(chk))
    if only in ("", "sql"):
        phase("sql-rule-algebra", lambda: sql_tier(chk))
    if only in ("", "py"):
        phase("registry-interpreter", lambda: python_tier(chk))
        phase("join-operand-order", lambda: join_refs_order(chk))
    if bt is not None:
        phase("bounded-tier-wait", bt.collect)
    chk.extra["phase_seconds"] = phases
    if only:
        chk.min_obligations = 1
    chk.assume("DuckDB evaluates CASE / IN / IS NULL / LEAST / GREATEST / + / '/' / MIN MAX SUM AVG COUNT / AGG(c) OVER () / "
               "list_reduce(list(c), lambda) as vc.sqlvc_ext models them (compared with the real DuckDB on the concrete grid of this "
               "run - generated texts of 4 enumerated rules and the 4 aggregates over all small operand tuples - and by the native "
               "replay of every counter-model; sampled, not proved); sqlglot parses the generated text as DuckDB does")
    chk.assume("strings are opaque codes: the generated SQL touches viral values of enumerated rules only through =, IN and IS NULL "
               "(any other operator on them leaves the model -> undecided), so an injective renaming of strings preserves every "
               "obligation; numbers are exact reals (DECIMAL / DOUBLE rounding and overflow not modelled); for min / max the reals stand "
               "for any totally ordered type (the texts use only LEAST / GREATEST / MIN / MAX on the operands)")
    chk.assume("constants of a rule are read as symbolic codes because the generators only splice them into the text as literals "
               "(sampled each run: other constants give the same expression up to renaming of literals; every replay regenerates the "
               "SQL from a rule with concrete constants)")
    chk.assume("number of values: pair forms are exact; group / n-ary / whole-operand forms are decided for 1..4 values (every NULL "
               "pattern, values unbounded); that list_reduce and the nested pair form behave alike for longer lists is not proved")
    chk.assume(f"BOUNDED (operator wiring): {len(b_programs())} programs x {len(B_RULES) - 1} rule kinds (+ integer constants on two "
               "programs) x data with / without NULL viral values x row orders on the real "
               "engine below the parser (hand-built ASTs incl. ViralPropagationDef); nothing is proved for other programs or data. Not "
               "exercised: hierarchy / check_hierarchy / check_datapoint, analytic invocations (vp_group_sql_windowed), unpivot, "
               "time operators, left / full / cross joins and joins with using or a body, dataset-level if-then-else, several viral "
               "attributes, value-domain rules, calc creating a viral attribute")
    chk.notes.append("left out as UNSPECIFIED by the property text (never asserted): the value of a one-datapoint group under an "
                     "enumerated rule (the engine keeps the value; the per-datapoint map would be the alternative); a viral attribute "
                     "present in only one operand of a binary operator / join; the missing side of an outer join; the order of two "
                     "matching clauses of the same arity is taken from the engine's documentation and the upstream test 1-1 (first "
                     "declared wins)")
    chk.notes.append("vp_no_rule_group_sql and the no-rule branches of the transpiler are unreachable in accepted programs (1-3-3-6): "
                     "only the single-row / multi-row contract of the generator is checked")
    chk.trust("z3 5.1 (incremental batches) / cvc5 1.0.3 for z3's unknowns; sqlglot 30 (parser); vc.pyvc symbolic semantics of the "
              "Python subset; vc.sqlvc_ext (validated against DuckDB each run)")
    chk.finish()


if __name__ == "__main__":
    core.main_guard("C28", main)
