"""C20 native harness: the two REAL sides of the property on the same API-level input.

    validate side : vtlengine.API.validate_dataset(data_structures, datapoints)                 (the public function)
    run() side    : the part of vtlengine.API.run() that reads the datapoints, i.e. exactly the calls run() makes
                    after the script has been parsed and analysed: load_datasets(data_structures) ->
                    extract_datapoint_paths(datapoints, input_datasets) -> load_scheduled_datasets(conn, 1, schedule
                    {1: [dataset]}, path_dict, dataframe_dict, input_datasets), which dispatches to
                    load_datapoints_duckdb (CSV path) / register_dataframes (DataFrame).  The text -> AST prologue of
                    run() cannot execute in this sandbox (compiled parser absent) and does not look at the datapoints.
Both get the same `data_structures` dict and the same `datapoints` ({name: DataFrame} or {name: Path}).
"""
from __future__ import annotations

import csv
import os
import tempfile
import warnings
from pathlib import Path
from typing import Any, Dict, List, Optional, Sequence, Tuple

DS = "DS_1"
VTL_TYPE = {"Time_Period": "Time_Period", "Date": "Date", "Time": "Time", "Duration": "Duration", "Integer": "Integer",
            "Number": "Number", "Boolean": "Boolean", "String": "String"}
Col = Tuple[str, str, str, bool]          # name, type, role, nullable
_TUNED = False


def structure(cols: Sequence[Col]) -> Dict[str, Any]:
    return {"datasets": [{"name": DS, "DataStructure": [
        {"name": n, "type": VTL_TYPE[t], "role": r, "nullable": nl} for n, t, r, nl in cols]}]}


def validate_side(ds_json: Dict[str, Any], datapoints: Dict[str, Any]) -> Tuple[str, Any]:
    from vtlengine.API import validate_dataset
    warnings.filterwarnings("ignore")
    try:
        validate_dataset(ds_json, datapoints)
        return "accept", None
    except Exception as e:  # noqa: BLE001 - the property is about raising at all
        return "reject", e


def run_side(ds_json: Dict[str, Any], datapoints: Dict[str, Any]) -> Tuple[str, Any]:
    from vc import sqlconf
    from vtlengine.API._InternalApi import load_datasets
    from vtlengine.AST.DAG._models import DatasetSchedule
    from vtlengine.duckdb_transpiler.io._execution import load_scheduled_datasets
    from vtlengine.duckdb_transpiler.io._io import extract_datapoint_paths
    conn = sqlconf.conn()
    global _TUNED
    if not _TUNED:
        conn.execute("SET threads TO 1")       # one-row tables: DuckDB's thread pool only costs time (no semantic effect)
        _TUNED = True
    conn.execute(f'DROP TABLE IF EXISTS "{DS}"')
    try:
        input_datasets, _sc = load_datasets(ds_json)
        path_dict, df_dict = extract_datapoint_paths(datapoints, input_datasets)
        load_scheduled_datasets(conn, 1, DatasetSchedule(insertion={1: [DS]}), path_dict, df_dict, input_datasets)
        rows = conn.execute(f'SELECT * FROM "{DS}"').fetchall()
        return "accept", rows
    except Exception as e:  # noqa: BLE001
        return "reject", e
    finally:
        conn.execute(f'DROP TABLE IF EXISTS "{DS}"')


def frame(columns: Sequence[str], rows: Sequence[Sequence[Any]], dtypes: Optional[Dict[str, Any]] = None) -> Any:
    import pandas as pd
    data = {}
    for i, c in enumerate(columns):
        vals = [r[i] for r in rows]
        dt = (dtypes or {}).get(c, "object")
        data[c] = pd.Series(vals, dtype=dt)
    return pd.DataFrame(data, columns=list(columns))


class CsvFile:
    """A CSV file named DS_1.csv in a scratch directory (None cell -> empty field)."""

    def __init__(self, columns: Sequence[str], rows: Sequence[Sequence[Any]]) -> None:
        self.dir = tempfile.mkdtemp(prefix="verif_c20_")
        self.path = Path(self.dir) / f"{DS}.csv"
        with open(self.path, "w", newline="") as f:
            w = csv.writer(f)
            w.writerow(list(columns))
            for r in rows:
                w.writerow(["" if v is None else v for v in r])

    def close(self) -> None:
        try:
            os.unlink(self.path)
            os.rmdir(self.dir)
        except OSError:
            pass


def both(cols: Sequence[Col], columns: Sequence[str], rows: Sequence[Sequence[Any]], form: str,
         dtypes: Optional[Dict[str, Any]] = None) -> Tuple[Tuple[str, Any], Tuple[str, Any]]:
    """(validate side, run() side) for one table given in DataFrame ('df') or CSV ('csv') form."""
    dsj = structure(cols)
    if form == "df":
        out_v = validate_side(dsj, {DS: frame(columns, rows, dtypes)})
        out_r = run_side(dsj, {DS: frame(columns, rows, dtypes)})      # a fresh frame per side
        return out_v, out_r
    f = CsvFile(columns, rows)
    try:
        return validate_side(dsj, {DS: f.path}), run_side(dsj, {DS: f.path})
    finally:
        f.close()


def show(out: Tuple[str, Any]) -> str:
    if out[0] == "accept":
        return "accepts" + (f" (stores {out[1]!r})"[:90] if out[1] is not None else "")
    e = out[1]
    return f"raises {type(e).__name__}: {str(e)[:110]}"
