"""C07, bounded tier: generated rulesets x output/validation/input modes x small datasets with nulls, zeros and missing
datapoints, executed on the real engine below the parser (vc.pipeline) and compared with the independent reference
evaluation spec/vtlref_validation.py; the worked examples of the VTL reference manual that ship with the repository
(tests/ReferenceManual/data) are replayed as document oracle; HRDAGAnalyzer.sort_hr_rules is checked exhaustively over
small rule graphs.  Everything here is labelled bounded.

A case is a plain dict (picklable: the cases are spread over worker processes):
  kind = dp | check | check_hierarchy | hierarchy, cls = obligation class, plus the rule descriptions / options / rows.
"""
from __future__ import annotations

import csv
import itertools
import random
import sys
from pathlib import Path
from typing import Any, Dict, Iterator, List, Optional, Sequence, Tuple

sys.path.insert(0, str(Path(__file__).resolve().parent.parent))
sys.path.insert(0, str(Path(__file__).resolve().parent))

N = None
MODES = ("non_null", "non_zero", "partial_null", "partial_zero", "always_null", "always_zero")


# ---- data ------------------------------------------------------------------------------------------------------------------------
def dp_rows() -> List[Dict[str, Any]]:
    vals = [(1, 2, True, "x"), (3, 1, False, "y"), (N, 4, True, N), (0, N, N, "x"), (-2, -2, False, "z"), (7, 12, N, "x"),
            (N, N, N, N), (5, 3, True, "y"), (6, N, False, N), (-1, 3, True, "x")]
    return [dict(Id_1=i, Me_1=a, Me_2=b, Me_3=c, Me_4=d) for i, (a, b, c, d) in enumerate(vals, 1)]


DP_IDS = [("Id_1", "Integer")]
DP_MEAS = [("Me_1", "Integer"), ("Me_2", "Integer"), ("Me_3", "Boolean"), ("Me_4", "String")]


def dp_rule_pool() -> List[Dict[str, Any]]:
    c = lambda n: ("col", n)  # noqa: E731
    k = lambda v: ("const", v)  # noqa: E731
    return [
        dict(when=("cmp", ">", c("Me_1"), k(0)), then=("cmp", ">=", c("Me_2"), c("Me_1")), erCode="E1", erLevel=1),
        dict(when=None, then=("cmp", "<=", c("Me_1"), k(5)), erCode=None, erLevel=None),
        dict(when=c("Me_3"), then=("cmp", "<", c("Me_2"), k(10)), erCode="E3", erLevel=None),
        dict(when=("isnull", c("Me_2")), then=("cmp", "=", c("Me_1"), k(0)), erCode=None, erLevel=4),
        dict(when=("or", ("cmp", "=", c("Me_4"), k("x")), ("cmp", "<", c("Me_1"), k(0))),
             then=("not", ("cmp", "=", c("Me_2"), k(3))), erCode="E5", erLevel=2),
        dict(when=None, then=c("Me_3"), erCode="E6", erLevel=6),
        dict(when=("and", ("cmp", ">", c("Me_1"), k(0)), ("cmp", ">", c("Me_2"), k(0))), then=("cmp", "<>", c("Me_1"), c("Me_2")),
             erCode="E7", erLevel=None),
    ]


def hr_datasets(rng: random.Random, extra: int) -> List[List[Dict[str, Any]]]:
    """Datasets over code items A..E, groups Id_1 = 1..3: complete / nulls / zeros / missing items."""
    fixed = [
        [("A", 10), ("B", 4), ("C", 6), ("D", 1), ("E", 3)],
        [("A", 5), ("B", N), ("C", 6), ("D", 0), ("E", -1)],
        [("A", 0), ("B", 0), ("C", 0), ("E", 2)],
        [("B", 2), ("C", -2), ("D", 7)],
        [("A", N), ("C", 3)],
        [("D", 4), ("E", N)],
    ]
    out = [[dict(Id_1=g, Id_2=it, Me_1=None if v is None else float(v)) for g, grp in enumerate(fixed[:3], 1) for it, v in grp],
           [dict(Id_1=g, Id_2=it, Me_1=None if v is None else float(v)) for g, grp in enumerate(fixed[3:], 1) for it, v in grp]]
    for _ in range(extra):
        rows = []
        for g in (1, 2, 3):
            for it in "ABCDE":
                if rng.random() < 0.7:
                    rows.append(dict(Id_1=g, Id_2=it, Me_1=rng.choice([N, 0.0, 0.0, 1.0, -1.0, 2.0, 5.0, 2.5, -3.0])))
        out.append(rows)
    return out


HR_IDS = [("Id_1", "Integer"), ("Id_2", "String")]
HR_MEAS = [("Me_1", "Number")]


def R(left: str, op: str, right: str, ec: Optional[str] = None, el: Optional[int] = None) -> Dict[str, Any]:
    """right like 'B+C-D'."""
    items: List[Tuple[str, str]] = []
    sg = "+"
    for ch in right:
        if ch in "+-":
            sg = ch
        else:
            items.append((sg, ch))
            sg = "+"
    return dict(name=None, left=left, op=op, right=items, erCode=ec, erLevel=el)


def VPshow(rule: Dict[str, Any]) -> str:
    import _valprograms as VP
    return VP.show_hr_rule(rule)


def named(rules: Sequence[Dict[str, Any]], prefix: str = "r") -> List[Dict[str, Any]]:
    return [dict(r, name=f"{prefix}{i}") for i, r in enumerate(rules, 1)]


# ---- cases -----------------------------------------------------------------------------------------------------------------------
def dp_cases(rng: random.Random, thorough: bool) -> Iterator[Dict[str, Any]]:
    pool = dp_rule_pool()
    sizes = (1, 2, 3, 4, 5) if thorough else (1, 2, 3)
    for n in sizes:
        combos = list(itertools.permutations(range(len(pool)), n))
        if n > 1:
            combos = rng.sample(combos, min(len(combos), 14 if thorough else 5))
        for j, combo in enumerate(combos):
            rules = [dict(pool[i], name=None) for i in combo]
            if (j + n) % 2:
                rules = named(rules)
            for output in (None, "invalid", "all", "all_measures"):
                yield dict(kind="dp", cls=f"check_datapoint {output or 'default(invalid)'} {n} rule(s)", rules=rules,
                           output=output, rows=dp_rows(), source="plain")
    # the operand is an expression (the transpiler then materialises it once for all rules)
    rules = named([pool[0], pool[4]])
    for output in ("invalid", "all"):
        yield dict(kind="dp", cls="check_datapoint on a filtered operand", rules=rules, output=output, rows=dp_rows(), source="filter")
    # an alias in the ruleset signature
    al = [dict(when=("cmp", ">", ("col", "m1"), ("const", 0)), then=("cmp", ">=", ("col", "Me_2"), ("col", "m1")), erCode="EA", erLevel=1,
               name=None)]
    yield dict(kind="dp", cls="check_datapoint with a signature alias", rules=al, output="all_measures", rows=dp_rows(), source="alias")


def check_cases(rng: random.Random, thorough: bool) -> Iterator[Dict[str, Any]]:
    ra = [dict(Id_1=1, Me_1=1.0), dict(Id_1=2, Me_1=N), dict(Id_1=3, Me_1=5.0), dict(Id_1=4, Me_1=-2.0), dict(Id_1=5, Me_1=0.0)]
    rb = [dict(Id_1=1, Me_1=2.0), dict(Id_1=2, Me_1=3.0), dict(Id_1=3, Me_1=5.0), dict(Id_1=4, Me_1=N), dict(Id_1=6, Me_1=0.0)]
    for op in (">=", "=", "<", "<>") if thorough else (">=", "=", "<"):
        for invalid in (False, True):
            for ec, el in (("E", 1), (None, None), ("X", None), (None, 3)) if thorough else (("E", 1), (None, None)):
                for wimb in (True, False):
                    yield dict(kind="check", cls=f"check {'invalid' if invalid else 'all'} {'with' if wimb else 'without'} imbalance",
                               op=op, invalid=invalid, ec=ec, el=el, imbalance=wimb, ra=ra, rb=rb)


def ch_rulesets() -> List[List[Dict[str, Any]]]:
    return [
        [R("A", "=", "B+C", "EH", 3)],
        [R("A", ">=", "B-C")],
        [R("B", "<", "C", "EL")],
        [R("A", "=", "B+C+D-E", None, 5)],
        [R("A", "=", "B+C", "E1", 1), R("D", "<=", "E", "E2", 2)],
        [R("A", ">", "B", None, 9), R("C", "=", "D+E"), R("E", "<", "A-B", "E3")],
        [R("D", "=", "A-B-C"), R("B", ">=", "C+E", "E4", 4)],
    ]


def check_hierarchy_cases(rng: random.Random, thorough: bool) -> Iterator[Dict[str, Any]]:
    data = hr_datasets(rng, 3 if thorough else 1)
    sets = ch_rulesets()
    for mode in MODES:
        for output in (None, "invalid", "all", "all_measures"):
            picks = sets if thorough else [sets[i] for i in rng.sample(range(len(sets)), 2)]
            for k, rules in enumerate(picks):
                rs = named(rules, "R") if (k % 2 == 0 or len(rules) > 1) else rules
                for rows in (data if thorough else [data[k % len(data)], data[(k + 1) % len(data)]]):
                    yield dict(kind="check_hierarchy", cls=f"check_hierarchy {mode} {output or 'default(invalid)'}", rules=rs,
                               mode=mode, output=output, rows=rows)
    # default validation mode (non_null)
    yield dict(kind="check_hierarchy", cls="check_hierarchy default mode", rules=named(sets[0], "R"), mode=None, output="all", rows=data[0])
    # unnamed rules: ruleid = the rule's position in the ruleset as written
    for rules, mode in (([R("A", "=", "B+C", "E1", 1), R("B", "=", "D+E", "E2", 2)], "non_null"),
                        ([R("A", "=", "B+C", "E1", 1), R("B", "=", "D+E", "E2", 2)], "always_zero"),
                        ([R("C", ">", "D"), R("A", "=", "B+C", "E1", 1), R("B", "=", "D+E")], "partial_null")):
        yield dict(kind="check_hierarchy", cls="check_hierarchy unnamed rules (ruleid = written position)", rules=rules, mode=mode,
                   output="all", rows=data[0])
    # a comparison rule whose left item is also computed by / used in `=` rules (the manual's own example has this shape)
    yield dict(kind="check_hierarchy", cls="check_hierarchy comparison rule on an item used by = rules",
               rules=named([R("B", "=", "D+E"), R("A", "=", "B+C"), R("D", "<=", "A")], "R"), mode="non_null", output="all", rows=data[0])


def h_rulesets() -> List[Tuple[str, List[Dict[str, Any]]]]:
    return [
        ("single", [R("A", "=", "B+C")]),
        ("single", [R("D", "=", "A-B+E")]),
        ("independent", [R("A", "=", "B+C"), R("D", "=", "E-C")]),
        ("chain", [R("B", "=", "D+E"), R("A", "=", "B+C")]),
        ("chain written in reverse order", [R("A", "=", "B+C"), R("B", "=", "D+E")]),
        ("chain of three", [R("D", "=", "E+E"), R("B", "=", "D-C"), R("A", "=", "B+D")]),
        ("chain of three written in reverse order", [R("A", "=", "B+D"), R("B", "=", "D-C"), R("D", "=", "E+E")]),
        ("with comparison rules", [R("A", "=", "B+C"), R("A", ">=", "D"), R("E", "<", "B")]),
        ("comparison rule on an item computed by a = rule", [R("A", "=", "B+C"), R("B", "=", "D+E"), R("B", ">=", "C")]),
    ]


def hierarchy_cases(rng: random.Random, thorough: bool) -> Iterator[Dict[str, Any]]:
    data = hr_datasets(rng, 3 if thorough else 1)
    sets = h_rulesets()
    for mode in MODES:
        for im in (None, "rule", "dataset", "rule_priority"):
            for k, (label, rules) in enumerate(sets):
                special = label.startswith("comparison rule on")
                if not thorough and not special and (k + MODES.index(mode)) % 2 and im in ("rule", "rule_priority"):
                    continue
                for output in ((None, "computed", "all") if thorough else (("computed", "all")[k % 2],)):
                    for rows in (data if thorough else [data[(k + MODES.index(mode)) % len(data)]]):
                        cls = f"hierarchy {mode} input {im or 'default(rule)'}"
                        if special:
                            cls = "hierarchy: comparison rule on an item computed by a = rule"
                            if im not in (None, "rule") or mode not in ("non_null", "partial_zero"):
                                continue
                        yield dict(kind="hierarchy", cls=cls, rules=rules, mode=mode, input=im, output=output, rows=rows, label=label)
    yield dict(kind="hierarchy", cls="hierarchy default mode", rules=sets[3][1], mode=None, input=None, output=None, rows=data[0], label="chain")


# ---- the manual's worked examples (document oracle) ---------------------------------------------------------------------------------
def _csv_rows(path: Path, types: Dict[str, str]) -> List[Dict[str, Any]]:
    out = []
    with path.open(newline="") as f:
        for rec in csv.DictReader(f):
            row: Dict[str, Any] = {}
            for k, v in rec.items():
                t = types.get(k, "String")
                if v is None or v == "":
                    row[k] = None
                elif t == "Integer":
                    row[k] = int(float(v))
                elif t == "Number":
                    row[k] = float(v)
                elif t == "Boolean":
                    row[k] = v.strip().lower() == "true"
                else:
                    row[k] = v
            out.append(row)
    return out


def manual_cases(repo: Path) -> Iterator[Dict[str, Any]]:
    base = repo / "tests" / "ReferenceManual" / "data"
    hr9 = [R("A", "=", "J+K+L"), R("B", "=", "M+N+O"), R("C", "=", "P+Q"), R("D", "=", "R+S"), R("E", "=", "T+U+V"),
           R("F", "=", "Y+W+Z"), R("G", "=", "B+C"), R("H", "=", "D+E"), R("I", "=", "D+G")]
    ty = {"Id_1": "Integer", "Id_2": "String", "Id_3": "String", "Me_1": "Number", "At_1": "String", "bool_var": "Boolean",
          "imbalance": "Number", "errorlevel": "Number", "ruleid": "String", "errorcode": "String"}
    for num, mode in ((132, "non_null"), (133, "non_zero"), (134, "partial_null")):
        yield dict(kind="manual", cls=f"manual example RM{num} hierarchy {mode}", num=num, op="hierarchy", rules=hr9, mode=mode,
                   output=None, must_contain=["A = J + K + L", "I = D + G", f"hierarchy ( DS_1, HR_1 rule Id_2 {mode} )"],
                   inputs={"DS_1": str(base / "DataSet" / "input" / f"{num}-DS_1.csv")},
                   expected=str(base / "DataSet" / "output" / f"{num}-DS_r.csv"), vtl=str(base / "vtl" / f"RM{num}.vtl"),
                   types=ty, ids=["Id_1", "Id_2"], meas=["Me_1"], keys=["Id_1", "Id_2"], values=["Me_1"])
    c = lambda n: ("col", n)  # noqa: E731
    k = lambda v: ("const", v)  # noqa: E731
    dpr = [dict(name=None, when=("cmp", "=", c("Id_3"), k("CREDIT")), then=("cmp", ">=", c("Me_1"), k(0)), erCode="Bad credit", erLevel=None),
           dict(name=None, when=("cmp", "=", c("Id_3"), k("DEBIT")), then=("cmp", ">=", c("Me_1"), k(0)), erCode="Bad debit", erLevel=None)]
    tyd = dict(ty, Me_1="Integer")
    for num, output, vals in ((157, None, ["Me_1", "errorcode", "errorlevel"]), (158, "all", ["bool_var", "errorcode", "errorlevel"])):
        yield dict(kind="manual", cls=f"manual example RM{num} check_datapoint {output or 'invalid'}", num=num, op="check_datapoint",
                   rules=dpr, output=output, must_contain=['when Id_3 = "CREDIT" then Me_1 >= 0 errorcode "Bad credit"',
                                                           'when Id_3 = "DEBIT" then Me_1 >= 0 errorcode "Bad debit"'],
                   inputs={"DS_1": str(base / "DataSet" / "input" / f"{num}-DS_1.csv")},
                   expected=str(base / "DataSet" / "output" / f"{num}-DS_r.csv"), vtl=str(base / "vtl" / f"RM{num}.vtl"),
                   types=tyd, ids=["Id_1", "Id_2", "Id_3"], meas=["Me_1"], keys=["Id_1", "Id_2", "Id_3", "ruleid"], values=vals)
    # upstream issue #117 (tests/Bugs GL_117_3 / GL_117_4): expected outputs with NULL consequents AND a NULL antecedent
    # (datapoint (code_1, 3, 3) under rule 3: Me_2 = NULL in `Me_2 = 2 and Me_3 = 1`) - the document the clause
    # "NULL antecedent => NULL outcome" is taken from (spec/vtlref_validation.NULL_ANTECEDENT_SOURCES)
    bugs = repo / "tests" / "Bugs" / "data"
    ty117 = {"Id_1": "String", "Id_2": "Integer", "Id_3": "Integer", "Me_1": "String", "Me_2": "Integer", "Me_3": "Integer",
             "Me_4": "String", "bool_var": "Boolean", "errorlevel": "Number", "ruleid": "String", "errorcode": "String"}
    dpr117 = [dict(name=None, when=None, then=("cmp", "=", c("Me_4"), k("code_1")), erCode="CN0630", erLevel=3),
              dict(name=None, when=("or", ("cmp", "=", c("Id_1"), k("code_1")), ("cmp", "=", c("Me_3"), k(1))),
                   then=("cmp", "=", c("Me_4"), k("code_1")), erCode="CN0816", erLevel=3),
              dict(name=None, when=("and", ("cmp", "=", c("Me_2"), k(2)), ("cmp", "=", c("Me_3"), k(1))),
                   then=("cmp", "=", c("Id_1"), k("code_1")), erCode="CN0555", erLevel=3)]
    m117 = ["Me_1", "Me_2", "Me_3", "Me_4"]
    for code, output, vals in (("GL_117_3", "all", ["bool_var", "errorcode", "errorlevel"]),
                               ("GL_117_4", "all_measures", m117 + ["bool_var", "errorcode", "errorlevel"])):
        yield dict(kind="manual", cls=f"repository example {code} check_datapoint {output} (NULL consequent, NULL antecedent)",
                   num=code, op="check_datapoint", rules=dpr117, output=output, params=["Id_1", "Id_2", "Id_3"] + m117,
                   must_contain=['Me_4 = "code_1" errorcode "CN0630" errorlevel 3',
                                 'when Id_1 = "code_1" or Me_3 = 1 then Me_4 = "code_1" errorcode "CN0816" errorlevel 3',
                                 'when Me_2 = 2 and Me_3 = 1 then Id_1 = "code_1" errorcode "CN0555" errorlevel 3',
                                 f"check_datapoint ( DS_1 , dprDefault {output})"],
                   inputs={"DS_1": str(bugs / "DataSet" / "input" / f"{code}-1.csv")},
                   expected=str(bugs / "DataSet" / "output" / f"{code}-1.csv"), vtl=str(bugs / "vtl" / f"{code}.vtl"),
                   types=ty117, ids=["Id_1", "Id_2", "Id_3"], meas=m117, keys=["Id_1", "Id_2", "Id_3", "ruleid"], values=vals)
    hr11 = [dict(R("A", "=", "J+K+L", None, 5), name="R010"), dict(R("B", "=", "M+N+O", None, 5), name="R020"),
            dict(R("C", "=", "P+Q", "XX", 5), name="R030"), dict(R("D", "=", "R+S", None, 1), name="R040"),
            dict(R("E", "=", "T+U+V", None, 0), name="R050"), dict(R("F", "=", "Y+W+Z", None, 7), name="R060"),
            dict(R("G", "=", "B+C"), name="R070"), dict(R("H", "=", "D+E", None, 0), name="R080"),
            dict(R("I", "=", "D+G", "YY", 0), name="R090"), dict(R("M", ">=", "N", None, 5), name="R100"),
            dict(R("M", "<=", "G", None, 5), name="R110")]
    yield dict(kind="manual", cls="manual example RM159 check_hierarchy partial_null all", num=159, op="check_hierarchy", rules=hr11,
               mode="partial_null", output="all", must_contain=["R070 : G = B + C", "R100 : M >= N", "R110 : M <= G",
                                                                 "check_hierarchy ( DS_1, HR_1 rule Id_2 partial_null all )"],
               inputs={"DS_1": str(base / "DataSet" / "input" / "159-DS_1.csv")},
               expected=str(base / "DataSet" / "output" / "159-DS_r.csv"), vtl=str(base / "vtl" / "RM159.vtl"),
               types=ty, ids=["Id_1", "Id_2"], meas=["Me_1"], keys=["Id_1", "Id_2", "ruleid"],
               values=["bool_var", "imbalance", "errorcode", "errorlevel"])
    yield dict(kind="manual", cls="manual example RM160 check with imbalance", num=160, op="check", rules=[], output=None,
               must_contain=["check ( DS_1 >= DS_2 imbalance DS_1 - DS_2 )"],
               inputs={"DS_1": str(base / "DataSet" / "input" / "160-DS_1.csv"), "DS_2": str(base / "DataSet" / "input" / "160-DS_2.csv")},
               expected=str(base / "DataSet" / "output" / "160-DS_r.csv"), vtl=str(base / "vtl" / "RM160.vtl"),
               types=ty, ids=["Id_1", "Id_2"], meas=["Me_1"], keys=["Id_1", "Id_2"], values=["bool_var", "imbalance", "errorcode", "errorlevel"])


def all_cases(seed: int, thorough: bool, repo: Path) -> List[Dict[str, Any]]:
    rng = random.Random(seed)
    cases: List[Dict[str, Any]] = []
    for gen in (dp_cases, check_cases, check_hierarchy_cases, hierarchy_cases):
        cases.extend(gen(rng, thorough))
    cases.extend(manual_cases(repo))
    return cases


# ---- running one case (worker side) ------------------------------------------------------------------------------------------------
def describe(c: Dict[str, Any]) -> str:
    import _valprograms as VP
    k = c["kind"] if c["kind"] != "manual" else c["op"]
    if k in ("dp", "check_datapoint"):
        params = (c.get("params") or ["Id_3", "Me_1"]) if c["kind"] == "manual" else (["Me_1", "Me_2", "Me_3", "Me_4"] if c.get("source") != "alias" else ["Me_1 as m1", "Me_2"])
        src = "DS_1[filter Id_1 > 2]" if c.get("source") == "filter" else "DS_1"
        return VP.show_dpr("dpr1", params, c["rules"]) + f"; DS_r <- check_datapoint({src}, dpr1 {c['output'] or ''})"
    if k == "check":
        if c["kind"] == "manual":
            return "DS_r := check(DS_1 >= DS_2 imbalance DS_1 - DS_2)"
        return (f"DS_r <- check(DS_a {c['op']} DS_b errorcode {c['ec']!r} errorlevel {c['el']!r}"
                f"{' imbalance DS_a - DS_b' if c['imbalance'] else ''} {'invalid' if c['invalid'] else 'all'})")
    opts = " ".join(x for x in (c.get("mode"), c.get("input"), c.get("output")) if x)
    return VP.show_hr("hr1", "Id_2", c["rules"]) + f"; DS_r <- {k}(DS_1, hr1 rule Id_2 {opts})"


def run_case(c: Dict[str, Any]) -> Dict[str, Any]:
    """-> dict(problem=None|str, skipped=None|str, data=...)."""
    import _valprograms as VP
    from spec import vtlref_validation as RV
    from vc import pipeline as P
    from vc.e2e import Table
    kind = c["kind"]
    out: Dict[str, Any] = {"problem": None, "skipped": None, "data": None, "unspec": 0}
    try:
        if kind == "manual":
            return run_manual(c)
        if kind == "dp":
            t = Table("DS_1", DP_IDS, DP_MEAS, c["rows"])
            params: List[Any] = ["Me_1", "Me_2", "Me_3", "Me_4"]
            aliases = None
            ds: Any = "DS_1"
            rows = c["rows"]
            if c["source"] == "alias":
                params, aliases = [("Me_1", "m1"), "Me_2"], {"m1": "Me_1"}
            if c["source"] == "filter":
                ds = P.clause(P.var("DS_1"), "filter", [P.binop(P.var("Id_1"), ">", P.const(2))])
                rows = [r for r in rows if r["Id_1"] > 2]
            stmts = [VP.dp_ruleset_ast("dpr1", params, c["rules"]), P.assign("DS_r", VP.check_datapoint_ast(ds, "dpr1", c["output"]), True)]
            ref = RV.check_datapoint(["Id_1"], [m for m, _ in DP_MEAS], rows, c["rules"], c["output"] or "invalid", aliases)
            tables = [t]
            out["data"] = {"DS_1": c["rows"]}
        elif kind == "check":
            ta = Table("DS_a", [("Id_1", "Integer")], [("Me_1", "Number")], c["ra"])
            tb = Table("DS_b", [("Id_1", "Integer")], [("Me_1", "Number")], c["rb"])
            imb = P.binop(P.var("DS_a"), "-", P.var("DS_b")) if c["imbalance"] else None
            stmts = [P.assign("DS_r", VP.check_ast(P.binop(P.var("DS_a"), c["op"], P.var("DS_b")), c["ec"], c["el"], imb, c["invalid"]), True)]
            bmap = {r["Id_1"]: r["Me_1"] for r in c["rb"]}
            joined = []
            for r in c["ra"]:
                if r["Id_1"] in bmap:
                    x, y = r["Me_1"], bmap[r["Id_1"]]
                    b = None if x is None or y is None else {"=": x == y, "<": x < y, ">": x > y, ">=": x >= y, "<=": x <= y, "<>": x != y}[c["op"]]
                    joined.append({"Id_1": r["Id_1"], "b": b, "i": None if x is None or y is None else x - y})
            ref = RV.check(["Id_1"], joined, "b", joined if c["imbalance"] else None, "i" if c["imbalance"] else None, c["ec"], c["el"],
                           c["invalid"])
            tables = [ta, tb]
            out["data"] = {"DS_a": c["ra"], "DS_b": c["rb"]}
        else:
            t = Table("DS_1", HR_IDS, HR_MEAS, c["rows"])
            stmts = [VP.hr_ruleset_ast("hr1", "Id_2", c["rules"]),
                     P.assign("DS_r", VP.hr_op_ast(kind, "DS_1", "hr1", "Id_2", c.get("mode"), c.get("input"), c.get("output")), True)]
            if kind == "hierarchy":
                ref0 = RV.hierarchy(["Id_1", "Id_2"], "Id_2", "Me_1", c["rows"], c["rules"], c.get("mode") or "non_null",
                                    c.get("input") or "rule", c.get("output") or "computed")
                if ref0 is None:
                    out["skipped"] = "ruleset outside the reference"
                    return out
                ref = ref0
            else:
                ref = RV.check_hierarchy(["Id_1", "Id_2"], "Id_2", "Me_1", c["rows"], c["rules"], c.get("mode") or "non_null",
                                         c.get("output") or "invalid")
            tables = [t]
            out["data"] = {"DS_1": c["rows"]}
        out["unspec"] = len(ref.unspec)
        k, res = VP.run_ast(stmts, tables)
        if k != "ok":
            code, exc = res
            out["problem"] = f"VTL defines a result but run() raised {type(exc).__name__} {code}: {str(exc)[:220]}"
            return out
        out["problem"] = RV.compare(res["DS_r"].data, ref)
        return out
    except Exception as e:  # noqa: BLE001 - harness trouble is never a verdict on the code
        import traceback
        out["skipped"] = f"harness error {type(e).__name__}: {e} @ {traceback.format_exc()[-300:]}"
        return out


def run_manual(c: Dict[str, Any]) -> Dict[str, Any]:
    import _valprograms as VP
    from spec import vtlref_validation as RV
    from vc import pipeline as P
    from vc.e2e import Table
    out: Dict[str, Any] = {"problem": None, "skipped": None, "data": None, "unspec": 0}
    vtl, exp = Path(c["vtl"]), Path(c["expected"])
    if not vtl.exists() or not exp.exists() or not all(Path(p).exists() for p in c["inputs"].values()):
        out["skipped"] = "reference-manual files not present in this tree"
        return out
    squeeze = lambda s: "".join(s.split())  # noqa: E731
    text = squeeze(vtl.read_text())
    miss = [m for m in c["must_contain"] if squeeze(m) not in text]
    if miss:
        out["skipped"] = f"{vtl.name} no longer contains the transcribed script text {miss[:2]}"
        return out
    tables = []
    for name, path in c["inputs"].items():
        rows = _csv_rows(Path(path), c["types"])
        rows = [{k: v for k, v in r.items() if k in c["ids"] + c["meas"]} for r in rows]
        tables.append(Table(name, [(i, c["types"][i]) for i in c["ids"]], [(m, c["types"][m]) for m in c["meas"]], rows))
    out["data"] = {t.name: t.rows for t in tables}
    op = c["op"]
    if op == "check_datapoint":
        stmts = [VP.dp_ruleset_ast("dpr1", c.get("params") or ["Id_3", "Me_1"], c["rules"]), P.assign("DS_r", VP.check_datapoint_ast("DS_1", "dpr1", c["output"]), False)]
    elif op == "check":
        stmts = [P.assign("DS_r", VP.check_ast(P.binop(P.var("DS_1"), ">=", P.var("DS_2")), None, None,
                                               P.binop(P.var("DS_1"), "-", P.var("DS_2")), False), False)]
    else:
        stmts = [VP.hr_ruleset_ast("HR_1", "Id_2", c["rules"]),
                 P.assign("DS_r", VP.hr_op_ast(op, "DS_1", "HR_1", "Id_2", c.get("mode"), None, c.get("output")), False)]
    want_rows = _csv_rows(exp, c["types"])
    ref = RV.RefResult(list(c["keys"]), list(c["values"]))
    for r in want_rows:
        ref.rows[tuple(r[k] for k in c["keys"])] = {v: r.get(v) for v in c["values"]}
    k, res = VP.run_ast(stmts, tables)
    if k != "ok":
        code, exc = res
        out["problem"] = f"the manual gives a result for this script but run() raised {type(exc).__name__} {code}: {str(exc)[:220]}"
        return out
    out["problem"] = RV.compare(res["DS_r"].data, ref)
    return out


def run_chunk(cases: Sequence[Dict[str, Any]]) -> List[Dict[str, Any]]:
    from vc import core
    core.boot(full=True)
    return [run_case(c) for c in cases]


# ---- sort_hr_rules, exhaustively over small rule graphs -----------------------------------------------------------------------------
def sort_rule_graphs(thorough: bool) -> Iterator[List[Dict[str, Any]]]:
    items = "ABCD" if thorough else "ABC"
    pool = []
    for left in items:
        others = [x for x in items if x != left]
        rhss = [o for o in others] + [a + "+" + b for a, b in itertools.combinations(others, 2)]
        for op in ("=", ">="):
            for rhs in rhss:
                pool.append(R(left, op, rhs))
    for n in (1, 2, 3):
        for combo in itertools.product(pool, repeat=n):
            yield list(combo)
    if thorough:
        rng = random.Random(7)
        for _ in range(3000):
            yield [rng.choice(pool) for _ in range(4)]


def check_sort_hr_rules(thorough: bool) -> Dict[str, Any]:
    """For every small ruleset: sort_hr_rules either raises the cycle error or leaves a permutation of the rules in which
    every `=` rule comes after the `=` rules computing its right-hand code items.  A cycle error is only legitimate when
    the `=` rules really are cyclic."""
    import copy
    import _valprograms as VP
    from spec import vtlref_validation as RV
    from vc import core
    core.boot(full=True)
    from vtlengine.AST.DAG import HRDAGAnalyzer
    stats = {"rulesets": 0, "sorted": 0, "cycle_errors": 0}
    bad_perm = bad_order = bad_cycle = other = None
    for rules in sort_rule_graphs(thorough):
        lefts = [r["left"] for r in rules if r["op"] == "="]
        if len(set(lefts)) != len(lefts):
            continue                                    # the Interpreter rejects duplicate definitions (1-1-10-10)
        stats["rulesets"] += 1
        node = VP.hr_ruleset_ast("hr1", "Id_2", named(rules, "r"))
        before = list(node.rules)
        acyclic = RV.dependency_order(rules) is not None or any(it == r["left"] for r in rules if r["op"] == "=" for _, it in r["right"])
        try:
            HRDAGAnalyzer.sort_hr_rules(node)
        except Exception as e:  # noqa: BLE001
            code = e.args[1] if len(e.args) > 1 else type(e).__name__
            if code == "1-3-2-3":
                stats["cycle_errors"] += 1
                if RV.dependency_order(rules) is not None and bad_cycle is None:
                    bad_cycle = (rules, str(e)[:200])
            elif other is None:
                other = (rules, f"{type(e).__name__}: {e}"[:200])
            continue
        stats["sorted"] += 1
        after = list(node.rules)
        if sorted(map(id, after)) != sorted(map(id, before)):
            if bad_perm is None:
                bad_perm = (rules, [r.name for r in after])
            continue
        pos = {r.name: i for i, r in enumerate(after)}
        for i, r in enumerate(rules, 1):
            if r["op"] != "=":
                continue
            for _, it in r["right"]:
                for j, r2 in enumerate(rules, 1):
                    if r2["op"] == "=" and r2["left"] == it and j != i and pos[f"r{j}"] > pos[f"r{i}"] and bad_order is None and acyclic:
                        bad_order = (rules, [x.name for x in after], f"r{i} uses {it}, computed by r{j}, which is placed after it")
    return {"stats": stats, "bad_perm": bad_perm, "bad_order": bad_order, "bad_cycle": bad_cycle, "other": other}
