"""C18 - CSV, DataFrame and Parquet inputs with the same content behave identically: every form is rejected with a VTL
input error, or every form is accepted and yields the same results.

Functions under contract (real source / real SQL text, re-extracted on every run by CALLING the real loaders with a
recording connection - vc.loadvc):
  duckdb_transpiler/io/_io.py:         load_datapoints_duckdb (+ build_select_columns, get_csv_read_type), register_dataframes
                                       (+ _detect_date_type_overrides, _build_dataframe_select_columns), _load_parquet,
                                       _validate_loaded_table, _normalize_time_period_columns
  duckdb_transpiler/io/_validation.py: build_create_table_sql, build_select_columns, validate_temporal_columns,
                                       validate_no_duplicates (+ VALID_DATE_REGEX and the temporal patterns they splice)

"Same content": a table is a list of rows of cells; a cell is NULL or a value.  Its forms are: CSV (RFC 4180: NULL = empty
field, a text = itself, quoted when needed), DataFrame / Parquet with string columns (NULL = None / null, a text = itself),
DataFrame / Parquet with native columns (the typed value; its CSV form is the numeral / 'True' / ISO date that
DataFrame.to_csv writes).  The empty string '' has no CSV form of its own (every writer emits the empty field, and
read_csv delivers NULL for both `,,` and `,"",` - checked on every run), and the documentation says nothing about it:
that single cell is left unspecified for the CSV form and only compared between DataFrame and Parquet.

P tier (proof, per datapoint; vc.pairvc + vc.loadvc + vc.sqlvc, z3/cvc5):
  pair::<T>::csv-vs-df::<role>::<nullability>     for T in String, Boolean, Date, Time_Period, Time, Duration and every
        cell text s of each length up to a bound (characters symbolic over printable ASCII): outcome_csv(s) ~ outcome_df(s)
        (both rejected, or both accepted with the same stored value: same text, same boolean, same instant for Date).
        A counter-model is a string; it is replayed through the REAL loaders in the real DuckDB and only a reproduced
        difference counts; classes listed as known findings are excluded and the query repeated.
  pair::<T>::df-vs-parquet::...                   textual identity of the extracted statements where it holds (then for
        ALL cells, '' and NULL included), else the same symbolic analysis (Date: the DataFrame form switches the column to
        TIMESTAMP by _detect_date_type_overrides, whose rule is read from its AST; Parquet never does).
  pair::Integer::csv-vs-df::...                   on decimal numerals [-]d{k}[.d{f}] with symbolic digits (the CSV reader
        parses the numeral into the DOUBLE the program expects - assumption, sampled -; CAST(VARCHAR AS BIGINT) rounds).
  typed::<T>::csv-vs-df-native::<column type>     Integer from BIGINT / DOUBLE columns, Boolean from a BOOLEAN column
        against the CSV form of the same value;  typed::..::df-native-vs-parquet-typed by textual identity.
  null::<T>::...                                   a NULL cell: all forms agree (accepted iff nullable non-identifier).
  table-checks::<T>::...                           the table-level checks (duplicates, dataset without identifiers) are the
        same statements in every form.
B tier (bounded, labelled, never counted as proved): the property's own space through the REAL loaders end to end -
  value pools per type (valid, boundary, invalid; fractional integers, hexadecimal, padded, quoted, commas / quotes /
  newlines, every boolean and Time_Period spelling, dates with and without time) as CSV / DataFrame(str) / Parquet(str)
  and as native DataFrame / typed Parquet / CSV-of-native, generated multi-row tables over every type, structural
  violations in every form, and small programs (DS_r <- DS_1; DS_r <- DS_1 + DS_1;) through API.run below the parser.
The symbolic model is validated against the real loaders on sampled strings on every run (mismatch = engine fault).
"""
from __future__ import annotations

import os
import random
import sys
import time
from concurrent.futures import ProcessPoolExecutor
from fractions import Fraction
from pathlib import Path
from typing import Any, Dict, List, Optional, Sequence, Tuple

sys.path.insert(0, str(Path(__file__).resolve().parent.parent))
sys.path.insert(0, str(Path(__file__).resolve().parent))
import _c18_native as N  # noqa: E402
from vc import core, loadvc, pairvc, smt  # noqa: E402
from vc.core import BOUNDED_OK, DISCHARGED, REFUTED, UNDECIDED, Check  # noqa: E402
from vc.smt import INT, REAL, And, Eq, Ge, Le, Lt, Not, Or, is_sym  # noqa: E402
from vc.sqlvc import SV, CStr, digits_of  # noqa: E402

IO = "src/vtlengine/duckdb_transpiler/io/_io.py"
VAL = "src/vtlengine/duckdb_transpiler/io/_validation.py"
X = "X_1"
LO, HI = 32, 126
TEXT_TYPES = ("String", "Boolean", "Date", "Time_Period", "Time", "Duration")
ALL_TYPES = ("Integer", "Number") + TEXT_TYPES
ROLES = [("Measure", True), ("Measure", False), ("Identifier", False), ("Attribute", True)]
FN = {"csv": f"{IO}:load_datapoints_duckdb", "df": f"{IO}:register_dataframes", "parquet": f"{IO}:_load_parquet",
      "df-native": f"{IO}:register_dataframes", "parquet-typed": f"{IO}:_load_parquet"}
TYPED_SOURCES = {"Integer": ("BIGINT", "DOUBLE"), "Number": ("BIGINT", "DOUBLE"), "Boolean": ("BOOLEAN", "BIGINT", "DOUBLE"),
                 "Date": ("DATE", "TIMESTAMP"), "String": ("BIGINT", "DOUBLE", "BOOLEAN")}


def spec_of(tname: str, role: str, nullable: bool) -> List[N.CompSpec]:
    return [("Id_1", "String", "Identifier", False), (X, tname, role, nullable)]


def tag_of(role: str, nullable: bool) -> str:
    return f"{role}::{'nullable' if nullable else 'not-null'}"


def lengths(tname: str, tier: str) -> List[int]:
    q = tier == "quick"
    if tname == "String":
        return list(range(1, 6)) if q else list(range(1, 9))
    if tname == "Boolean":
        return list(range(1, 8)) if q else list(range(1, 10))
    if tname == "Duration":
        return [1, 2, 3]
    if tname == "Time":
        return [1, 4, 7, 10, 20, 21, 22, 23, 30, 39, 41] if q else sorted(set(range(1, 24)) | {30, 31, 39, 40, 41})
    if tname == "Time_Period":
        return list(range(1, 12)) if q else list(range(1, 14))
    if tname == "Date":
        return [8, 9, 10, 11, 17, 18, 19, 20] if q else sorted(set(range(1, 27)))
    raise AssertionError(tname)


def domain(tname: str, chars: Sequence[Any]) -> List[Any]:
    if tname == "Time_Period":
        import C19                      # the proof domain D_P of the sibling property (numeric fields hold digits or characters
        return C19.domain(tname, chars)  # no numeric spelling can contain: DuckDB's lenient VARCHAR->INTEGER cast is outside the model)
    return [And(Ge(c, LO), Le(c, HI)) for c in chars]


def text_programs(tname: str, role: str, nullable: bool) -> Dict[str, loadvc.LoadProgram]:
    comps = N.components(spec_of(tname, role, nullable))
    st = {c: "VARCHAR" for c in comps}
    out = {k: loadvc.extract_program(k, comps, st) for k in ("csv", "df", "parquet")}
    if tname == "Date":
        try:
            rule = pairvc.date_override_rule()
            out["df_ts"] = loadvc.extract_program("df", comps, st, sample={X: [pairvc.override_sample(rule)], "Id_1": ["k"]})
        except pairvc.RuleOutside:
            pass
    return out


def typed_programs(tname: str, role: str, nullable: bool, src: str) -> Dict[str, loadvc.LoadProgram]:
    comps = N.components(spec_of(tname, role, nullable))
    st = {"Id_1": "VARCHAR", X: src}
    sample = {"Id_1": ["k"], X: [1]}
    return {"df-native": loadvc.extract_program("df", comps, st, sample=sample),
            "parquet-typed": loadvc.extract_program("parquet", comps, st)}


def x_signature(progs: Dict[str, loadvc.LoadProgram]) -> str:
    return repr([(k, p.insert[X].sql(dialect="duckdb") if X in p.insert else None, pairvc.second_stage_text(p, X),
                  p.col_types.get(X), repr(p.error)) for k, p in sorted(progs.items())])


def native_cell(form: str, tname: str, role: str, nullable: bool, value: Any, dtypes: Optional[Dict[str, str]] = None
                ) -> Tuple[Any, ...]:
    return N.load_job({"form": form, "spec": spec_of(tname, role, nullable), "rows": [{"Id_1": "k", X: value}],
                       "dtypes": dtypes or {}})


def feature_condition(feature: str, chars: Sequence[Any]) -> Any:
    """The symbolic counterpart of _c18_native.feature: 'the cell text is of this kind' (None: no formula for this kind,
    the whole outcome shape is then set aside - nothing further can be told apart on it)."""
    from vc import regexvc
    allq = And(*[Eq(c, 34) for c in chars]) if chars else False
    anyq = Or(*[Eq(c, 34) for c in chars]) if chars else False
    if feature == "double-quote-characters":
        return And(anyq, Not(allq))
    if feature == "cell-of-double-quotes-only":
        return allq
    if feature in ("time-of-day-after-short-date", "time-of-day"):
        long_date = regexvc.match(r"\d{4}-\d{2}-\d{2}[ T]", list(chars))
        t = pairvc.has_time_not_midnight(chars)
        return And(t, Not(long_date)) if feature == "time-of-day-after-short-date" else And(t, long_date)
    return None


def shape_of(j: pairvc.Joint, fa: str, fb: str) -> str:
    """How a joint path differs (same vocabulary as _c18_native.how_differs)."""
    if j.a.accepted != j.b.accepted:
        return f"rejected-by-{fa}-only" if not j.a.accepted else f"rejected-by-{fb}-only"
    return "stored-value-differs"


def merged(bad: Dict[str, List[Any]], extra: Dict[str, List[Any]]) -> Any:
    return Or(*[And(Or(*conds), *extra.get(sh, [])) for sh, conds in bad.items()])


# --------------------------------------------------------------------------------------------------------------------
# P tier worker: one pair of forms, one type / role / nullability, one string length
# --------------------------------------------------------------------------------------------------------------------
def analyse_pair(task: Tuple[str, str, bool, str, int, List[str]]) -> Dict[str, Any]:  # noqa: C901
    from vc.charprune import CharPruner
    tname, role, nullable, pair, n, known_keys = task
    known = set(known_keys)
    res: Dict[str, Any] = {"status": DISCHARGED, "detail": "", "seconds": 0.0, "backends": [], "known": [], "paths": 0,
                           "by_identity": 0, "cpu": 0.0}
    t0 = time.process_time()
    try:
        N.w_init()
        progs = text_programs(tname, role, nullable)
        fa, fb = pair.split("-vs-")
        rule = None
        if tname == "Date" and "df" in (fa, fb):
            rule = pairvc.date_override_rule()
            if "df_ts" not in progs:
                raise pairvc.RuleOutside("TIMESTAMP variant of the DataFrame program could not be extracted")
        for k in (fa, fb):
            if progs[k].error is not None or X not in progs[k].insert:
                raise pairvc.RuleOutside(f"load program of form {k} could not be extracted: {progs[k].error!r}")
        eng = pairvc.make(pairvc.TextEngine)
        eng.max_paths = 40000
        eng.cpu_budget = 120.0          # the whole P tier needs ~150 CPU s on the unchanged tree; beyond this: undecided
        chars = [eng.decls.const(f"c{i}", INT) for i in range(n)]
        pre = domain(tname, chars)
        row = {"Id_1": SV("str", CStr.lit("k"), False), X: SV("str", CStr(chars), False)}
        eng.assume = list(pre)
        eng.pruner = CharPruner([c.sx for c in chars], LO, HI, product_limit=60000)

        def pick(form: str) -> loadvc.LoadProgram:
            if form == "df" and rule is not None:
                return progs["df_ts"] if eng.decide(pairvc.override_applies(rule, chars)) else progs["df"]
            return progs[form]

        def run() -> pairvc.Joint:
            pa = pick(fa)
            pb = pick(fb)
            return pairvc.joint(eng, pa, pb, row, row, X)
        try:
            paths = eng.explore(run)
        finally:
            eng.assume = None
    except (pairvc.RuleOutside, Exception) as e:  # noqa: BLE001
        res.update(status=UNDECIDED, detail=f"length {n}: analysis not possible: {type(e).__name__}: {str(e)[:200]}")
        res["cpu"] = time.process_time() - t0
        return res
    res["paths"] = len(paths)
    mv = [c.sx for c in chars]
    aborts = [And(*p.pc) for p in paths if p.kind == "abort"]
    bad: Dict[str, List[Any]] = {}
    for p in paths:
        if p.kind != "value":
            continue
        j: pairvc.Joint = p.value
        if j.a.accepted and j.b.accepted:
            res["cover"] = res.get("cover", 0) + 1       # a path on which both INSERT stages / both programs accept
        if j.same_by_determinism:
            res["by_identity"] += 1
            continue
        d = pairvc.differs(j, X, chars)
        if not is_sym(d) and not d:
            continue
        bad.setdefault(shape_of(j, fa, fb), []).append(And(*p.pc, d))
    if aborts:
        r = core.run_smt(smt.query(eng.decls, list(eng.axioms) + list(pre) + [Or(*aborts)], get=mv), timeout=60, tag=f"c18a_{n}")
        res["seconds"] += r.seconds
        if r.status != "unsat":
            s = "".join(chr(core.smt_int(r.model[c.sx])) for c in chars) if r.status == "sat" else "?"
            why = next((str(p.value) for p in paths if p.kind == "abort"), "")
            res.update(status=UNDECIDED, detail=f"length {n}: a path leaves the SQL model (e.g. on input {s!r}): {why}")
            res["cpu"] = time.process_time() - t0
            return res
    extra: Dict[str, List[Any]] = {}
    for _round in range(10):
        if not bad:
            break
        r = core.run_smt(smt.query(eng.decls, list(eng.axioms) + list(pre) + [merged(bad, extra)], get=mv), timeout=90,
                         tag=f"c18_{tname}_{n}")
        res["seconds"] += r.seconds
        res["backends"].append(r.backend)
        if r.status == "unsat":
            break
        if r.status == "unknown":
            res.update(status=UNDECIDED, detail=f"solver unknown at length {n}: {r.raw[:120]}")
            break
        s = "".join(chr(core.smt_int(r.model[c.sx])) for c in chars)
        oa, ob = native_cell(fa, tname, role, nullable, s), native_cell(fb, tname, role, nullable, s)
        if N.same_outcome(oa, ob):
            res.update(status=UNDECIDED, detail=f"counter-model {s!r} (length {n}) does not reproduce on the real loaders "
                       f"({fa}: {N.show(oa)}; {fb}: {N.show(ob)}): encoding fault")
            break
        cls = N.classify(tname, s, oa, ob, fa, fb)
        key = f"{tname}::{pair}::{cls}"
        what = f"{fa}: {N.show(oa)}; {fb}: {N.show(ob)}"
        if key in known:
            # set this class aside: the kind of cell (feature) within the outcome shape it was found in, and ask again
            res["known"].append((key, s, what, r.backend))
            feat, how = cls.split("::", 1)
            fc = feature_condition(feat, chars)
            extra.setdefault(how, []).append(Not(fc) if fc is not None else False)
            continue
        res.update(status=REFUTED, backend=r.backend, finding_key=key, replayed=True,
                   witness={"cell": s, "forms": [fa, fb], "type": tname, "role": role, "nullable": nullable, "real": what},
                   detail=f"length {n}: counter-model {s!r}", replay_detail=f"real loaders on the cell {s!r}: {what}")
        break
    else:
        res.update(status=UNDECIDED, detail="more than 10 known-finding classes in one query")
    res["cpu"] = time.process_time() - t0
    return res


# --------------------------------------------------------------------------------------------------------------------
# P tier worker: numeric cells (decimal numerals with symbolic digits; typed columns)
# --------------------------------------------------------------------------------------------------------------------
def analyse_numeric(task: Tuple[str, str, bool, Any, List[str]]) -> Dict[str, Any]:  # noqa: C901
    kind, role, nullable, shape, known_keys = task
    known = set(known_keys)
    res: Dict[str, Any] = {"status": DISCHARGED, "detail": "", "seconds": 0.0, "backends": [], "known": [], "paths": 0, "cpu": 0.0}
    t0 = time.process_time()
    tname = "Boolean" if kind == "BOOLEAN" else "Integer"
    fa, fb = ("csv", "df") if kind == "text" else ("csv", "df-native")
    pair = f"{fa}-vs-{fb}"
    try:
        N.w_init()
        comps = N.components(spec_of(tname, role, nullable))
        csvp = loadvc.extract_program("csv", comps, {c: "VARCHAR" for c in comps})
        other = loadvc.extract_program("df", comps, {"Id_1": "VARCHAR", X: "VARCHAR" if kind == "text" else kind},
                                       sample={"Id_1": ["k"], X: ["1"] if kind == "text" else [1]})
        for p in (csvp, other):
            if p.error is not None or X not in p.insert:
                raise pairvc.RuleOutside(f"load program could not be extracted: {p.error!r}")
        rtype = pairvc.csv_read_types(csvp).get(X, "")
        eng = pairvc.make(pairvc.NumEngine)
        eng.max_paths = 4000
        pre: List[Any] = []
        get: List[str] = []
        build: Any = None
        idk = SV("str", CStr.lit("k"), False)
        if kind in ("text", "BIGINT", "DOUBLE") and not (rtype == "DOUBLE" or rtype.startswith("DECIMAL(")):
            raise pairvc.RuleOutside(f"the CSV reader is asked for {rtype!r} (model: DOUBLE or DECIMAL as exact reals)")
        if kind == "BOOLEAN" and rtype != "VARCHAR":
            raise pairvc.RuleOutside(f"the CSV reader is asked for {rtype!r} (model: VARCHAR)")
        if kind == "text":
            neg, k, f = shape
            ip = eng.decls.const("ip", INT)
            pre += [Ge(ip, 0), Lt(ip, 10 ** k)]
            get.append("ip")
            chars: List[Any] = ([45] if neg else []) + digits_of(ip, k)
            val: Any = pairvc.r_of_int(ip)
            fv: Any = 0
            if f:
                fv = eng.decls.const("fv", INT)
                pre += [Ge(fv, 0), Lt(fv, 10 ** f)]
                get.append("fv")
                chars += [46] + digits_of(fv, f)
                val = pairvc.r_add(val, pairvc.r_div_const(pairvc.r_of_int(fv), 10 ** f))
            if neg:
                val = pairvc.r_neg(val)
            row_a = {"Id_1": idk, X: SV("dbl", val, False)}
            row_b = {"Id_1": idk, X: SV("str", CStr(chars), False)}

            def build(m: Dict[str, str]) -> Tuple[Any, Any, Optional[Dict[str, str]]]:
                s = ("-" if neg else "") + str(core.smt_int(m["ip"])).rjust(k, "0")
                if f:
                    s += "." + str(core.smt_int(m["fv"])).rjust(f, "0")
                return s, s, None
            kinds = {"fractional-value": Not(Eq(fv, 0)) if f else False}
        elif kind == "BIGINT":
            v = eng.decls.const("v", INT)
            pre += [Ge(v, -(2 ** 53)), Le(v, 2 ** 53)]
            get.append("v")
            row_a = {"Id_1": idk, X: SV("dbl", pairvc.r_of_int(v), False)}
            row_b = {"Id_1": idk, X: SV("int", v, False)}

            def build(m: Dict[str, str]) -> Tuple[Any, Any, Optional[Dict[str, str]]]:
                i = core.smt_int(m["v"])
                return i, i, {X: "int64"}
            kinds = {}
        elif kind == "DOUBLE":
            v = eng.decls.const("v", REAL)
            lo, hi = smt.T(REAL, f"(- {2 ** 53}.0)"), smt.T(REAL, f"{2 ** 53}.0")
            pre += [pairvc.Not(pairvc.r_lt(v, lo)), pairvc.Not(pairvc.r_lt(hi, v))]
            get.append("v")
            row_a = {"Id_1": idk, X: SV("dbl", v, False)}
            row_b = {"Id_1": idk, X: SV("dbl", v, False)}

            def build(m: Dict[str, str]) -> Tuple[Any, Any, Optional[Dict[str, str]]]:
                from vc.sqlcast import smt_real
                fl = float(smt_real(m["v"]))
                return fl, fl, {X: "float64"}
            kinds = {"fractional-value": smt.T(smt.BOOL, f"(not (= {v.sx} (to_real (to_int {v.sx}))))")}
        elif kind == "BOOLEAN":
            v = eng.decls.const("v", smt.BOOL)
            get.append("v")
            row_b = {"Id_1": idk, X: SV("bool", v, False)}
            row_a = None

            def build(m: Dict[str, str]) -> Tuple[Any, Any, Optional[Dict[str, str]]]:
                b = core.smt_bool(m["v"])
                return b, b, {X: "bool"}
            kinds = {}
        else:
            raise pairvc.RuleOutside(kind)
        eng.assume = list(pre)

        def run() -> pairvc.Joint:
            ra = row_a
            if ra is None:       # the CSV form of a native boolean is the text DataFrame.to_csv writes
                ra = {"Id_1": idk, X: SV("str", CStr.lit("True") if eng.decide(v) else CStr.lit("False"), False)}
            return pairvc.joint(eng, csvp, other, ra, row_b, X)
        try:
            paths = eng.explore(run)
        finally:
            eng.assume = None
    except (pairvc.RuleOutside, Exception) as e:  # noqa: BLE001
        res.update(status=UNDECIDED, detail=f"{kind} {shape}: analysis not possible: {type(e).__name__}: {str(e)[:200]}")
        res["cpu"] = time.process_time() - t0
        return res
    res["paths"] = len(paths)
    aborts = [And(*p.pc) for p in paths if p.kind == "abort"]
    bad: Dict[str, List[Any]] = {}
    for p in paths:
        if p.kind != "value":
            continue
        d = pairvc.differs(p.value, X, None)
        if not is_sym(d) and not d:
            continue
        bad.setdefault(shape_of(p.value, fa, fb), []).append(And(*p.pc, d))
    if aborts:
        r = core.run_smt(smt.query(eng.decls, list(eng.axioms) + list(pre) + [Or(*aborts)], logic="ALL"), timeout=40, tag="c18na")
        res["seconds"] += r.seconds
        if r.status != "unsat":
            why = next((str(p.value) for p in paths if p.kind == "abort"), "")
            res.update(status=UNDECIDED, detail=f"{kind} {shape}: a path leaves the SQL model: {why}")
            res["cpu"] = time.process_time() - t0
            return res
    extra: Dict[str, List[Any]] = {}
    for _round in range(6):
        if not bad:
            break
        r = core.run_smt(smt.query(eng.decls, list(eng.axioms) + list(pre) + [merged(bad, extra)], get=get, logic="ALL"),
                         timeout=60, tag=f"c18n_{kind}")
        res["seconds"] += r.seconds
        res["backends"].append(r.backend)
        if r.status == "unsat":
            break
        if r.status == "unknown":
            res.update(status=UNDECIDED, detail=f"{kind} {shape}: solver unknown: {r.raw[:120]}")
            break
        va, vb, dts = build(r.model)
        oa = native_cell("csv" if kind == "text" else "csv-of-native", tname, role, nullable, va, dts)
        ob = native_cell(fb, tname, role, nullable, vb, dts)
        if N.same_outcome(oa, ob):
            res.update(status=UNDECIDED, detail=f"counter-model {va!r} does not reproduce on the real loaders ({fa}: {N.show(oa)}; "
                       f"{fb}: {N.show(ob)}): encoding fault")
            break
        cls = N.classify(tname, va, oa, ob, fa, fb)
        key = f"{tname}::{pair}::{cls}"
        what = f"{fa}: {N.show(oa)}; {fb}: {N.show(ob)}"
        feat, how = cls.split("::", 1)
        if key in known:
            res["known"].append((key, va, what, r.backend))
            extra.setdefault(how, []).append(Not(kinds[feat]) if feat in kinds else False)
            continue
        res.update(status=REFUTED, backend=r.backend, finding_key=key, replayed=True,
                   witness={"cell": va, "forms": [fa, fb], "type": tname, "column": kind, "role": role, "nullable": nullable,
                            "real": what},
                   detail=f"{kind} {shape}: counter-model {va!r}", replay_detail=f"real loaders on the value {va!r}: {what}")
        break
    else:
        res.update(status=UNDECIDED, detail="more than 6 known-finding classes in one query")
    res["cpu"] = time.process_time() - t0
    return res


def _call(job: Tuple[str, Any]) -> Any:
    which, task = job
    return analyse_pair(task) if which == "pair" else analyse_numeric(task)


# --------------------------------------------------------------------------------------------------------------------
def fold(chk: Check, ob: Any, parts: List[Tuple[str, Dict[str, Any]]], fn: str, clause: str, shared: str = "") -> None:
    """Merge the per-length / per-shape results into one obligation (+ one obligation per known-finding class)."""
    ob.status = DISCHARGED
    backends, aside = set(), []
    npaths = nid = 0
    for label, r in parts:
        ob.seconds += r["seconds"]
        backends.update(b for b in r["backends"] if b)
        npaths += r.get("paths", 0)
        nid += r.get("by_identity", 0)
        for key, s_, what, be in r["known"]:
            aside.append(f"{key} e.g. {s_!r}")
            if not any(o.finding_key == key for o in chk.obs):
                kob = chk.ob(f"{ob.oid}::known::{'::'.join(key.split('::')[2:])}", fn, clause)
                kob.status, kob.finding_key, kob.witness = REFUTED, key, {"cell": s_, "real": what}
                kob.replayed, kob.replay_detail, kob.backend = True, f"real loaders on the cell {s_!r}: {what}", be
        if r["status"] != DISCHARGED and ob.status == DISCHARGED:
            ob.status, ob.detail, ob.witness = r["status"], r["detail"], r.get("witness")
            ob.finding_key, ob.replayed, ob.replay_detail = r.get("finding_key", ""), r.get("replayed"), r.get("replay_detail", "")
            ob.backend = r.get("backend", "")
    if ob.status == DISCHARGED and any("cover" in r or "by_identity" in r for _l, r in parts) and \
            not any(r.get("cover", 0) for _l, r in parts):
        ob.status, ob.detail = UNDECIDED, "vacuous: no joint path on which both forms accept the cell (nothing was compared)"
    if ob.status == DISCHARGED:
        ob.backend = "+".join(sorted(backends)) or "identity+const-fold"
        ob.detail = (f"{[l for l, _ in parts]}: {npaths} joint paths, {nid} closed by identity of the inserted value and of the "
                     f"remaining statements, the rest by the solver (merged queries unsat){shared}"
                     + (f"; set aside as known findings: {sorted(set(aside))[:4]}" if aside else ""))


def main() -> None:  # noqa: C901
    chk = Check("C18", "proof",
                "load statements of the three input forms extracted by running the real loaders on a recording connection; "
                "pairs of programs evaluated on one symbolic cell (vc.pairvc on vc.loadvc/vc.sqlvc: character vectors, regex -> "
                "SMT, exact reals) and the difference condition discharged by z3/cvc5 for all cell texts up to a length bound, "
                "textual identity of the extracted statements for Parquet vs DataFrame; every counter-model replayed through "
                "the real loaders; bounded native tier over the property's own tables and through API.run",
                min_obligations=60 if not os.environ.get("VERIF_ONLY") else 1)
    core.boot(full=True)
    N.w_init()
    only = os.environ.get("VERIF_ONLY", "")
    rnd = random.Random(chk.seed)
    known, _ = chk._known()
    pool = ProcessPoolExecutor(max_workers=core.NCPU, initializer=N.w_init)
    for fn in ("load_datapoints_duckdb", "register_dataframes", "_load_parquet", "_detect_date_type_overrides",
               "_build_dataframe_select_columns", "_validate_loaded_table", "_normalize_time_period_columns"):
        chk.under_contract(f"{IO}:{fn}")
    for fn in ("build_select_columns", "get_csv_read_type", "get_column_sql_type", "build_create_table_sql",
               "validate_temporal_columns", "validate_no_duplicates"):
        chk.under_contract(f"{VAL}:{fn}")
    chk.under_contract(f"{IO}:_detect_csv_format", "assumed")
    chk.under_contract("src/vtlengine/duckdb_transpiler/io/_execution.py:load_scheduled_datasets", "bounded")
    chk.under_contract("src/vtlengine/duckdb_transpiler/io/_execution.py:fetch_result", "bounded")

    import _c18_bounded as B
    t_b = time.time()
    fut_bounded = B.submit_all(pool, chk.tier, rnd)          # native work first: it overlaps with the symbolic tasks

    # ---- programs ------------------------------------------------------------------------------------------------------
    progs: Dict[Tuple[str, str, bool], Dict[str, loadvc.LoadProgram]] = {}
    for tname in ALL_TYPES:
        for role, nullable in ROLES:
            p = text_programs(tname, role, nullable)
            bad = [k for k, v in p.items() if v.error is not None or X not in v.insert]
            if bad:
                chk.fault(f"could not extract the load program(s) {bad} for {tname}/{role}/nullable={nullable}: "
                          f"{[repr(p[k].error) for k in bad]}")
                continue
            progs[(tname, role, nullable)] = p
    try:
        rule: Any = pairvc.date_override_rule()
    except pairvc.RuleOutside as e:
        rule = None
        chk.notes.append(f"_detect_date_type_overrides not of the expected shape: {e}")

    # ---- table-level statements ------------------------------------------------------------------------------------------
    battery: Dict[str, Any] = {}
    for (tname, role, nullable), p in progs.items():
        if only and only not in f"table-checks::{tname}":
            continue
        ob = chk.ob(f"{IO}:_validate_loaded_table::table-checks::{tname}::{tag_of(role, nullable)}", f"{IO}:_validate_loaded_table",
                    f"[{tname}/{tag_of(role, nullable)}] the table-level checks (duplicate identifier keys, at most one datapoint "
                    "without identifiers) and the NOT NULL constraints are the same statements in the CSV, DataFrame and Parquet form")
        ob.backend = "text-equality"

        def table_part(q: loadvc.LoadProgram) -> Any:
            stm = [" ".join(s.split()) for s in q.statements]
            return ([s for s in stm if "COUNT(DISTINCT" in s or s.startswith('SELECT COUNT(*) FROM "')], q.has_count_check,
                    q.has_duplicate_check, q.duplicate_cols, sorted(q.not_null.items()),
                    sorted((c, t) for c, t in q.col_types.items() if not (tname == "Date" and c == X)))
        parts = {k: table_part(q) for k, q in p.items()}
        unrec = {k: pairvc.unrecognised_statements(q) for k, q in p.items()}
        if any(unrec.values()):
            ob.status, ob.detail = UNDECIDED, f"statements the extractor does not know: {unrec}"
        elif len({repr(v) for v in parts.values()}) == 1:
            ob.status = DISCHARGED
            ob.detail = f"{len(p)} programs: identical check statements {parts['csv'][0]}"
        else:
            if tname not in battery:
                battery[tname] = B.structural_battery(tname, role, nullable)
            w = battery[tname]
            ob.detail = f"table-level statements differ: { {k: v[:4] for k, v in parts.items()} }"
            if w is not None:
                ob.status, ob.replayed, ob.witness, ob.replay_detail = REFUTED, True, w[0], w[1]
                ob.finding_key = f"{tname}::table-checks::{w[2]}"
            else:
                ob.status = UNDECIDED
                ob.detail += " | no behavioural difference found by the structural battery"

    # ---- P tier tasks -----------------------------------------------------------------------------------------------------
    kn = sorted(known)
    sig: Dict[Tuple[str, str, bool], str] = {k: x_signature(p) for k, p in progs.items()}
    rep: Dict[Tuple[str, str], Tuple[str, str, bool]] = {}
    for k in progs:
        rep.setdefault((k[0], sig[k]), k)
    jobs: List[Tuple[str, Any]] = []
    index: Dict[Any, int] = {}

    def want(name: str) -> bool:
        return not only or only in name

    skeleton_same: Dict[Tuple[str, str, bool], bool] = {}
    for k, p in progs.items():
        same = pairvc.statement_skeleton(p["df"]) == pairvc.statement_skeleton(p["parquet"]) and "df_ts" not in p
        skeleton_same[k] = same

    def plens(k: Tuple[str, str, bool], pair: str) -> List[int]:
        """String lengths analysed for one pair.  Time_Period: when the statements after the INSERT differ between the two
        forms, vtl_period_normalize has to be explored on every path (as in C19) - the quick tier then stops at 8."""
        ls = lengths(k[0], chk.tier)
        fa_, fb_ = pair.split("-vs-")
        if k[0] == "Time_Period" and chk.tier == "quick" and \
                pairvc.second_stage_text(progs[k][fa_], X) != pairvc.second_stage_text(progs[k][fb_], X):
            ls = [n for n in ls if n <= 8]
        return ls

    for (tname, _s), k in rep.items():
        if tname not in TEXT_TYPES:
            continue
        for pair in ("csv-vs-df", "df-vs-parquet"):
            if pair == "df-vs-parquet" and skeleton_same[k]:
                continue
            if not want(f"pair::{tname}::{pair}"):
                continue
            for n in plens(k, pair):
                index[("pair", k, pair, n)] = len(jobs)
                jobs.append(("pair", (k[0], k[1], k[2], pair, n, kn)))
    shapes = [(neg, k_, f) for neg in (False, True) for k_ in ((1, 9) if chk.tier == "quick" else (1, 3, 9, 12))
              for f in (0, 1, 2, 6)]
    nrep: Dict[Tuple[str, str], Tuple[str, bool]] = {}      # role variants whose statements on the column coincide share the analysis
    for role, nullable in ROLES[:3]:
        for tn_ in ("Integer", "Boolean"):
            if (tn_, role, nullable) in sig:
                nrep.setdefault((tn_, sig[(tn_, role, nullable)]), (role, nullable))

    def nrep_of(tn_: str, role: str, nullable: bool) -> Tuple[str, bool]:
        return nrep.get((tn_, sig.get((tn_, role, nullable), "")), (role, nullable))
    for role, nullable in ROLES[:3]:
        if want("pair::Integer::csv-vs-df") and nrep_of("Integer", role, nullable) == (role, nullable):
            for sh in shapes:
                index[("num", "text", role, nullable, sh)] = len(jobs)
                jobs.append(("num", ("text", role, nullable, sh, kn)))
        for kind in ("BIGINT", "DOUBLE", "BOOLEAN"):
            tn_ = "Boolean" if kind == "BOOLEAN" else "Integer"
            if want(f"typed::{tn_}::csv-vs-df-native::{kind}") and nrep_of(tn_, role, nullable) == (role, nullable):
                index[("num", kind, role, nullable, None)] = len(jobs)
                jobs.append(("num", (kind, role, nullable, None, kn)))
    order = sorted(range(len(jobs)), key=lambda i: -(jobs[i][1][4] if jobs[i][0] == "pair" else 0))
    t_p = time.time()
    results: List[Any] = [None] * len(jobs)
    for i, r in zip(order, pool.map(_call, [jobs[i] for i in order])):
        results[i] = r
    chk.extra["symbolic_analyses"] = len(jobs)
    chk.extra["joint_paths_explored"] = sum(r.get("paths", 0) for r in results)
    chk.extra["p_tier_wall_s"] = round(time.time() - t_p, 1)
    chk.extra["p_tier_cpu_s"] = round(sum(r.get("cpu", 0.0) for r in results), 1)
    slow = sorted(range(len(jobs)), key=lambda i: -(results[i]["seconds"] + results[i].get("cpu", 0.0)))[:8]
    chk.extra["slowest_analyses"] = [[str(jobs[i][1][:5]), round(results[i]["seconds"], 1), round(results[i].get("cpu", 0.0), 1),
                                      results[i].get("paths", 0)] for i in slow]

    # ---- pair obligations ---------------------------------------------------------------------------------------------
    for (tname, role, nullable), p in progs.items():
        tag = tag_of(role, nullable)
        rk = rep[(tname, sig[(tname, role, nullable)])]
        shared = "" if rk == (tname, role, nullable) else \
            f" (statements on the column identical to {rk[1]}/nullable={rk[2]}: analysis shared)"
        # DataFrame vs Parquet with string columns
        if want(f"pair::{tname}::df-vs-parquet"):
            fn = FN["parquet"]
            clause = (f"[{tname}/{tag}] a Parquet file with string columns and a DataFrame with string columns holding the same "
                      "cells (any text, '' and NULL included) are both rejected, or both accepted with the same stored values")
            ob = chk.ob(f"{fn}::pair::{tname}::df-vs-parquet::{tag}", fn, clause)
            if skeleton_same[(tname, role, nullable)]:
                ob.status, ob.backend = DISCHARGED, "text-equality"
                ob.detail = "create / insert expressions / normalise / checks are the same statements"
            elif tname in TEXT_TYPES:
                fold(chk, ob, [(f"|s|={n}", results[index[("pair", rk, "df-vs-parquet", n)]]) for n in plens(rk, "df-vs-parquet")],
                     fn, clause, shared)
                if ob.status == DISCHARGED and pairvc.statement_skeleton(p["df"]) == pairvc.statement_skeleton(p["parquet"]):
                    ob.detail += ("; cells on which the DataFrame loader cannot switch the column type (short texts, '', NULL): its "
                                  "statements are textually those of the Parquet loader")
                elif ob.status == DISCHARGED:
                    ob.detail += "; other lengths and '' only in the bounded tier"
            else:
                # the two loaders issue different statements and the cells are parsed by DuckDB itself: native pool only,
                # labelled bounded (not a proof-level obligation on this tree)
                w = B.cell_battery(tname, role, nullable, "df", "parquet", known)
                ob.bounded, ob.backend = True, "bounded-native"
                if w is None:
                    ob.status, ob.detail = BOUNDED_OK, "statement texts differ; the value pool of the bounded tier shows no difference"
                else:
                    ob.status, ob.replayed, ob.witness, ob.replay_detail, ob.finding_key = REFUTED, True, w[0], w[1], w[2]
        if tname in TEXT_TYPES and want(f"pair::{tname}::csv-vs-df"):
            fn = FN["csv"]
            clause = (f"[{tname}/{tag}] for every cell text s (printable ASCII, lengths {plens(rk, 'csv-vs-df')}): the CSV form and "
                      "the DataFrame form are both rejected, or both accepted and store the same value"
                      + (" (same instant: same day, and a DATE column only when the text has no time of day)" if tname == "Date" else ""))
            ob = chk.ob(f"{fn}::pair::{tname}::csv-vs-df::{tag}", fn, clause)
            fold(chk, ob, [(f"|s|={n}", results[index[("pair", rk, "csv-vs-df", n)]]) for n in plens(rk, "csv-vs-df")],
                 fn, clause, shared)
        if tname == "Integer" and role != "Attribute" and want("pair::Integer::csv-vs-df"):
            fn = FN["csv"]
            ks = ",".join(str(x) for x in sorted({sh[1] for sh in shapes}))
            clause = (f"[Integer/{tag}] for every decimal numeral [-]d{{{ks}}}[.d{{1,2,6}}] (digits symbolic): the CSV form and the "
                      "DataFrame form are both rejected, or both accepted with the same integer")
            ob = chk.ob(f"{fn}::pair::Integer::csv-vs-df::{tag}", fn, clause)
            nr = nrep_of("Integer", role, nullable)
            fold(chk, ob, [(f"{'-' if sh[0] else ''}d{sh[1]}.d{sh[2]}", results[index[("num", "text", nr[0], nr[1], sh)]]) for sh in shapes],
                 fn, clause, "" if nr == (role, nullable) else f" (statements identical to {nr[0]}/nullable={nr[1]}: analysis shared)")
        if tname in ("Integer", "Boolean") and role != "Attribute":
            for kind in (("BIGINT", "DOUBLE") if tname == "Integer" else ("BOOLEAN",)):
                if not want(f"typed::{tname}::csv-vs-df-native::{kind}"):
                    continue
                fn = FN["df-native"]
                dom = {"BIGINT": "every integer |v| <= 2**53", "DOUBLE": "every real |v| <= 2**53 (DOUBLE as exact real)",
                       "BOOLEAN": "both booleans"}[kind]
                clause = (f"[{tname}/{tag}] a DataFrame whose column is {kind} and the CSV form of the same value ({dom}) are both "
                          "rejected, or both accepted with the same stored value")
                ob = chk.ob(f"{fn}::typed::{tname}::csv-vs-df-native::{kind}::{tag}", fn, clause)
                nr = nrep_of(tname, role, nullable)
                fold(chk, ob, [(kind, results[index[("num", kind, nr[0], nr[1], None)]])], fn, clause,
                     "" if nr == (role, nullable) else f" (statements identical to {nr[0]}/nullable={nr[1]}: analysis shared)")

    # ---- typed DataFrame vs typed Parquet: textual identity ---------------------------------------------------------
    for tname, srcs in TYPED_SOURCES.items():
        for src in srcs:
            if not want(f"typed::{tname}::df-native-vs-parquet-typed::{src}"):
                continue
            for role, nullable in ROLES[:3]:
                tp = typed_programs(tname, role, nullable, src)
                fn = FN["parquet-typed"]
                ob = chk.ob(f"{fn}::typed::{tname}::df-native-vs-parquet-typed::{src}::{tag_of(role, nullable)}", fn,
                            f"[{tname}/{tag_of(role, nullable)}] a DataFrame and a Parquet file whose column is {src} are loaded by "
                            "the same statements")
                ob.backend = "text-equality"
                if any(q.error is not None for q in tp.values()):
                    ob.status, ob.detail = UNDECIDED, f"extraction failed: {[repr(q.error) for q in tp.values()]}"
                elif pairvc.statement_skeleton(tp["df-native"]) == pairvc.statement_skeleton(tp["parquet-typed"]):
                    ob.status, ob.detail = DISCHARGED, f"insert expression {tp['df-native'].insert[X].sql(dialect='duckdb')}"
                else:
                    w = B.typed_battery(tname, role, nullable, src, known)
                    ob.bounded, ob.backend = True, "bounded-native"
                    if w is None:
                        ob.status = BOUNDED_OK
                        ob.detail = ("statement texts differ (" + tp["df-native"].insert[X].sql(dialect="duckdb")[:60] + " / "
                                     + tp["parquet-typed"].insert[X].sql(dialect="duckdb")[:60] + "); the typed value pool shows no difference")
                    else:
                        ob.status, ob.replayed, ob.witness, ob.replay_detail, ob.finding_key = REFUTED, True, w[0], w[1], w[2]

    # ---- NULL cell -----------------------------------------------------------------------------------------------------
    for (tname, role, nullable), p in progs.items():
        if not want(f"null::{tname}"):
            continue
        tag = tag_of(role, nullable)
        fn = FN["csv"]
        ob = chk.ob(f"{fn}::null::{tname}::{tag}", fn, f"[{tname}/{tag}] a NULL cell (CSV: empty field) is stored as NULL in every "
                    "form when the component is a nullable non-identifier and rejected in every form otherwise")
        ob.backend = "const-fold"
        want_accept = nullable and role != "Identifier"
        verdicts = {}
        try:
            rt = pairvc.csv_read_types(p["csv"]).get(X, "VARCHAR")
            for k, q in p.items():
                eng = pairvc.make(pairvc.NumEngine)
                sort = "dbl" if (k == "csv" and rt != "VARCHAR") else "str"
                cell = SV(sort, Fraction(0) if sort == "dbl" else CStr([]), True)
                ps = eng.explore(lambda q=q, cell=cell, eng=eng: loadvc.run_row(eng, q, {"Id_1": SV("str", CStr.lit("k"), False), X: cell}))
                if len(ps) != 1 or ps[0].kind != "value":
                    raise pairvc.RuleOutside(f"{k}: {[(x.kind, str(x.value)[:80]) for x in ps][:2]}")
                o = ps[0].value
                verdicts[k] = o.accepted and (o.stored[X].sort == "null" or o.stored[X].null is True) if o.accepted else False
        except Exception as e:  # noqa: BLE001
            ob.status, ob.detail = UNDECIDED, f"NULL cell outside the model: {type(e).__name__}: {str(e)[:160]}"
            continue
        if all(v == want_accept for v in verdicts.values()):
            ob.status, ob.detail = DISCHARGED, f"{verdicts}"
        else:
            real = {f: native_cell(f, tname, role, nullable, None) for f in ("csv", "df", "parquet")}
            okr = {f: (o[0] == "accept" and o[1][0][1] is None) for f, o in real.items()}
            ob.status = REFUTED
            ob.replayed = not all(v == want_accept for v in okr.values())
            ob.detail = f"model: stored-as-NULL per form {verdicts}, expected {want_accept}"
            ob.witness = {"cell": None, "type": tname, "role": role, "nullable": nullable}
            ob.replay_detail = "real loaders with a NULL cell: " + "; ".join(f"{f}: {N.show(o)}" for f, o in real.items())
            ob.finding_key = f"{tname}::null-cell::{tag}"

    # ---- model vs real loaders, reader assumptions ---------------------------------------------------------------------
    conformance(chk, progs, rule, rnd, pool)

    # ---- B tier ------------------------------------------------------------------------------------------------------------
    B.collect_all(chk, fut_bounded, known)
    chk.extra["b_tier_wall_s"] = round(time.time() - t_b, 1)
    pool.shutdown()

    chk.assume("cells of the P tier: code points 32..126, lengths up to the bounds listed per obligation; Time_Period on the "
               "proof domain of C19 (numeric fields hold digits or characters no numeral contains)")
    chk.assume("read_csv hands the INSERT statement the cell texts unchanged, an empty field (quoted or not) as NULL and a decimal "
               "numeral as the DOUBLE / DECIMAL of that value; pandas->Arrow and read_parquet hand over the cells unchanged "
               "(sampled natively on every run, CSV sniffing / encodings / other delimiters not covered)")
    chk.assume("DuckDB evaluates the extracted scalar SQL as vc.sqlvc / vc.loadvc / vc.pairvc model it (pair model validated "
               "against the real loaders on sampled cells in this run, every counter-model replayed); DOUBLE as exact reals below 2**53")
    chk.assume("the time of day of a Date is not interpreted: two TIMESTAMP columns fed from the same text hold the same time; "
               "a DATE column equals a TIMESTAMP column only when the text has no time of day other than midnight")
    chk.assume("unspecified, left out: a cell holding the empty string '' in the DataFrame / Parquet form versus CSV (no CSV form; "
               "docs silent); Number and Integer texts beyond decimal numerals (DuckDB's own parsers: bounded tier only)")
    chk.trust("vc.loadvc.RecordingConn answers the loaders' metadata queries; sqlglot parses the recorded statements")
    chk.extra["obligation_index"] = [[o.oid.split(".py:", 1)[-1], o.status, o.backend, o.detail[:200]] for o in chk.obs]
    chk.finish()


# --------------------------------------------------------------------------------------------------------------------
# conformance of the pair model and of the reader assumptions (engine fault on mismatch, never a verdict)
# --------------------------------------------------------------------------------------------------------------------
SAMPLES = {
    "String": ["abc", 'a"b', '"abc"', '""', '"', " pad ", "a,b", "x", "NULL", "a'b", "1.5"],
    "Boolean": ["true", "FALSE", "1", "0", "yes", "no", "t", "f", "y", "n", "Y", "N", "on", "2", "tru", '"true"', '"1"', '""', "T", "F",
                "True", "False", " true", "1.0", "-1", "nO", "yEs"],
    "Date": ["2020-01-15", "2020-1-5", "2020-01-15 10:30:00", "2020-01-15T10:30:00", "2020-1-5 10:30:00", "2020-12-5T00:00:01",
             "2020-01-15T00:00:00", "2020-02-30", "2020-01-15T25:00:00", "2020-01-15 10:30", "20200115", "2020-01-15T10:30:00Z",
             "2020-1-15T23:59:59", "2020-01-15 00:00:00.5", "1999-12-31", "2020-13-01", "2020-01-15X"],
    "Time_Period": ["2020", "2020A", "2020-A1", "2020S1", "2020-Q4", "2020M12", "2020-M1", "2020-01", "2020-1", "2020W53", "2020-W01",
                    "2020D366", "2020-D001", "2020-01-15", "2020q1", "2020Q5", "2020-13", "abcd", "2020X1", '"2020"'],
    "Time": ["2020-01-01/2020-12-31", "2020", "2020-01", "2020-12-31/2020-01-01", "2020-01-01T00:00:00/2020-12-31T00:00:00", "x/y",
             "2020-01-01/2020-12-3"],
    "Duration": ["A", "S", "Q", "M", "W", "D", "a", "X", "AA", " A", "A ", '"A"'],
}


def model_pair(tname: str, progs: Dict[str, loadvc.LoadProgram], rule: Any, fa: str, fb: str, s: str) -> Optional[bool]:
    """True: model says the forms differ on s, False: same, None: outside the model."""
    eng = pairvc.make(pairvc.TextEngine)
    chars = [ord(c) for c in s]
    row = {"Id_1": SV("str", CStr.lit("k"), False), X: SV("str", CStr(chars), False)}

    def pick(form: str) -> loadvc.LoadProgram:
        if form == "df" and tname == "Date" and rule is not None and "df_ts" in progs:
            return progs["df_ts"] if pairvc.override_applies(rule, chars) is True else progs["df"]
        return progs[form]
    ps = eng.explore(lambda: pairvc.joint(eng, pick(fa), pick(fb), row, row, X))
    if len(ps) != 1 or ps[0].kind != "value":
        return None
    d = pairvc.differs(ps[0].value, X, chars)
    return None if is_sym(d) else bool(d)


def conformance(chk: Check, progs: Dict[Any, Dict[str, loadvc.LoadProgram]], rule: Any, rnd: random.Random, pool: Any) -> None:  # noqa: C901
    import itertools
    n_cmp = 0
    # (1) pair model vs the real loaders
    jobs, meta = [], []
    for tname in TEXT_TYPES:
        for role, nullable in ROLES[:2]:
            p = progs.get((tname, role, nullable))
            if p is None:
                continue
            strs = list(SAMPLES[tname])
            for _ in range(25 if chk.tier == "quick" else 200):
                t = list(rnd.choice(SAMPLES[tname]))
                for _k in range(rnd.randint(1, 2)):
                    op = rnd.randint(0, 2)
                    if op == 0 and t:
                        t[rnd.randrange(len(t))] = rnd.choice('0123456789-:TZ "aQ/.')
                    elif op == 1:
                        t.insert(rnd.randrange(len(t) + 1), rnd.choice('0123456789-:T "a'))
                    elif len(t) > 1:
                        del t[rnd.randrange(len(t))]
                strs.append("".join(t))
            for s in sorted(set(x for x in strs if x)):
                if tname == "Time_Period":
                    if not all(c is True for c in domain(tname, [ord(ch) for ch in s])):
                        continue
                for form in ("csv", "df", "parquet"):
                    jobs.append({"form": form, "spec": spec_of(tname, role, nullable), "rows": [{"Id_1": "k", X: s}]})
                meta.append((tname, role, nullable, s))
    outs = list(pool.map(N.load_job, jobs, chunksize=8))
    for i, (tname, role, nullable, s) in enumerate(meta):
        o = dict(zip(("csv", "df", "parquet"), outs[3 * i:3 * i + 3]))
        p = progs[(tname, role, nullable)]
        for fa, fb in (("csv", "df"), ("df", "parquet")):
            m = model_pair(tname, p, rule, fa, fb, s)
            n_cmp += 1
            if m is None:
                continue
            real = not N.same_outcome(o[fa], o[fb])
            if m != real:
                chk.fault(f"pair model / real loaders mismatch on {tname}/{role}/nullable={nullable} cell {s!r} {fa} vs {fb}: model says "
                          f"{'differ' if m else 'same'}; real {fa}: {N.show(o[fa])}; {fb}: {N.show(o[fb])}")
                return
    # (2) CAST(VARCHAR AS BOOLEAN) and CAST(VARCHAR AS BIGINT) of numerals: model vs real DuckDB
    from vc import sqlconf
    conn = sqlconf.conn()
    alpha = [chr(c) for c in range(32, 127)]
    texts = alpha + ["".join(t) for t in itertools.product("tfynTFYN01 o", repeat=2)] + \
        [w for base in pairvc.BOOL_TRUE + pairvc.BOOL_FALSE for w in (base, base.upper(), base.capitalize(), base + " ", " " + base, base[:-1], base + "x")]
    for s in texts:
        eng = pairvc.make(pairvc.TextEngine)
        ps = eng.explore(lambda s=s, eng=eng: eng.eval_sql('CAST("x" AS BOOLEAN)', {"x": SV("str", CStr.lit(s), False)}))
        m = ("value", ps[0].value.v) if ps[0].kind == "value" else ("error", None)
        try:
            r = ("value", conn.execute("SELECT CAST(? AS BOOLEAN)", [s]).fetchone()[0])
        except Exception:  # noqa: BLE001
            r = ("error", None)
        n_cmp += 1
        if m != r:
            chk.fault(f"CAST({s!r} AS BOOLEAN): model {m}, DuckDB {r}")
            return
    nums = [f"{sg}{i}{fr}" for sg in ("", "-") for i in (0, 1, 2, 7, 10, 99, 123456789) for fr in ("", ".0", ".4", ".5", ".50", ".49", ".51", ".500000", ".499999", ".9")]
    for s in nums:
        eng = pairvc.make(pairvc.NumEngine)
        ps = eng.explore(lambda s=s, eng=eng: eng.eval_sql('CAST("x" AS BIGINT)', {"x": SV("str", CStr.lit(s), False)}))
        m = ps[0].value.v if ps[0].kind == "value" else "error"
        try:
            r = conn.execute("SELECT CAST(? AS BIGINT)", [s]).fetchone()[0]
        except Exception:  # noqa: BLE001
            r = "error"
        n_cmp += 1
        if m != r:
            chk.fault(f"CAST({s!r} AS BIGINT): model {m!r}, DuckDB {r!r}")
            return
    # (3) the reader: what read_csv (with the options of the real loader) delivers for the cells of a CSV file
    import csv as _csv
    import tempfile
    p0 = progs.get(("String", "Measure", True))
    pi = progs.get(("Integer", "Measure", True))
    if p0 is not None and pi is not None:
        opts = pairvc.csv_read_options(p0["csv"])
        d = tempfile.mkdtemp(prefix="verif_c18r_")
        try:
            cells = ["abc", 'a"b', '"q"', " pad ", "a,b", "line\nbreak", "NULL", "NA", "1.5", "'", "\\"]
            f1 = Path(d) / "t.csv"
            with open(f1, "w", newline="") as f:
                w = _csv.writer(f)
                w.writerow(["Id_1", X])
                for i, c in enumerate(cells):
                    w.writerow([f"k{i}", c])
                f.write('e1,\r\n')
                f.write('e2,""\r\n')
            got = dict(conn.execute(f"SELECT * FROM read_csv('{f1}', header=true, columns={{'Id_1': 'VARCHAR', '{X}': 'VARCHAR'}}, "
                                    f"auto_detect=false, {opts})").fetchall())
            want_ = {f"k{i}": c for i, c in enumerate(cells)}
            want_.update(e1=None, e2=None)
            n_cmp += len(want_)
            if got != want_:
                chk.fault(f"read_csv does not deliver the cell texts as assumed: {[(k, got.get(k), v) for k, v in want_.items() if got.get(k) != v][:4]}")
                return
            nums2 = ["0", "42", "-7", "1.5", "-0.4", "123456789.25", "007", "2.50"]
            with open(f1, "w", newline="") as f:
                w = _csv.writer(f)
                w.writerow(["Id_1", X])
                for i, c in enumerate(nums2):
                    w.writerow([f"k{i}", c])
            rt = pairvc.csv_read_types(pi["csv"]).get(X, "DOUBLE")
            got = dict(conn.execute(f"SELECT * FROM read_csv('{f1}', header=true, columns={{'Id_1': 'VARCHAR', '{X}': '{rt}'}}, "
                                    f"auto_detect=false, {opts})").fetchall())
            n_cmp += len(nums2)
            badn = [(c, got.get(f"k{i}")) for i, c in enumerate(nums2) if got.get(f"k{i}") is None or Fraction(str(got[f"k{i}"])) != Fraction(c)]
            if badn and rt == "DOUBLE":
                chk.fault(f"read_csv({rt}) does not deliver decimal numerals as their value: {badn[:4]}")
                return
        finally:
            import shutil
            shutil.rmtree(d, ignore_errors=True)
    # (4) the rule read from _detect_date_type_overrides vs the real function
    if rule is not None:
        import pandas as pd
        from vtlengine.duckdb_transpiler.io import _io
        comps = N.components(spec_of("Date", "Measure", True))
        for s in SAMPLES["Date"] + ["2020-01-15t10:30:00", "x" * 11, "2020-01-15 ", "2020-01-15T"]:
            realv = bool(_io._detect_date_type_overrides(pd.DataFrame({"Id_1": ["k"], X: [s]}), comps))
            mine = pairvc.override_applies(rule, [ord(c) for c in s])
            n_cmp += 1
            if mine is not realv:
                chk.fault(f"_detect_date_type_overrides({s!r}) = {realv}, extracted rule says {mine}")
                return
    chk.extra["conformance_comparisons"] = n_cmp


if __name__ == "__main__":
    core.main_guard("C18", main)
