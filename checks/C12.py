"""C12 — results do not depend on the textual order of statements.

TIER 1 (deductive, checks/_dagproof.py - proof obligations, scripts of ANY size): contracts with loop invariants on the
real functions of AST/DAG/__init__.py.  Every loop of visit_Start (statement numbering / per-statement reset),
load_vertex, load_edges, check_overwriting is verified by ONE iteration of its real body executed symbolically
(vc.pyvc + SMT arrays for dicts / sets / lists, vc.pycoll / vc.pyloop) from an ARBITRARY loop state, with pointwise
invariants and ghost values, discharged by z3 / cvc5; _build_and_sort_graph, sort_elements, sort_ast, create_dag,
visit_(Persistent)Assignment, statement_structure are executed whole (networkx under assumed contracts); the state shared
between the visits of two statements is discharged by a frame analysis (constant / reset per statement / balanced flag).
The modular obligation "load_edges needs one producer per name" FAILS at its call site in create_dag (check_overwriting
runs after the graph is built): replayed natively - the same statements are rejected with 1-3-2-3 or 1-2-2 depending
on their order - and listed as a known finding.  Induction over the loops and the confluence lemma are stated
meta-arguments.  A refuted / unformable obligation is decided by a native search on hand-built ASTs
(checks/_dagnative.py): only a reproduced failure is a violation.

TIER 2 (BOUNDED, unchanged): contracts, stated on the real functions and checked on an exhaustive bounded enumeration of scripts (hand-built
ASTs; the dependency graph of each script is known by construction, independently of the analyzer under test):

  DAGAnalyzer.create_dag(ast)    ensures  (no duplicate output, acyclic)  => ast.children is a permutation of the
                                          statements in an order where every producer precedes its consumers,
                                          whatever the written order
                                 ensures  a cyclic script raises SemanticError 1-3-2-3 for EVERY written order
                                 ensures  a script assigning a name twice raises SemanticError 1-2-2 for EVERY order
  API.semantic_analysis          ensures  the reported structures are the same for every written order
  API.run                        ensures  the results are the same for every written order
API.run / API.semantic_analysis are the functions of the working tree with only their text->AST prologue removed
(vc.pipeline.api_from_ast, mechanical extraction on every run).
Bounds: quick n <= 3 statements exhaustive over 2 inputs (+ scalar-in-clause variants), n = 4 sampled;
thorough n <= 3 exhaustive, n = 4 (3000 scripts) and n = 5 (400) sampled; create_dag on ALL permutations of every script
(<= 120), semantic_analysis on all of them in thorough (first 6 in quick), run() on the first 8 (6) written orders.
"""
from __future__ import annotations

import itertools
import random
import sys
from pathlib import Path
from typing import Any, Dict, List, Optional, Sequence, Tuple

sys.path.insert(0, str(Path(__file__).resolve().parent.parent))
sys.path.insert(0, str(Path(__file__).resolve().parent))
import _dagscripts as G  # noqa: E402
from vc import core  # noqa: E402
from vc import pipeline as P  # noqa: E402
from vc.core import BOUNDED_OK, REFUTED, Check  # noqa: E402


def err_code(e: BaseException) -> str:
    if len(getattr(e, "args", ())) > 1 and isinstance(e.args[1], str):
        return e.args[1]
    return type(e).__name__


def dag_outcome(stmts: Sequence[G.Stmt]) -> Tuple[str, Any]:
    from vtlengine.AST.DAG import DAGAnalyzer
    ast = G.build(stmts)
    try:
        DAGAnalyzer.create_dag(ast)
    except Exception as e:  # noqa: BLE001
        return "error", err_code(e)
    return "ok", [c.left.value for c in ast.children if hasattr(c, "left")]      # (UDO definitions have no left)


def dep_records(stmts: Sequence[G.Stmt]) -> Tuple[str, Any]:
    """The dependency record the analyzer computes for every statement: output name -> sorted inputs."""
    from vtlengine.AST.DAG import DAGAnalyzer
    dag = DAGAnalyzer()
    try:
        dag.visit(G.build(stmts))
    except Exception as e:  # noqa: BLE001
        return "error", err_code(e)
    return "ok", {(d.outputs + d.persistent + ["?"])[0]: sorted(set(d.inputs)) for d in dag.dependencies.values()}


def sem_outcome(stmts: Sequence[G.Stmt]) -> Tuple[str, Any]:
    sem = P.api_from_ast("semantic_analysis")
    try:
        r = sem(G.build(stmts), G.structures_for(stmts))
    except Exception as e:  # noqa: BLE001
        return "error", err_code(e)
    out = {}
    for k, v in r.items():
        comps = getattr(v, "components", None)
        out[k] = sorted((c.name, c.data_type.__name__, c.role.value, c.nullable) for c in comps.values()) if comps \
            else ("scalar", getattr(getattr(v, "data_type", None), "__name__", None))
    return "ok", out


def run_outcome(stmts: Sequence[G.Stmt], data: Dict[str, Any]) -> Tuple[str, Any]:
    run = P.api_from_ast("run")
    try:
        r = run(G.build(stmts), G.structures_for(stmts), {k: v.copy() for k, v in data.items()},
                return_only_persistent=False)
    except Exception as e:  # noqa: BLE001
        return "error", err_code(e)
    out = {}
    for k, v in r.items():
        d = getattr(v, "data", None)
        if d is not None:
            out[k] = sorted(map(tuple, d.astype(object).where(d.notna(), None).values.tolist()), key=repr)
        else:
            out[k] = getattr(v, "value", None)
    return "ok", out


def show(stmts: Sequence[G.Stmt]) -> str:
    if G.is_rich(stmts):
        return G.show(stmts)
    parts = []
    for out, pers, kind, direct, cl in stmts:
        if kind == "scalar":
            rhs = "<const>"
        elif kind == "expr":
            rhs = " + ".join(direct)
        else:
            rhs = f"{direct[0]}[filter " + " and ".join(f"Me_1 ? {c}" for c in cl) + "]"
        parts.append(f"{out} {'<-' if pers else ':='} {rhs}")
    return "; ".join(parts)


def main() -> None:  # noqa: C901
    chk = Check("C12", "proof", "contracts with loop invariants on the real functions of AST/DAG/__init__.py: one iteration of "
                "every real loop body from an arbitrary loop state (vc.pyvc, SMT arrays for dicts / sets / lists), whole-"
                "function symbolic execution of the straight-line phases, networkx under assumed contracts, frame analysis of "
                "the state shared between statements, z3 / cvc5; native replay on hand-built ASTs; PLUS the bounded tier: "
                "contracts on DAGAnalyzer.create_dag / API.semantic_analysis / API.run checked on "
                "an exhaustive bounded enumeration of scripts x all statement permutations, executed on the real code "
                "(API functions mechanically extracted below the parser)", min_obligations=30)
    core.boot(full=True)
    import _dagproof
    _dagproof.run(chk)                     # tier 1: proof obligations (never `bounded`)
    rng = random.Random(chk.seed)
    thorough = chk.tier == "thorough"
    plans = [(2, 2, False, 0), (3, 2, False, 0), (2, 1, True, 0), (3, 1, True, 0),
             (4, 2, False, 3000 if thorough else 250)]
    if thorough:
        plans += [(4, 1, True, 600), (5, 2, False, 400)]
    run_orders = 8 if thorough else 6       # run() compared on the first written orders only (it dominates the cost)
    import pandas as pd
    data = {f"DS_{i}": pd.DataFrame({"Id_1": [1, 2, 3], "Me_1": [float(i), 2.0 * i, None]}) for i in (1, 2, 3)}

    stats = {"scripts": 0, "permutations": 0, "acyclic": 0, "cyclic": 0, "duplicate": 0, "run_compared": 0}
    fails: Dict[str, Tuple[str, Any]] = {}
    distinct = set()

    def fail(kind: str, detail: str, wit: Any) -> None:
        fails.setdefault(kind, (detail, wit))

    def perms(stmts: Sequence[G.Stmt]) -> List[Tuple[G.Stmt, ...]]:
        ps = list(itertools.permutations(stmts))
        if len(ps) > 120:
            ps = [ps[0]] + rng.sample(ps[1:], 119)
        return ps

    for n, n_in, with_sc, cap in plans:
        for stmts in G.shapes(n, n_in, with_sc, rng, cap):
            stats["scripts"] += 1
            distinct.add(show(stmts))
            cyc = G.is_cyclic(stmts)
            stats["cyclic" if cyc else "acyclic"] += 1
            sem0: Optional[Tuple[str, Any]] = None
            run0: Optional[Tuple[str, Any]] = None
            do_run = (not cyc) and (stats["acyclic"] % (3 if thorough else 9) == 0)
            n_sem = 0
            for perm in perms(stmts):
                stats["permutations"] += 1
                kind, val = dag_outcome(perm)
                if cyc:
                    if (kind, val) != ("error", "1-3-2-3"):
                        fail("create_dag::cycle-not-rejected", f"cyclic script, written order [{show(perm)}]: create_dag -> "
                             f"{kind} {val} (contract: SemanticError 1-3-2-3 whatever the order)",
                             {"script": show(perm), "outcome": [kind, val]})
                    continue
                if kind != "ok":
                    fail("create_dag::valid-script-rejected", f"acyclic script [{show(perm)}]: create_dag raised {val}",
                         {"script": show(perm), "outcome": [kind, val]})
                    continue
                if sorted(val) != sorted(G.outputs(stmts)) or not G.topological_ok(val, stmts):
                    fail("create_dag::not-topological", f"written order [{show(perm)}]: sorted statements {val} do not put "
                         "every producer before its consumers (or lose/duplicate a statement)",
                         {"script": show(perm), "sorted": val})
                n_sem += 1
                if n_sem > 6 and not thorough:
                    continue          # semantic / run compared on the first 6 written orders (all of them in thorough)
                s = sem_outcome(perm)
                if sem0 is None:
                    sem0 = s
                    first = perm
                elif s != sem0:
                    fail("semantic_analysis::order-dependent", f"semantic_analysis differs between written orders "
                         f"[{show(first)}] -> {sem0[0]} {str(sem0[1])[:80]} and [{show(perm)}] -> {s[0]} {str(s[1])[:80]}",
                         {"order_1": show(first), "result_1": str(sem0)[:300], "order_2": show(perm), "result_2": str(s)[:300]})
                if do_run and n_sem <= run_orders:
                    r = run_outcome(perm, data)
                    stats["run_compared"] += 1
                    if run0 is None:
                        run0 = r
                    elif r != run0:
                        fail("run::order-dependent", f"run() differs between written orders [{show(first)}] and "
                             f"[{show(perm)}]: {str(run0)[:120]} vs {str(r)[:120]}",
                             {"order_1": show(first), "order_2": show(perm), "result_1": str(run0)[:300], "result_2": str(r)[:300]})
            # duplicate-name variant of this script: the last statement re-assigns the first output
            dup = list(stmts[:-1]) + [(stmts[0][0],) + tuple(stmts[-1][1:])] if n >= 2 else []
            # only scripts that are NOT also cyclic whichever of the two producers is taken (the property does not
            # say which of the two errors a script that is both cyclic and redefining must get)
            dup_ok = bool(dup) and not with_sc and stmts[0][0] not in G.reads(dup[-1]) and stmts[-1][0] not in \
                {r for s in dup for r in G.reads(s)} and not G.is_cyclic(dup) and not G.is_cyclic(dup[::-1])
            if dup_ok:
                stats["duplicate"] += 1
                for perm in perms(dup):
                    stats["permutations"] += 1
                    kind, val = dag_outcome(perm)
                    if (kind, val) != ("error", "1-2-2"):
                        fail("create_dag::redefinition-error-order-dependent",
                             f"script assigning {stmts[0][0]} twice, written order [{show(perm)}]: create_dag -> {kind} "
                             f"{val} (contract: SemanticError 1-2-2 whatever the order)",
                             {"script": show(perm), "outcome": [kind, val]})

    # RICH family (checks/_dagscripts.rich_scripts): joins with aliases, UDO calls, membership, calc clauses with scalars,
    # with deliberate NAME COLLISIONS (a join alias equal to a dataset produced by another statement, ...); all orders
    rich_data = G.rich_data()
    stats["rich_scripts"] = 0
    for idx, (_tags, stmts) in enumerate(G.rich_scripts()):
        # scripts whose join alias is the name of an INPUT dataset read by another statement report under their own
        # obligations (the Interpreter registers join aliases for the rest of the script: a defect of its own)
        sfx = "::join-alias-equal-to-input-dataset" if "alias-shadows-input" in _tags else ""
        stats["scripts"] += 1
        stats["rich_scripts"] += 1
        stats["acyclic"] += 1
        distinct.add(show(stmts))
        want_deps = {s[0]: sorted(G.reads(s)) for s in stmts}
        sem0 = run0 = None
        do_run = idx % (2 if thorough else 5) == 0
        for pi, perm in enumerate(perms(stmts)):
            stats["permutations"] += 1
            kind, val = dag_outcome(perm)
            if kind != "ok":
                fail("create_dag::valid-script-rejected", f"acyclic script [{show(perm)}]: create_dag raised {val}",
                     {"script": show(perm), "outcome": [kind, val]})
                continue
            if sorted(val) != sorted(G.outputs(stmts)) or not G.topological_ok(val, stmts):
                fail("create_dag::not-topological", f"written order [{show(perm)}]: sorted statements {val} do not put "
                     "every producer before its consumers (or lose/duplicate a statement)",
                     {"script": show(perm), "sorted": val})
            dk, dv = dep_records(perm)
            if dk != "ok" or dv != want_deps:
                bad = sorted(k for k in want_deps if dk != "ok" or dv.get(k) != want_deps[k])
                fail("create_dag::dependency-records", f"written order [{show(perm)}]: the analyzer records the inputs "
                     f"{dv.get(bad[0]) if dk == 'ok' else dv} for statement {bad[0]}, which reads {want_deps[bad[0]]}",
                     {"script": show(perm), "statement": bad[0], "recorded": dv if dk != "ok" else dv.get(bad[0]),
                      "reads": want_deps[bad[0]]})
            if pi >= 6 and not thorough:
                continue
            s = sem_outcome(perm)
            if sem0 is None:
                sem0, first = s, perm
            elif s != sem0:
                fail("semantic_analysis::order-dependent" + sfx, f"semantic_analysis differs between written orders "
                     f"[{show(first)}] -> {sem0[0]} {str(sem0[1])[:80]} and [{show(perm)}] -> {s[0]} {str(s[1])[:80]}",
                     {"order_1": show(first), "result_1": str(sem0)[:300], "order_2": show(perm), "result_2": str(s)[:300]})
            if do_run and pi < run_orders:
                r = run_outcome(perm, {k: v for k, v in rich_data.items() if k in G.global_inputs(stmts)})
                stats["run_compared"] += 1
                if run0 is None:
                    run0 = r
                elif r != run0:
                    fail("run::order-dependent" + sfx, f"run() differs between written orders [{show(first)}] and "
                         f"[{show(perm)}]: {str(run0)[:120]} vs {str(r)[:120]}",
                         {"order_1": show(first), "order_2": show(perm), "result_1": str(run0)[:300], "result_2": str(r)[:300]})

    clauses = {
        "create_dag::dependency-records": "RICH family (joins with aliases colliding with dataset names, UDO calls, "
                                          "membership, calc clauses reading scalars): the inputs recorded for every "
                                          "statement are exactly the datasets / scalars it reads (known by construction), "
                                          "for every written order",
        "create_dag::cycle-not-rejected": "a cyclic script raises SemanticError 1-3-2-3 for every written order",
        "create_dag::valid-script-rejected": "an acyclic single-assignment script is accepted for every written order",
        "create_dag::not-topological": "the sorted statements are a permutation of the script with every producer before "
                                       "its consumers, for every written order",
        "create_dag::redefinition-error-order-dependent": "a script assigning a name twice raises SemanticError 1-2-2 for "
                                                          "every written order",
        "semantic_analysis::order-dependent": "semantic_analysis() reports the same structures for every written order",
        "run::order-dependent": "run() returns the same results for every written order",
        "semantic_analysis::order-dependent::join-alias-equal-to-input-dataset":
            "semantic_analysis() reports the same structures for every written order of a script in which a join alias "
            "is spelled like an input dataset that another statement reads (an alias is local to its join)",
        "run::order-dependent::join-alias-equal-to-input-dataset":
            "run() returns the same results for every written order of a script in which a join alias is spelled like an "
            "input dataset that another statement reads",
    }
    fn_of = {"create_dag": "src/vtlengine/AST/DAG/__init__.py:DAGAnalyzer.create_dag",
             "semantic_analysis": "src/vtlengine/API/__init__.py:semantic_analysis",
             "run": "src/vtlengine/API/__init__.py:run"}
    for key, clause in clauses.items():
        f = fn_of[key.split("::")[0]]
        chk.under_contract(f, "bounded")
        ob = chk.ob(f"{f}::{key.split('::', 1)[1]}", f, clause, bounded=True)
        ob.backend = "bounded-enumeration-real-code"
        if key in fails:
            ob.status, (ob.detail, ob.witness) = REFUTED, fails[key]
            ob.replayed, ob.replay_detail = True, "observed on the real code of this tree: " + ob.detail
            ob.finding_key = key
        else:
            ob.status = BOUNDED_OK
            ob.detail = f"{stats['scripts']} scripts, {stats['permutations']} permutations"
    chk.extra.update(stats)
    chk.extra["bounds"] = {"plans(n_statements, n_inputs, scalar_clauses, sample_cap)": plans,
                           "permutations": "all (sampled to 120 per script beyond 5 statements)"}
    chk.extra["evaluations"] = stats["permutations"]
    chk.extra["distinct_nontrivial"] = len(distinct)
    chk.extra["rule"] = "scripts enumerated by statement count / read sets (distinct by rendered text); non-trivial = at " \
                        "least 2 statements with a dependency or conflict"
    chk.extra["extraction_drops"] = P.EXTRACTION_DROPS
    chk.samples = sorted(distinct)[:3] + [v[1] for v in fails.values()][:3]
    chk.assume("BOUNDED tier (the six create_dag / semantic_analysis / run obligations marked bounded): nothing is shown "
               "by it for scripts beyond the enumerated shapes (statements are assignments of "
               "sums / filter clauses / scalar constants, plus the RICH family of _dagscripts.rich_scripts: joins with aliases "
               "colliding with dataset names, UDO calls, membership, calc clauses reading scalars; no rulesets, no join "
               "bodies, no nested UDOs).  It is the only tier that exercises "
               "semantic_analysis() / run() end to end, the unknown-variable promotion of visit_Start and WHICH names the "
               "collectors extract from an expression")
    chk.notes.append("scripts that are BOTH redefining and cyclic under one choice of the producer are excluded from the "
                     "bounded redefinition family on purpose (the property does not say which of the two errors they must "
                     "get); that their error DEPENDS ON THE WRITTEN ORDER is reported by the deductive obligation "
                     "create_dag::load_edges-precondition-unique-producers (known finding), consistently with that exclusion")
    chk.assume("text->AST is not exercised (parser absent); ASTs are hand-built the way ASTConstructor builds them")
    chk.finish()


if __name__ == "__main__":
    core.main_guard("C12", main)
