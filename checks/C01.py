"""C01 — bounded stand-in (NOT a proof): the elementwise program family of checks/_programs.py is executed on the real engine
(API.run of the working tree, text->AST prologue removed mechanically) over fixed small tables and every result is
compared, as a keyed set of datapoints, with the reference semantics of spec/vtlref.py."""
import sys
from pathlib import Path
sys.path.insert(0, str(Path(__file__).resolve().parent))
import _e2echeck  # noqa: E402
from vc import core  # noqa: E402

if __name__ == "__main__":
    core.main_guard("C01", lambda: _e2echeck.run_family(
        "C01", "elementwise",
        "postcondition 'result = VTL denotation' checked on a bounded enumeration of programs x fixed tables on the real "
        "engine and the real DuckDB (bounded stand-in)",
        "src/vtlengine/duckdb_transpiler/Transpiler/__init__.py:SQLTranspiler.visit_BinOp/_build_ds_ds_binary/_apply_measures",
        {"family": "elementwise", "tables": "see checks/_programs.py", "depth": "quick: <= 2 (sampled 3 in thorough)"}))
