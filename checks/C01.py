"""C01 — element-wise operators compute the VTL-defined result for every datapoint.

Two tiers, one evidence file:
  * PROOF tier (checks/_c01_main.py, run in its own process next to the bounded tier): contracts on the scalar SQL templates
    the real transpiler uses - every in-scope entry of the real operator registry (token x arity x typed override), the
    template helpers (_between_expr, _bool_to_str, _scalar_if_sql, _build_case_when_sql) and the scalar paths of
    visit_BinOp / visit_UnaryOp / visit_ParamOp / visit_MulOp_between - evaluated over nullable symbolic operands and
    discharged by z3 / cvc5 for ALL operand values against the VTL specification functions (value, NULL, runtime error);
    plus row-level contracts on the SELECT the real pipeline emits for small dataset programs (identifier pass-through,
    measure = template of that row's operands, INNER JOIN exactly on the common identifiers, dataset if-then-else keeps a
    datapoint iff the selected operand has a partner).  Counter-models are replayed in the real DuckDB.
  * BOUNDED tier (checks/_e2echeck.py / _programs.py, unchanged): the elementwise program family executed on the real engine
    (API.run minus the text->AST prologue) over fixed small tables and compared with spec/vtlref.py.  Never counted as proved.
"""
import json
import os
import subprocess
import sys
import tempfile
import time
from pathlib import Path

sys.path.insert(0, str(Path(__file__).resolve().parent))
import _e2echeck  # noqa: E402
from _c01_main import TECHNIQUE  # noqa: E402
from vc import core  # noqa: E402
from vc.core import Obligation  # noqa: E402

MIN_PROOF_OBLIGATIONS = 150


def main() -> None:
    t0 = time.time()
    fd, out = tempfile.mkstemp(prefix="c01_proof_", suffix=".json")
    os.close(fd)
    proc = subprocess.Popen([sys.executable, str(Path(__file__).resolve().parent / "_c01_main.py"), "--out", out],
                            stdout=subprocess.PIPE, stderr=subprocess.STDOUT, text=True)

    def attach(chk, _stats) -> None:
        try:
            log, _ = proc.communicate(timeout=1500)
        except subprocess.TimeoutExpired:
            proc.kill()
            log = "timeout"
        chk.t0 = t0
        chk.level = "proof"
        chk.technique = TECHNIQUE
        try:
            payload = json.loads(Path(out).read_text() or "{}")
        except (OSError, ValueError):
            payload = {}
        finally:
            try:
                os.unlink(out)
            except OSError:
                pass
        if not payload:
            chk.fault(f"proof tier produced no result (exit {proc.returncode}): {str(log)[-400:]}")
            return
        proof = [Obligation(**d) for d in payload["obligations"]]
        chk.obs = proof + chk.obs            # proof obligations first, the bounded family after them
        for a in payload["assumptions"]:
            chk.assume(a)
        for t in payload["trusted"]:
            chk.trust(t)
        chk.functions.update(payload["functions"])
        for f in payload["faults"]:
            chk.fault(f)
        chk.extra.update(payload["extra"])
        n_proof = len([o for o in proof if not o.bounded])
        chk.extra["proof_obligations"] = n_proof
        chk.samples = [o.to_json() for o in proof if o.status == core.REFUTED][:2] + [o.to_json() for o in proof[:3]] + chk.samples
        if n_proof < MIN_PROOF_OBLIGATIONS:
            chk.fault(f"only {n_proof} proof obligations generated, floor is {MIN_PROOF_OBLIGATIONS} (vacuity guard)")
        chk.notes.append("proof tier = value layer of every in-scope registry entry / helper / visitor scalar path + row-level "
                         "contracts for the listed small dataset programs; the dataset layer as a whole (arbitrary nesting, "
                         "clauses, measure renaming through nested expressions) stays with the bounded tier")

    _e2echeck.run_family(
        "C01", "elementwise", TECHNIQUE,
        "src/vtlengine/duckdb_transpiler/Transpiler/__init__.py:SQLTranspiler.visit_BinOp/_build_ds_ds_binary/_apply_measures",
        {"family": "elementwise", "tables": "see checks/_programs.py", "depth": "quick: <= 2 (sampled 3 in thorough)"},
        post_hook=attach)


if __name__ == "__main__":
    core.main_guard("C01", main)
