"""Bounded tier of C18 (labelled `bounded`, never counted as proved): the property's own space through the REAL loaders.

  cells       value pools per type (valid / boundary / invalid) x role / nullability, one cell per table, written as CSV,
              DataFrame(str) and Parquet(str)
  typed       native values (int64 / float64 / bool / datetime64 / date) as DataFrame, typed Parquet and the CSV that
              DataFrame.to_csv writes for the same frame
  tables      generated multi-row tables over all eight types (valid values, NULLs, one tricky cell injected)
  structure   duplicate keys, NULL identifier, missing columns, reordered columns, datasets without identifiers
  e2e         DS_r <- DS_1;  and  DS_r <- DS_1 + DS_1;  through API.run (vc.pipeline) with the datapoints given as CSV path,
              DataFrame and Parquet path
Every comparison is between two forms of the SAME table; the verdict is `same outcome` = both rejected with a VTL input
error (a raw non-VTL exception is itself a difference) or both accepted with the same set of datapoints.
"""
from __future__ import annotations

import datetime
import random
from typing import Any, Dict, List, Optional, Sequence, Tuple

import _c18_native as N
from vc.core import BOUNDED_OK, REFUTED, Check

IO = "src/vtlengine/duckdb_transpiler/io/_io.py"
EXE = "src/vtlengine/duckdb_transpiler/io/_execution.py"
X = "X_1"
VARIANTS = [("Measure", True), ("Measure", False), ("Identifier", False)]

POOL: Dict[str, List[str]] = {
    "Integer": ["0", "42", "-7", "007", "1.5", "2.5", "-0.5", "1.0", "2.50", "0x1F", "0b11", "1e3", "1e-1", "1_000", " 5", "5 ", "+5",
                "abc", "1,5", "--1", "1.", ".5", "9007199254740993", "9223372036854775807", "9223372036854775808", "NaN", "inf",
                "12a", "3.0000000001", "TRUE", '"7"', ""],
    "Number": ["0", "3.14", "1e5", "42", "-0.5", "0x1F", "abc", "1,5", "NaN", "inf", "-inf", "1.2.3", "1e", ".5", "5.", " 5.5", "+1.5",
               "1_0.5", "1e400", "--1", "12a", "1e-3", "0.1234567890123", "123456789012345678.5", "true", '"1.5"', ""],
    "Boolean": ["true", "false", "TRUE", "False", "1", "0", "yes", "no", "t", "f", "y", "n", "T", "F", "on", "off", "maybe", "2", "-1",
                "1.0", " true", "true ", "tru", '"true"', '"TRUE"', '"0"', '""', "null", ""],
    "String": ["abc", 'a"b', '"abc"', '""', '"', " pad ", "a,b", "line\nbreak", "x'y", "NULL", "null", "NA", "1.5", "true",
               "äöü €", "tab\there", ""],
    "Date": ["2020-01-15", "2020-1-5", "2020-01-15 10:30:00", "2020-01-15T10:30:00", "2020-1-5 10:30:00", "2020-01-15T00:00:00",
             "2020-01-15T10:30:00Z", "2020-01-15T10:30:00+02:00", "2020-01-15T10:30:00.123456", "2020-01-15T10:30:00.123456789",
             "1700-01-01", "0900-01-01", "9999-12-31", "2020-02-30", "2020-01-15T25:00:00", "2020-01-15 10:30", "20200115",
             "2020/01/15", " 2020-01-15", "2020-01-15 ", "15-01-2020", '"2020-01-15"', ""],
    "Time_Period": ["2020", "2020A", "2020-A1", "2020-A", "2020S1", "2020-S2", "2020Q1", "2020-Q4", "2020M1", "2020M01", "2020M12",
                    "2020-01", "2020-1", "2020-M01", "2020-M1", "2020W1", "2020W01", "2020W53", "2020-W01", "2020-W1", "2020D1",
                    "2020D01", "2020D001", "2020D366", "2020-D001", "2020-D1", "2020-01-15", "2020q1", " 2020Q1", "2020Q1 ", "2020Q5",
                    "2020-13", "2020M13", "2021W53", "2021D366", "abcd", '"2020Q1"', ""],
    "Time": ["2020-01-01/2020-12-31", "2020", "2020-01", "2020-12-31/2020-01-01", "2020-01-01T00:00:00/2020-12-31T00:00:00",
             " 2020-01-01/2020-12-31", "2020-02-30/2020-03-01", "x/y", '"2020-01-01/2020-12-31"', ""],
    "Duration": ["A", "S", "Q", "M", "W", "D", "a", " A", "A ", "X", "AA", '"A"', ""],
}
VALID: Dict[str, List[str]] = {
    "Integer": ["0", "42", "-7", "123456789"], "Number": ["0", "3.14", "-0.5", "42", "1e3"],
    "Boolean": ["true", "false", "1", "0", "TRUE"], "String": ["abc", " pad ", "a,b", "line\nbreak", "x'y", "NA", "äöü"],
    "Date": ["2020-01-15", "2021-12-31", "1999-02-28"], "Time_Period": ["2020", "2020Q1", "2020-M01", "2020W53", "2020-01-15", "2020S2"],
    "Time": ["2020-01-01/2020-12-31", "2021-01-01/2021-06-30"], "Duration": ["A", "M", "D"],
}
DT0 = datetime.datetime
TYPED: Dict[str, List[Tuple[str, List[Any]]]] = {
    "Integer": [("int64", [0, 42, -7, 2 ** 53 + 1, 2 ** 63 - 1]), ("float64", [1.0, 1.5, 2.5, -0.5, 1e3, 3.0000000001, 1e19])],
    "Number": [("float64", [3.14, 1e5, 0.1 + 0.2, 1e-7, 123456789.12345679, 1e30]), ("int64", [42, 2 ** 53 + 1])],
    # float columns for Boolean and bool columns for String are left out: what text "the same content" has in a CSV file
    # (1.0 / True as pandas writes them, or 1 / true) is not said anywhere - unspecified
    "Boolean": [("bool", [True, False]), ("int64", [1, 0, 2, -1])],
    "Date": [("datetime", [DT0(2020, 1, 15), DT0(2020, 1, 15, 10, 30), DT0(1700, 1, 1), DT0(2020, 1, 15, 0, 0, 0, 500000)]),
             ("date", [datetime.date(2020, 1, 15), datetime.date(9999, 12, 31)])],
    "String": [("int64", [42, -7]), ("float64", [1.5, 2.0])],
}
TYPE_ORDER = ("Integer", "Number", "Boolean", "String", "Date", "Time_Period", "Time", "Duration")


def cell_spec(tname: str, role: str, nullable: bool) -> List[N.CompSpec]:
    return [("Id_1", "String", "Identifier", False), (X, tname, role, nullable)]


# --------------------------------------------------------------------------------------------------------------------
# job generation
# --------------------------------------------------------------------------------------------------------------------
def gen_cells() -> Tuple[List[Dict[str, Any]], List[Any]]:
    jobs, meta = [], []
    for t in TYPE_ORDER:
        for role, nl in VARIANTS:
            for v in POOL[t] + [None]:
                forms = ("df", "parquet") if v == "" else N.STRING_FORMS
                for f in forms:
                    jobs.append({"form": f, "spec": cell_spec(t, role, nl), "rows": [{"Id_1": "k", X: v}]})
                meta.append(("cell", t, role, nl, v, forms, None))
    return jobs, meta


def gen_typed() -> Tuple[List[Dict[str, Any]], List[Any]]:
    jobs, meta = [], []
    forms = ("csv-of-native", "df-native", "parquet-typed")
    for t, groups in TYPED.items():
        for dtype, vals in groups:
            for role, nl in VARIANTS[:2]:
                for v in list(vals) + [None]:
                    for f in forms:
                        jobs.append({"form": f, "spec": cell_spec(t, role, nl), "rows": [{"Id_1": "k", X: v}, {"Id_1": "m", X: vals[0]}],
                                     "dtypes": {X: dtype}})
                    meta.append(("typed", t, role, nl, v, forms, dtype))
    return jobs, meta


TABLE_SPEC: List[N.CompSpec] = [("Id_1", "Integer", "Identifier", False)] + \
    [(f"Me_{t}", t, "Measure", True) for t in TYPE_ORDER]


def gen_table(rnd: random.Random, inject: bool) -> Tuple[List[Dict[str, Any]], Optional[Tuple[str, str]]]:
    rows = []
    for i in range(rnd.randint(2, 6)):
        r: Dict[str, Any] = {"Id_1": str(i + 1)}
        for t in TYPE_ORDER:
            r[f"Me_{t}"] = None if rnd.random() < 0.15 else rnd.choice(VALID[t])
        rows.append(r)
    inj = None
    if inject:
        t = rnd.choice(TYPE_ORDER)
        v = rnd.choice([x for x in POOL[t] if x != ""])
        rnd.choice(rows)[f"Me_{t}"] = v
        inj = (t, v)
    return rows, inj


def gen_tables(rnd: random.Random, k: int) -> Tuple[List[Dict[str, Any]], List[Any]]:
    jobs, meta = [], []
    for i in range(k):
        rows, inj = gen_table(rnd, inject=(i % 3 != 0))
        if rnd.random() < 0.3:
            rnd.shuffle(rows)
        cols = [c[0] for c in TABLE_SPEC]
        if rnd.random() < 0.3:
            cols = cols[::-1]
        for f in N.STRING_FORMS:
            jobs.append({"form": f, "spec": TABLE_SPEC, "rows": rows, "columns": cols})
        meta.append(("table", inj[0] if inj else None, None, None, inj[1] if inj else None, N.STRING_FORMS, rows))
    return jobs, meta


def structural_cases(tname: str) -> List[Tuple[str, List[N.CompSpec], List[Dict[str, Any]], Optional[List[str]]]]:
    a, b = (VALID[tname] + VALID[tname])[:2]
    spec: List[N.CompSpec] = [("Id_1", tname, "Identifier", False), ("Id_2", "Integer", "Identifier", False),
                              ("Me_1", "Number", "Measure", True), ("Me_2", tname, "Measure", False)]
    base = [{"Id_1": a, "Id_2": "1", "Me_1": "1", "Me_2": a}, {"Id_1": b, "Id_2": "1", "Me_1": None, "Me_2": b},
            {"Id_1": a, "Id_2": "2", "Me_1": "3", "Me_2": b}]
    dwi: List[N.CompSpec] = [("Me_1", tname, "Measure", True)]
    out = [("valid-table", spec, base, None),
           ("duplicate-key", spec, base + [dict(base[0], Me_1="9")], None),
           ("null-identifier", spec, base + [{"Id_1": None, "Id_2": "3", "Me_1": "1", "Me_2": a}], None),
           ("null-in-non-nullable", spec, base + [{"Id_1": b, "Id_2": "3", "Me_1": "1", "Me_2": None}], None),
           ("missing-identifier-column", spec, base, ["Id_2", "Me_1", "Me_2"]),
           ("missing-non-nullable-column", spec, base, ["Id_1", "Id_2", "Me_1"]),
           ("missing-nullable-column", spec, base, ["Id_1", "Id_2", "Me_2"]),
           ("columns-reordered", spec, base, ["Me_2", "Me_1", "Id_2", "Id_1"]),
           ("extra-column", spec, [dict(r, Zz="q") for r in base], ["Id_1", "Id_2", "Me_1", "Me_2", "Zz"]),
           ("no-identifiers-one-row", dwi, [{"Me_1": a}], None),
           ("no-identifiers-two-rows", dwi, [{"Me_1": a}, {"Me_1": b}], None),
           ("empty-table", spec, [], None)]
    if tname == "Time_Period":
        out.append(("duplicate-key-in-two-spellings", spec, [{"Id_1": "2020Q1", "Id_2": "1", "Me_1": "1", "Me_2": a},
                                                            {"Id_1": "2020-Q1", "Id_2": "1", "Me_1": "2", "Me_2": a}], None))
    return out


def gen_structure() -> Tuple[List[Dict[str, Any]], List[Any]]:
    jobs, meta = [], []
    for t in TYPE_ORDER:
        for case, spec, rows, cols in structural_cases(t):
            for f in N.STRING_FORMS:
                j = {"form": f, "spec": spec, "rows": rows}
                if cols:
                    j["columns"] = cols
                jobs.append(j)
            meta.append(("structure", t, None, None, case, N.STRING_FORMS, None))
    return jobs, meta


def gen_e2e(rnd: random.Random, k: int) -> Tuple[List[Dict[str, Any]], List[Any]]:
    jobs, meta = [], []
    num_spec = [c for c in TABLE_SPEC if c[1] in ("Integer", "Number")]
    for i in range(k):
        rows, _ = gen_table(rnd, inject=False)
        special = None
        if i % 4 == 1:
            rows[0]["Me_Date"] = "2020-01-15T10:30:00"
            special = ("Date", "2020-01-15T10:30:00")
        if i % 4 == 2:
            rows[0]["Me_Date"] = "2020-03-01 00:00:00"
        for prog, spec in (("copy", TABLE_SPEC), ("add", num_spec)):
            cols = [c[0] for c in spec]
            for f in N.STRING_FORMS:
                jobs.append({"form": f, "spec": spec, "rows": [{c: r.get(c) for c in cols} for r in rows], "columns": cols, "program": prog})
            meta.append(("e2e", special[0] if special and prog == "copy" else None, None, None,
                         special[1] if special and prog == "copy" else None, N.STRING_FORMS, prog))
    return jobs, meta


def submit_all(pool: Any, tier: str, rnd: random.Random) -> Dict[str, Any]:
    q = tier == "quick"
    sub = random.Random(rnd.random())
    parts = {"cells": gen_cells(), "typed": gen_typed(), "tables": gen_tables(sub, 45 if q else 300),
             "structure": gen_structure()}
    out: Dict[str, Any] = {}
    for name, (jobs, meta) in parts.items():
        out[name] = (pool.map(N.load_job, jobs, chunksize=6), meta, len(jobs))
    jobs, meta = gen_e2e(sub, 8 if q else 40)
    out["e2e"] = (pool.map(N.e2e_job, jobs, chunksize=2), meta, len(jobs))
    return out


# --------------------------------------------------------------------------------------------------------------------
# verdicts
# --------------------------------------------------------------------------------------------------------------------
def pair_name(fa: str, fb: str) -> str:
    n = {"csv-of-native": "csv"}
    return f"{n.get(fa, fa)}-vs-{n.get(fb, fb)}"


def report(chk: Check, fn: str, oid: str, clause: str, bad: Dict[str, Tuple[Any, str]], known: Dict[str, Any], n: int) -> None:
    classes = chk.extra.setdefault("difference_classes_bounded_tier", {})
    for k, (w, what) in sorted(bad.items()):
        classes.setdefault(k, {"listed_as_known": k in known, "first_seen_in": oid, "example": what[:400]})
    for k, (w, what) in sorted(bad.items()):
        if k in known and not any(o.finding_key == k for o in chk.obs):
            o = chk.ob(f"{fn}::{oid}::known::{k}", fn, clause, bounded=True)
            o.status, o.finding_key, o.replayed, o.witness = REFUTED, k, True, w
            o.replay_detail, o.backend = what, "bounded-native"
    new = {k: v for k, v in bad.items() if k not in known}
    ob = chk.ob(f"{fn}::{oid}", fn, clause, bounded=True)
    ob.backend = "bounded-native"
    if not new:
        ob.status = BOUNDED_OK
        ob.detail = f"{n} comparisons" + (f"; classes listed as known findings: {sorted(k for k in bad if k in known)}" if bad else "")
        return
    k, (w, what) = sorted(new.items())[0]
    ob.status, ob.finding_key, ob.witness, ob.replayed = REFUTED, k, w, True
    ob.replay_detail = what
    ob.detail = f"{len(new)} new class(es) of differences among {n} comparisons: {sorted(new)[:6]}"


def collect_all(chk: Check, fut: Dict[str, Any], known: Dict[str, Any]) -> None:  # noqa: C901
    loads = 0
    # ---- cells + typed ------------------------------------------------------------------------------------------------
    for part in ("cells", "typed"):
        it, meta, njobs = fut[part]
        outs = list(it)
        loads += njobs
        pos = 0
        per: Dict[Tuple[str, str], Dict[str, Tuple[Any, str]]] = {}
        cnt: Dict[Tuple[str, str], int] = {}
        for kind, t, role, nl, v, forms, dtype in meta:
            o = dict(zip(forms, outs[pos:pos + len(forms)]))
            pos += len(forms)
            if v == "" and part == "cells":
                # not a verdict: what the DataFrame form does with '' (the CSV form of this table does not exist)
                chk.extra.setdefault("unspecified_empty_string_cell", {})[f"{t}/{role}/{'nullable' if nl else 'not-null'}"] = \
                    "DataFrame: " + N.show(o["df"])[:90]
            pairs = [(forms[i], forms[i + 1]) for i in range(len(forms) - 1)]
            for fa, fb in pairs:
                pn = pair_name(fa, fb)
                cnt[(t, pn)] = cnt.get((t, pn), 0) + 1
                if N.same_outcome(o[fa], o[fb]):
                    continue
                cls = N.classify(t, v, o[fa], o[fb], fa, fb)
                key = f"{t}::{pn}::{cls}"
                w = {"cell": v if not isinstance(v, (datetime.date, datetime.datetime)) else v.isoformat(), "type": t, "role": role,
                     "nullable": nl, "forms": [fa, fb]}
                if dtype:
                    w["column_dtype"] = dtype
                per.setdefault((t, pn), {}).setdefault(key, (w, f"real loaders on the cell {v!r}"
                                                             + (f" ({dtype} column)" if dtype else "") + f": {fa}: {N.show(o[fa])}; {fb}: {N.show(o[fb])}"))
        for (t, pn), n in sorted(cnt.items()):
            fa, fb = pn.split("-vs-")
            fn = f"{IO}:{'load_datapoints_duckdb' if fa == 'csv' else '_load_parquet' if 'parquet' in fb else 'register_dataframes'}"
            what = ("value pool (valid, boundary and invalid texts; NULL; '' for DataFrame/Parquet only)" if part == "cells" else
                    "native values (int64 / float64 / bool / datetime64 / date columns) and the CSV DataFrame.to_csv writes for them")
            report(chk, fn, f"bounded::{part}::{t}::{pn}", f"[{t}] {what} x role / nullability through the real loaders: the forms "
                   f"{fa} and {fb} of the same one-cell table have the same outcome", per.get((t, pn), {}), known, n)
    # ---- tables -----------------------------------------------------------------------------------------------------------
    it, meta, njobs = fut["tables"]
    outs = list(it)
    loads += njobs
    bad: Dict[str, Dict[str, Tuple[Any, str]]] = {"csv-vs-df": {}, "df-vs-parquet": {}}
    ncmp = 0
    for i, (kind, t, _r, _n, v, forms, rows) in enumerate(meta):
        o = dict(zip(forms, outs[3 * i:3 * i + 3]))
        for fa, fb in (("csv", "df"), ("df", "parquet")):
            ncmp += 1
            if N.same_outcome(o[fa], o[fb]):
                continue
            cls = N.classify(t, v, o[fa], o[fb], fa, fb) if t else "unexplained-difference-on-a-table-of-valid-values"
            key = f"{t or 'table'}::{fa}-vs-{fb}::{cls}"
            bad[f"{fa}-vs-{fb}"].setdefault(key, ({"table": rows, "injected_cell": [t, v], "forms": [fa, fb]},
                                                  f"real loaders on the generated table (tricky cell {t} {v!r}): {fa}: {N.show(o[fa])}; "
                                                  f"{fb}: {N.show(o[fb])}"))
    for pn, b in bad.items():
        fn = f"{IO}:{'load_datapoints_duckdb' if pn.startswith('csv') else '_load_parquet'}"
        report(chk, fn, f"bounded::tables::{pn}", f"generated tables over all eight component types (valid values, NULLs, shuffled rows "
               f"/ columns, one boundary or invalid cell injected in two of three): the forms {pn.replace('-vs-', ' and ')} have the same "
               "outcome and the same set of stored datapoints", b, known, ncmp // 2)
    # ---- structure ------------------------------------------------------------------------------------------------------
    it, meta, njobs = fut["structure"]
    outs = list(it)
    loads += njobs
    sbad: Dict[str, Tuple[Any, str]] = {}
    for i, (kind, t, _r, _n, case, forms, _x) in enumerate(meta):
        o = dict(zip(forms, outs[3 * i:3 * i + 3]))
        for fa, fb in (("csv", "df"), ("df", "parquet")):
            if not N.same_outcome(o[fa], o[fb]):
                sbad.setdefault(f"structure::{fa}-vs-{fb}::{case}", ({"case": case, "identifier_type": t, "forms": [fa, fb]},
                                                                     f"real loaders, {case} with a {t} identifier: {fa}: {N.show(o[fa])}; {fb}: {N.show(o[fb])}"))
    report(chk, f"{IO}:_validate_loaded_table", "bounded::structure", "structural cases (valid table, duplicate key, NULL identifier, "
           "NULL in a non-nullable measure, missing identifier / non-nullable / nullable column, reordered and extra columns, "
           "dataset without identifiers with 1 and 2 rows, empty table) for every identifier type: same outcome in every form",
           sbad, known, len(meta) * 2)
    # ---- e2e ------------------------------------------------------------------------------------------------------------
    it, meta, njobs = fut["e2e"]
    outs = list(it)
    ebad: Dict[str, Tuple[Any, str]] = {}
    for i, (kind, t, _r, _n, v, forms, prog) in enumerate(meta):
        o = dict(zip(forms, outs[3 * i:3 * i + 3]))
        for fa, fb in (("csv", "df"), ("df", "parquet")):
            if N.same_outcome(o[fa], o[fb]):
                continue
            cls = N.classify(t, v, o[fa], o[fb], fa, fb) if t else f"run-result-differs::{prog}"
            ebad.setdefault(f"{t or 'run'}::{fa}-vs-{fb}::{cls}", ({"program": prog, "forms": [fa, fb], "special_cell": [t, v]},
                                                                  f"API.run ({'DS_r <- DS_1' if prog == 'copy' else 'DS_r <- DS_1 + DS_1'}): "
                                                                  f"{fa}: {N.show(o[fa])}; {fb}: {N.show(o[fb])}"))
    report(chk, f"{EXE}:load_scheduled_datasets", "bounded::e2e", "DS_r <- DS_1; and DS_r <- DS_1 + DS_1; through API.run below the "
           "parser with the datapoints given as CSV path, DataFrame and Parquet path: same result datapoints (values as denoted)",
           ebad, known, len(meta) * 2)
    chk.extra["native_loads"] = loads
    chk.extra["native_runs"] = njobs


# --------------------------------------------------------------------------------------------------------------------
# batteries used by the proof tier when two programs are not textually identical (replay for a refuted identity)
# --------------------------------------------------------------------------------------------------------------------
def cell_battery(tname: str, role: str, nullable: bool, fa: str, fb: str, known: Dict[str, Any]) -> Optional[Tuple[Any, str, str]]:
    for v in POOL[tname] + [None]:
        if v == "" and "csv" in (fa, fb):
            continue
        oa = N.load_job({"form": fa, "spec": cell_spec(tname, role, nullable), "rows": [{"Id_1": "k", X: v}]})
        ob = N.load_job({"form": fb, "spec": cell_spec(tname, role, nullable), "rows": [{"Id_1": "k", X: v}]})
        if not N.same_outcome(oa, ob):
            key = f"{tname}::{fa}-vs-{fb}::{N.classify(tname, v, oa, ob, fa, fb)}"
            if key not in known:
                return ({"cell": v, "forms": [fa, fb], "type": tname}, f"real loaders on the cell {v!r}: {fa}: {N.show(oa)}; {fb}: {N.show(ob)}", key)
    return None


def typed_battery(tname: str, role: str, nullable: bool, src: str, known: Dict[str, Any]) -> Optional[Tuple[Any, str, str]]:
    dt = {"BIGINT": "int64", "DOUBLE": "float64", "BOOLEAN": "bool", "DATE": "date", "TIMESTAMP": "datetime"}[src]
    for dtype, vals in TYPED.get(tname, []):
        if dtype != dt:
            continue
        for v in vals:
            j = {"spec": cell_spec(tname, role, nullable), "rows": [{"Id_1": "k", X: v}], "dtypes": {X: dtype}}
            oa, ob = N.load_job(dict(j, form="df-native")), N.load_job(dict(j, form="parquet-typed"))
            if not N.same_outcome(oa, ob):
                key = f"{tname}::df-native-vs-parquet-typed::{N.classify(tname, v, oa, ob, 'df-native', 'parquet-typed')}"
                if key not in known:
                    return ({"cell": repr(v), "column": src, "type": tname}, f"real loaders on {v!r}: df-native: {N.show(oa)}; parquet-typed: {N.show(ob)}", key)
    return None


def structural_battery(tname: str, role: str, nullable: bool) -> Optional[Tuple[Any, str, str]]:
    for case, spec, rows, cols in structural_cases(tname if tname in VALID else "Integer"):
        o = {}
        for f in N.STRING_FORMS:
            j: Dict[str, Any] = {"form": f, "spec": spec, "rows": rows}
            if cols:
                j["columns"] = cols
            o[f] = N.load_job(j)
        for fa, fb in (("csv", "df"), ("df", "parquet")):
            if not N.same_outcome(o[fa], o[fb]):
                return ({"case": case, "rows": rows, "forms": [fa, fb]}, f"real loaders, {case}: {fa}: {N.show(o[fa])}; {fb}: {N.show(o[fb])}",
                        f"{fa}-vs-{fb}::{case}")
    return None
