"""C13 — dataset load/release schedule is safe and results are selected correctly.

TIER 1 (deductive, checks/_schedproof.py - proof obligations, scripts of ANY size):
  DAGAnalyzer._ds_usage_analysis: one iteration of each of its three real loop bodies from an ARBITRARY loop state
     (vc.pyvc; dicts / sets / lists as SMT arrays), pointwise invariants with ghost values: every global input is in
     exactly one insertion[k], k = its first reader; every name in exactly one deletion[k'], k' = its last reader (its
     producer when unread); persistent / all_outputs / global_inputs as defined.
  load_scheduled_datasets / cleanup_scheduled_datasets: the whole real function for one generic scheduled element;
     execute_queries: one iteration of each of its two loops (harness of checks/C14.py: recording connection).
  Ghost table store: the per-iteration effect summaries extracted from those paths, composed with the schedule
     contract into one statement step for a free name x: the history invariant is preserved, every table read is live at
     CREATE, inputs are loaded at most once, every name is dropped exactly once at its slot, results are fetched before
     their drop and never twice, and the returned keys are the selected assignments (z3 / cvc5).
  Alignment: one iteration of SQLTranspiler.visit_Start's loop (k-th query = k-th assignment) and the dataflow of
     `ast` in run().
  Induction over loops / statements: stated meta-argument.  Preconditions (sorted, single-assignment numbering) from C12.

TIER 2 (BOUNDED, unchanged): contracts on the real functions, checked on an exhaustive bounded enumeration of dependency graphs:

  DAGAnalyzer.ds_structure(ast) -> DatasetSchedule   (after create_dag, as API.run calls it)
  io._execution.execute_queries / load_scheduled_datasets / cleanup_scheduled_datasets
     run against a ghost table store: the REAL executor code is executed with a recording connection and recording
     stand-ins for the loaders and for fetch_result (harness-side patches of the module namespace, no repository
     edit); the resulting event history  load / create / fetch / drop  must satisfy
       (1) when statement k is created, every dataset or scalar it reads is live (loaded or produced, not dropped)
       (2) every global input is loaded at most once
       (3) nothing is dropped twice, nothing is dropped before its last reader ran, and every result that is not
           returned is dropped exactly once
       (4) the returned keys are exactly the persistent assignments (all assignments when return_only_persistent
           is false), each fetched exactly once while live
  API.run (mechanically extracted below the parser) on the real DuckDB, sampled scripts: values equal an independent
  evaluation of the script in dependency order ("each computed from the full script").
Bounds: quick n <= 3 statements exhaustive (2 inputs; scalar-in-clause variants with 1 input), n = 4 sampled; all
persistent/non-persistent mixes of the dataset statements; both return_only_persistent settings.
"""
from __future__ import annotations

import itertools
import random
import re
import sys
from pathlib import Path
from typing import Any, Dict, List, Optional, Sequence, Set, Tuple

sys.path.insert(0, str(Path(__file__).resolve().parent.parent))
sys.path.insert(0, str(Path(__file__).resolve().parent))
import _dagscripts as G  # noqa: E402
from vc import core  # noqa: E402
from vc import pipeline as P  # noqa: E402
from vc.core import BOUNDED_OK, REFUTED, Check  # noqa: E402


class FakeConn:
    def __init__(self, events: List[Tuple[str, str]]) -> None:
        self.events = events

    def execute(self, sql: str, *a: Any, **k: Any) -> "FakeConn":
        m = re.match(r'\s*CREATE TABLE "([^"]+)" AS', sql)
        if m:
            self.events.append(("create", m.group(1)))
            return self
        m = re.match(r'\s*DROP TABLE IF EXISTS "([^"]+)"', sql)
        if m:
            self.events.append(("drop", m.group(1)))
            return self
        self.events.append(("sql", sql[:40]))
        return self


def history(stmts_sorted: Sequence[G.Stmt], ds_analysis: Any, rop: bool) -> Tuple[List[Tuple[str, str]], List[str]]:
    """Run the real execute_queries on a ghost store; returns (events, returned keys)."""
    import importlib
    ex = importlib.import_module("vtlengine.duckdb_transpiler.io._execution")
    events: List[Tuple[str, str]] = []
    saved = {n: getattr(ex, n) for n in ("load_datapoints_duckdb", "register_dataframes", "fetch_result",
                                         "initialize_time_types", "save_scalars_duckdb", "_contains_time_components")}

    def load(conn: Any = None, components: Any = None, dataset_name: str = "", file_path: Any = None, **k: Any) -> None:
        events.append(("load", dataset_name))

    def register(conn: Any, dfs: Dict[str, Any], input_datasets: Any, *a: Any, **k: Any) -> None:
        for n in dfs:
            events.append(("load", n))

    def fetch(conn: Any = None, result_name: str = "", **k: Any) -> Any:
        events.append(("fetch", result_name))
        return ("result", result_name)

    try:
        ex.load_datapoints_duckdb, ex.register_dataframes, ex.fetch_result = load, register, fetch
        ex.initialize_time_types = lambda *a, **k: None
        ex.save_scalars_duckdb = lambda *a, **k: None
        ex._contains_time_components = lambda *a, **k: False
        queries = [(s[0], f"SELECT /* {s[0]} */ 1", s[1]) for s in stmts_sorted]
        gi = G.global_inputs(stmts_sorted)
        import types
        input_datasets = {n: types.SimpleNamespace(components={}) for n in gi}
        res = ex.execute_queries(conn=FakeConn(events), queries=queries, ds_analysis=ds_analysis, path_dict=None,
                                 dataframe_dict={}, input_datasets=input_datasets, output_datasets={}, output_scalars={},
                                 output_folder=None, return_only_persistent=rop)
    finally:
        for n, v in saved.items():
            setattr(ex, n, v)
    return events, list(res.keys())


def check_history(stmts_sorted: Sequence[G.Stmt], events: Sequence[Tuple[str, str]], returned: Sequence[str], rop: bool
                  ) -> Optional[str]:
    prod = {s[0]: s for s in stmts_sorted}
    live: Set[str] = set()
    loaded: Dict[str, int] = {}
    dropped: Dict[str, int] = {}
    fetched: Dict[str, int] = {}
    created: List[str] = []
    for ev, name in events:
        if ev == "load":
            loaded[name] = loaded.get(name, 0) + 1
            if loaded[name] > 1:
                return f"(2) global input {name} loaded {loaded[name]} times"
            live.add(name)
        elif ev == "create":
            missing = sorted(r for r in G.reads(prod[name]) if r not in live)
            if missing:
                return f"(1) statement {name} runs while {missing} is not live (never loaded / already released)"
            live.add(name)
            created.append(name)
        elif ev == "fetch":
            if name not in live:
                return f"(4) result {name} fetched after its release"
            fetched[name] = fetched.get(name, 0) + 1
            if fetched[name] > 1:
                return f"(4) result {name} fetched {fetched[name]} times"
        elif ev == "drop":
            dropped[name] = dropped.get(name, 0) + 1
            if dropped[name] > 1:
                return f"(3) {name} dropped {dropped[name]} times"
            pending = [s[0] for s in stmts_sorted if name in G.reads(s) and s[0] not in created]
            if pending:
                return f"(3) {name} released before its readers {pending} ran"
            live.discard(name)
    want = [s[0] for s in stmts_sorted if s[1] or not rop]
    if sorted(returned) != sorted(want):
        return f"(4) returned keys {sorted(returned)} but the script's {'persistent' if rop else ''} assignments are {sorted(want)}"
    for s in stmts_sorted:
        if s[0] not in want and dropped.get(s[0], 0) != 1:
            return f"(3) intermediate result {s[0]} released {dropped.get(s[0], 0)} times"
    if created != [s[0] for s in stmts_sorted]:
        return f"statements executed as {created}, scheduled as {[s[0] for s in stmts_sorted]}"
    return None


def reference_eval(stmts: Sequence[G.Stmt], data: Dict[str, Any]) -> Dict[str, Any]:
    """Independent evaluation in dependency order (pandas): sum on matching Id_1 (inner join), filter, constants."""
    env: Dict[str, Any] = dict(data)
    todo = list(stmts)
    while todo:
        for s in todo:
            if all(r in env for r in G.reads(s)):
                out, _p, kind, direct, cl = s
                if kind == "scalar":
                    env[out] = len(out) + 1
                elif kind == "expr":
                    cur = env[direct[0]]
                    for r in direct[1:]:
                        m = cur.merge(env[r], on="Id_1", suffixes=("", "_r"))
                        m["Me_1"] = m["Me_1"] + m["Me_1_r"]
                        cur = m[["Id_1", "Me_1"]]
                    env[out] = cur
                else:
                    df = env[direct[0]]
                    mask = df["Me_1"] > env[cl[0]]
                    for c in cl[1:]:
                        mask = mask & (df["Me_1"] < env[c])
                    env[out] = df[mask.fillna(False)]
                todo.remove(s)
                break
        else:
            raise RuntimeError("cyclic")
    return env


def norm(v: Any) -> Any:
    d = getattr(v, "data", v)
    if hasattr(d, "values") and hasattr(d, "columns"):
        dd = d[["Id_1", "Me_1"]]
        return sorted((int(a), None if b != b or b is None else float(b)) for a, b in dd.values.tolist())
    return getattr(v, "value", v)


def main() -> None:  # noqa: C901
    chk = Check("C13", "proof", "loop-step obligations (one iteration of each real loop body of _ds_usage_analysis, "
                "load_scheduled_datasets, cleanup_scheduled_datasets, execute_queries, SQLTranspiler.visit_Start from an "
                "arbitrary state; vc.pyvc with SMT arrays for dicts / sets / lists) with pointwise ghost invariants, and a "
                "ghost-table-store statement step composed from the extracted effect summaries, discharged by z3 / cvc5; "
                "native replay; PLUS the bounded tier: contracts on DAGAnalyzer.ds_structure and the real execute_queries / load / cleanup "
                "code, checked on an exhaustive bounded enumeration of dependency graphs by replaying the real executor "
                "against a ghost table store, plus sampled real DuckDB runs of the extracted API.run against an "
                "independent evaluation", min_obligations=30)
    core.boot(full=True)
    import _schedproof
    _schedproof.run(chk)                   # tier 1: proof obligations (never `bounded`)
    from vtlengine.AST.DAG import DAGAnalyzer
    import pandas as pd
    rng = random.Random(chk.seed)
    thorough = chk.tier == "thorough"
    plans = [(1, 2, False, 0), (2, 2, False, 0), (3, 2, False, 0), (2, 1, True, 0), (3, 1, True, 0 if thorough else 300),
             (4, 2, False, 2500 if thorough else 300)]
    if thorough:
        plans += [(4, 1, True, 800), (5, 3, False, 600)]
    data = {f"DS_{i}": pd.DataFrame({"Id_1": [1, 2, 3], "Me_1": [float(i), 2.0 * i, None]}) for i in (1, 2, 3)}
    stats = {"scripts": 0, "histories": 0, "real_runs": 0}
    fails: Dict[str, Tuple[str, Any]] = {}
    seen = set()
    samples: List[Any] = []
    from C12 import show

    for n, n_in, with_sc, cap in plans:
        for stmts0 in G.shapes(n, n_in, with_sc, rng, cap):
            if G.is_cyclic(stmts0):
                continue
            ds_names = [s[0] for s in stmts0 if s[2] != "scalar"]
            masks = list(itertools.product([False, True], repeat=len(ds_names)))
            if len(masks) > 4:
                masks = [masks[0], masks[-1]] + rng.sample(masks[1:-1], 2)
            for mask in masks:
                pers = dict(zip(ds_names, mask))
                stmts = [(s[0], pers.get(s[0], False), s[2], s[3], s[4]) for s in stmts0]
                if rng.random() < 0.5:
                    stmts = list(reversed(stmts))          # written order is irrelevant to the contract
                stats["scripts"] += 1
                seen.add(show(stmts))
                ast = G.build(stmts)
                try:
                    DAGAnalyzer.create_dag(ast)
                    sched = DAGAnalyzer.ds_structure(ast)
                except Exception as e:  # noqa: BLE001
                    fails.setdefault("ds_structure::raises", (f"[{show(stmts)}]: {type(e).__name__}: {e}", {"script": show(stmts)}))
                    continue
                by_name = {s[0]: s for s in stmts}
                sorted_stmts = [by_name[c.left.value] for c in ast.children]
                for rop in (True, False):
                    stats["histories"] += 1
                    try:
                        events, returned = history(sorted_stmts, sched, rop)
                        problem = check_history(sorted_stmts, events, returned, rop)
                    except Exception as e:  # noqa: BLE001
                        events, problem = [], f"executor raised {type(e).__name__}: {e}"
                    if len(samples) < 2:
                        samples.append({"script": show(sorted_stmts), "return_only_persistent": rop,
                                        "insertion": sched.insertion, "deletion": sched.deletion, "events": events})
                    if problem:
                        key = "execute_queries::" + problem[:3]
                        fails.setdefault(key, (f"[{show(sorted_stmts)}] return_only_persistent={rop}: {problem}; schedule "
                                               f"insertion={sched.insertion} deletion={sched.deletion}",
                                               {"script": show(sorted_stmts), "return_only_persistent": rop, "problem": problem,
                                                "insertion": sched.insertion, "deletion": sched.deletion,
                                                "events": [list(e) for e in events]}))
                # real DuckDB run on a sample
                if stats["scripts"] % (5 if thorough else 25) == 0:
                    run = P.api_from_ast("run")
                    for rop in (True, False):
                        stats["real_runs"] += 1
                        try:
                            res = run(G.build(stmts), G.data_structures(stmts), {k: v.copy() for k, v in data.items()
                                                                                 if k in G.global_inputs(stmts)},
                                      return_only_persistent=rop)
                            got = {k: norm(v) for k, v in res.items()}
                            ref = reference_eval(stmts, data)
                            want = {s[0]: norm(ref[s[0]]) for s in stmts if s[1] or not rop}
                            if got != want:
                                fails.setdefault("run::results", (f"[{show(stmts)}] return_only_persistent={rop}: run() -> "
                                                                  f"{str(got)[:160]}; independent evaluation -> {str(want)[:160]}",
                                                                  {"script": show(stmts), "got": str(got)[:400], "want": str(want)[:400]}))
                        except Exception as e:  # noqa: BLE001
                            fails.setdefault("run::raises", (f"[{show(stmts)}] return_only_persistent={rop}: run() raised "
                                                             f"{type(e).__name__}: {str(e)[:160]}", {"script": show(stmts)}))

    clauses = {
        "execute_queries::(1)": "every statement is created only while all datasets/scalars it reads are live",
        "execute_queries::(2)": "every global input is loaded at most once",
        "execute_queries::(3)": "nothing is dropped twice or before its last reader; every non-returned result is dropped "
                                "exactly once",
        "execute_queries::(4)": "returned keys = persistent assignments (all when return_only_persistent is false), each "
                                "fetched exactly once while live",
        "execute_queries::exe": "the executor completes on the schedule of a valid script",
        "ds_structure::raises": "ds_structure succeeds on every valid script",
        "run::results": "run() values equal an independent evaluation of the full script (sampled, real DuckDB)",
        "run::raises": "run() succeeds on every valid generated script (sampled, real DuckDB)",
    }
    for key, clause in clauses.items():
        f = {"execute_queries": "src/vtlengine/duckdb_transpiler/io/_execution.py:execute_queries",
             "ds_structure": "src/vtlengine/AST/DAG/__init__.py:DAGAnalyzer._ds_usage_analysis",
             "run": "src/vtlengine/API/__init__.py:run"}[key.split("::")[0]]
        chk.under_contract(f, "bounded")
        ob = chk.ob(f"{f}::{key.split('::')[1]}", f, clause, bounded=True)
        ob.backend = "bounded-enumeration-real-code"
        if key in fails:
            ob.status, (ob.detail, ob.witness) = REFUTED, fails[key]
            ob.replayed, ob.replay_detail = True, "observed on the real code of this tree: " + ob.detail
            ob.finding_key = key
        else:
            ob.status, ob.detail = BOUNDED_OK, f"{stats['scripts']} scripts, {stats['histories']} histories"
    chk.extra.update(stats)
    chk.extra["bounds"] = {"plans(n_statements, n_inputs, scalar_clauses, sample_cap)": plans}
    chk.extra["evaluations"] = stats["histories"] + stats["real_runs"]
    chk.extra["distinct_nontrivial"] = len(seen)
    chk.extra["rule"] = "dependency graphs enumerated by statement count / read sets / persistence mix (distinct by " \
                        "rendered script); non-trivial = at least one statement reading another statement's result or " \
                        "two readers of one input"
    chk.extra["extraction_drops"] = P.EXTRACTION_DROPS
    chk.samples = samples + [v[1] for v in fails.values()][:3]
    chk.assume("BOUNDED tier (the obligations marked bounded): nothing is shown by it beyond the enumerated graph shapes; it is "
               "the only tier that runs the real DuckDB ('each computed from the full script') and the real loaders")
    chk.assume("ghost store: loaders / fetch_result are replaced by recording stand-ins (harness-side); the DuckDB catalog "
               "is assumed to behave like the ghost set for CREATE TABLE / DROP TABLE IF EXISTS")
    chk.assume("statement numbering of the transpiler's queries equals the numbering of ds_structure (exercised only "
               "through the sampled real runs)")
    chk.finish()


if __name__ == "__main__":
    core.main_guard("C13", main)
