"""C26 — every coded VTL exception construction uses a catalogued code and fills every placeholder.

Contract (on the four constructors of Exceptions/__init__.py, derived from their bodies:
`centralised_messages[code]["message"].format(**kwargs)`):

    requires  code in keys(centralised_messages)
    requires  roots(placeholders(centralised_messages[code]["message"])) <= keys(kwargs)   (no positional fields)

Each constructor call in src/vtlengine/**.py is one call-site obligation; the code argument is resolved by
value-set propagation inside the enclosing function (constants, conditional expressions, f-strings over
resolved names, narrowing by an enclosing `if name is not None`).  A site whose code or kwargs cannot be
resolved statically is UNDECIDED (exit 2), never silently accepted.  A refuted site is replayed by
constructing the real exception class with the site's keyword names.
"""
from __future__ import annotations

import ast
import itertools
import string
import sys
import time
from pathlib import Path
from typing import Any, Dict, List, Optional, Set, Tuple

sys.path.insert(0, str(Path(__file__).resolve().parent.parent))
from vc import core  # noqa: E402
from vc.core import DISCHARGED, REFUTED, UNDECIDED, Check  # noqa: E402
from vc.pysrc import all_modules, enclosing_function, module_ast, module_constants, qualname_of  # noqa: E402

CODED = {"SemanticError", "RunTimeError", "DataLoadError", "InputValidationException"}
UNRESOLVED = object()


def catalogue() -> Dict[str, str]:
    """centralised_messages read from the source AST of the current tree (code -> message)."""
    consts = module_constants("Exceptions/messages.py")
    node = consts["centralised_messages"]
    out: Dict[str, str] = {}
    assert isinstance(node, ast.Dict)
    for k, v in zip(node.keys, node.values):
        key = ast.literal_eval(k)  # type: ignore[arg-type]
        entry = ast.literal_eval(v)
        out[key] = entry["message"]
    return out


def constructor_contract_shape() -> Dict[str, Dict[str, Any]]:
    """Derive, from the constructors' own source, where `code` sits and that kwargs feed .format(**kwargs)."""
    tree = module_ast("Exceptions/__init__.py")
    shape: Dict[str, Dict[str, Any]] = {}
    for st in tree.body:
        if isinstance(st, ast.ClassDef) and st.name in CODED:
            init = next((b for b in st.body if isinstance(b, ast.FunctionDef) and b.name == "__init__"), None)
            if init is None:
                continue
            params = [a.arg for a in init.args.args][1:]
            uses_catalogue = any(
                isinstance(n, ast.Subscript) and isinstance(n.value, ast.Name) and n.value.id == "centralised_messages"
                for n in ast.walk(init))
            formats_kwargs = any(
                isinstance(n, ast.Call) and isinstance(n.func, ast.Attribute) and n.func.attr == "format"
                and any(k.arg is None for k in n.keywords) for n in ast.walk(init))
            shape[st.name] = {"params": params, "code_pos": params.index("code") if "code" in params else None,
                              "has_kwargs": init.args.kwarg is not None, "uses_catalogue": uses_catalogue,
                              "formats_kwargs": formats_kwargs}
    return shape


def placeholders(msg: str) -> Tuple[Set[str], bool]:
    roots: Set[str] = set()
    positional = False
    for _lit, fname, spec, _conv in string.Formatter().parse(msg):
        for f in ([fname] if fname is not None else []) + (
                [x[1] for x in string.Formatter().parse(spec or "") if x[1] is not None]):
            root = f.split(".")[0].split("[")[0]
            if root == "" or root.isdigit():
                positional = True
            else:
                roots.add(root)
    return roots, positional


# -- value-set propagation for the code argument ---------------------------------------------------
def value_set(expr: ast.expr, fn: Optional[ast.FunctionDef], site: ast.AST, depth: int = 0) -> Any:
    """Set of python values `expr` may take at `site`, or UNRESOLVED."""
    if depth > 6:
        return UNRESOLVED
    if isinstance(expr, ast.Constant):
        return {expr.value}
    if isinstance(expr, ast.IfExp):
        a, b = value_set(expr.body, fn, site, depth + 1), value_set(expr.orelse, fn, site, depth + 1)
        if a is UNRESOLVED or b is UNRESOLVED:
            return UNRESOLVED
        return a | b
    if isinstance(expr, ast.JoinedStr):
        parts: List[Set[str]] = []
        for v in expr.values:
            if isinstance(v, ast.Constant):
                parts.append({str(v.value)})
            elif isinstance(v, ast.FormattedValue) and v.format_spec is None and v.conversion == -1:
                s = value_set(v.value, fn, site, depth + 1)
                if s is UNRESOLVED:
                    return UNRESOLVED
                parts.append({str(x) for x in s})
            else:
                return UNRESOLVED
        return {"".join(p) for p in itertools.product(*parts)}
    if isinstance(expr, ast.Name) and fn is not None:
        if expr.id in {a.arg for a in fn.args.args + fn.args.kwonlyargs}:
            return UNRESOLVED
        vals: Set[Any] = set()
        found = False
        for n in ast.walk(fn):
            tgt_val = None
            if isinstance(n, ast.Assign) and len(n.targets) == 1 and isinstance(n.targets[0], ast.Name) \
                    and n.targets[0].id == expr.id:
                tgt_val = n.value
            elif isinstance(n, ast.AnnAssign) and isinstance(n.target, ast.Name) and n.target.id == expr.id \
                    and n.value is not None:
                tgt_val = n.value
            elif isinstance(n, (ast.AugAssign, ast.For, ast.With, ast.NamedExpr)) and any(
                    isinstance(t, ast.Name) and t.id == expr.id and isinstance(t.ctx, ast.Store) for t in ast.walk(n)
                    if t is not n and not isinstance(n, (ast.For, ast.With))):
                return UNRESOLVED
            if tgt_val is not None:
                found = True
                s = value_set(tgt_val, fn, site, depth + 1)
                if s is UNRESOLVED:
                    return UNRESOLVED
                vals |= s
        for n in ast.walk(fn):  # any other binding form of the name -> give up
            if isinstance(n, (ast.For, ast.comprehension)):
                if any(isinstance(t, ast.Name) and t.id == expr.id for t in ast.walk(n.target)):
                    return UNRESOLVED
        if not found:
            return UNRESOLVED
        # narrowing: site lies in the body of `if <name> is not None:`
        cur, child = getattr(site, "_parent", None), site
        while cur is not None and cur is not fn:
            if isinstance(cur, ast.If) and child in cur.body:
                t = cur.test
                if isinstance(t, ast.Compare) and isinstance(t.left, ast.Name) and t.left.id == expr.id \
                        and len(t.ops) == 1 and isinstance(t.ops[0], ast.IsNot) \
                        and isinstance(t.comparators[0], ast.Constant) and t.comparators[0].value is None:
                    vals.discard(None)
            child, cur = cur, getattr(cur, "_parent", None)
        return vals
    return UNRESOLVED


def callee_name(call: ast.Call) -> Optional[str]:
    f = call.func
    if isinstance(f, ast.Name):
        return f.id
    if isinstance(f, ast.Attribute):
        return f.attr
    return None


def sql_error_literals() -> List[Tuple[str, str]]:
    """error('...') message heads in the SQL macro files and python templates: (file, text)."""
    import re
    out = []
    for p in sorted((core.SRC / "duckdb_transpiler").rglob("*")):
        if p.suffix in (".sql", ".py"):
            txt = p.read_text()
            for m in re.finditer(r"error\(\s*'((?:[^']|'')*)'", txt):
                out.append((core.rel_src(p), m.group(1)))
    return out


def main() -> None:
    chk = Check("C26", "proof", "call-site precondition contracts on the four coded exception constructors, decided "
                "statically for every constructor call of the source tree (value-set propagation of the code "
                "argument; finite set inclusion against the catalogue read from messages.py)", min_obligations=100)
    cat = catalogue()
    shape = constructor_contract_shape()
    for cls, sh in shape.items():
        f = f"src/vtlengine/Exceptions/__init__.py:{cls}.__init__"
        chk.under_contract(f)
        o = chk.ob(f"{cls}.__init__::contract-shape", f,
                   "constructor reads centralised_messages[code]['message'].format(**kwargs) (the shape the call-site "
                   "precondition is derived from)")
        if sh["uses_catalogue"] and sh["formats_kwargs"] and sh["has_kwargs"] and sh["code_pos"] is not None:
            o.status, o.backend = DISCHARGED, "ast"
        else:
            o.status, o.detail = UNDECIDED, f"constructor shape changed: {sh}"
    if set(shape) != CODED:
        chk.fault(f"coded exception classes not found: {CODED - set(shape)}")
    for cls in sorted(shape):
        verify_constructor_body(chk, cls, cat)

    import re
    code_like = re.compile(r"^\d+(-\d+){2,3}$")
    n_sites = 0
    uncoded = 0
    for rel in all_modules():
        tree = module_ast(rel)
        for node in ast.walk(tree):
            if not (isinstance(node, ast.Call) and callee_name(node) in shape):
                continue
            cls = callee_name(node)
            assert cls is not None
            sh = shape[cls]
            fn = enclosing_function(node)
            where = f"src/vtlengine/{rel}:{qualname_of(node)}"
            n_sites += 1
            t0 = time.time()
            # --- locate the code argument -----------------------------------------------------------
            code_expr: Optional[ast.expr] = None
            for k in node.keywords:
                if k.arg == "code":
                    code_expr = k.value
            if code_expr is None and sh["code_pos"] is not None and len(node.args) > sh["code_pos"]:
                code_expr = node.args[sh["code_pos"]]
            has_star = any(isinstance(a, ast.Starred) for a in node.args)
            splat = [k for k in node.keywords if k.arg is None]
            kw = {k.arg for k in node.keywords if k.arg is not None} - set(sh["params"])
            if code_expr is None or (isinstance(code_expr, ast.Constant) and code_expr.value is None):
                uncoded += 1
                # uncoded message; obligation: the message is not a catalogue code passed in the wrong slot
                msg_expr = node.args[0] if node.args else next((k.value for k in node.keywords if k.arg == "message"), None)
                if isinstance(msg_expr, ast.Constant) and isinstance(msg_expr.value, str) and (
                        code_like.match(msg_expr.value) or msg_expr.value in cat):
                    o = chk.ob(f"{where}::{cls}::message-is-code::{msg_expr.value}", where,
                               "a catalogue code is passed as `code` (so that the message is rendered), not as the "
                               "free-text message")
                    o.status, o.backend = REFUTED, "ast"
                    o.detail = f"line {node.lineno}: {ast.unparse(node)[:200]}"
                    o.finding_key = f"{rel}::{qualname_of(node)}::{cls}::message-is-code::{msg_expr.value}"
                    o.witness = {"site": f"{rel}:{node.lineno}", "call": ast.unparse(node)[:300]}
                    replay_construct(o, cls, None, msg_expr.value, kw, cat)
                continue
            vs = value_set(code_expr, fn, node)
            oid_base = f"{where}::{cls}"
            if vs is UNRESOLVED or has_star:
                o = chk.ob(f"{oid_base}::code::<unresolved>@{ast.unparse(code_expr)[:40]}", where,
                           "code in keys(centralised_messages)")
                o.status, o.detail = UNDECIDED, f"line {node.lineno}: code argument not statically resolvable: " \
                                                f"{ast.unparse(code_expr)[:80]}"
                continue
            for code in sorted(vs, key=str):
                o = chk.ob(f"{oid_base}::{code}::kw={','.join(sorted(kw))}", where,
                           f"requires code {code!r} in catalogue and placeholders(message) <= kwargs {sorted(kw)}")
                o.backend = "ast+finite-set"
                o.finding_key = f"{rel}::{qualname_of(node)}::{cls}::{code}"
                site = {"site": f"{rel}:{node.lineno}", "call": ast.unparse(node)[:300], "code": code,
                        "kwargs": sorted(kw)}
                if not isinstance(code, str) or code not in cat:
                    o.status, o.witness = REFUTED, site
                    o.detail = f"line {node.lineno}: code {code!r} is not a key of centralised_messages"
                    replay_construct(o, cls, code, None, kw, cat)
                else:
                    need, positional = placeholders(cat[code])
                    missing = need - kw
                    if positional:
                        o.status, o.witness = REFUTED, site
                        o.detail = f"message of {code} has positional fields; constructors only pass keywords"
                        replay_construct(o, cls, code, None, kw, cat)
                    elif missing and splat:
                        o.status = UNDECIDED
                        o.detail = f"line {node.lineno}: placeholders {sorted(missing)} may come from a ** splat"
                    elif missing:
                        o.status, o.witness = REFUTED, dict(site, missing=sorted(missing))
                        o.detail = f"line {node.lineno}: placeholders {sorted(missing)} of {code} " \
                                   f"({cat[code]!r}) not supplied; kwargs={sorted(kw)}"
                        o.finding_key += "::missing=" + ",".join(sorted(missing))
                        replay_construct(o, cls, code, None, kw, cat)
                    else:
                        o.status = DISCHARGED
                o.seconds = time.time() - t0

    # --- messages raised by SQL and re-raised by _map_query_error: codes they name must be catalogued ----
    for file, text in sql_error_literals():
        import re as _re
        m = _re.search(r"VTL(?: error)? (\d+(?:-\d+){2,3})", text, _re.I)
        if m:
            o = chk.ob(f"{file}::sql-error-literal::{m.group(1)}::{text[:30]}", file,
                       f"code {m.group(1)} named in SQL error('...') text is a catalogue key")
            o.backend = "regex+finite-set"
            if m.group(1) in cat:
                o.status = DISCHARGED
            else:
                o.status, o.detail, o.witness = REFUTED, f"SQL error text names unknown code {m.group(1)}", {"text": text}
                o.finding_key = f"{file}::sql-error::{m.group(1)}"
                o.replayed = None

    chk.extra.update({"constructor_call_sites": n_sites, "uncoded_sites": uncoded, "catalogue_size": len(cat),
                      "exhaustive": True})
    chk.trust("Python str.format field grammar as implemented by string.Formatter().parse (stdlib)")
    chk.assume("constructor calls are syntactic calls to a name/attribute ending in one of the four class names "
               "(aliasing such as `E = SemanticError; E(...)` or subclasses are not followed)")
    chk.assume("the code value-set of a local name is the union over its assignments in the enclosing function "
               "(flow-insensitive, narrowed only by an enclosing `if name is not None`)")
    chk.samples = [o.to_json() for o in chk.obs if o.status == REFUTED][:4] + [o.to_json() for o in chk.obs[4:7]]
    chk.finish()


def verify_constructor_body(chk: Check, cls: str, cat: Dict[str, str]) -> None:
    """Callee side of the contract: under the call-site precondition (code catalogued, placeholders supplied)
    the real constructor body never raises, for every value of the module global `dataset_output`.

    Symbolic execution (vc.pyvc) of <cls>.__init__ with: centralised_messages = abstract catalogue whose
    entry templates only support `.format(**kwargs)` with the constructor's own kwargs (that is exactly what the
    call-site precondition guarantees to be safe); dataset_output = None or an arbitrary string.
    Any other str.format on a non-constant string, any other raise, is an obligation failure.
    """
    from vc import smt
    from vc.pycheck import discharge
    from vc.pyvc import Engine, ObjV, OutsideSubset, PathResult
    rel = "Exceptions/__init__.py"
    f = f"src/vtlengine/{rel}:{cls}.__init__::body"
    eng = Engine()

    class Template:
        def __init__(self, code: Any) -> None:
            self.code = code

        def _pyvc_format(self, e: Any, args: Any, kwargs: Any) -> Any:
            e.effects.append(("catalogue-format", self.code))
            e.oblige(not args and kwargs.get("__site_kwargs__") is True, "catalogue template formatted with exactly the constructor's **kwargs")
            return e.decls.fresh("rendered", smt.STR)

        def _pyvc_binop(self, e: Any, op: str, other: Any, refl: bool) -> Any:
            # a string built from the template and something else is no longer a constant template
            return e.decls.fresh("template_plus_data", smt.STR)

    class Entry:
        def __init__(self, code: Any) -> None:
            self.code = code

        def _pyvc_getitem(self, e: Any, key: Any) -> Any:
            if key == "message":
                return Template(self.code)
            raise OutsideSubset(f"catalogue entry field {key!r}")

    class Catalogue:
        def _pyvc_getitem(self, e: Any, key: Any) -> Any:
            e.oblige(key is CODE, "catalogue is indexed with the constructor's `code` argument")
            return Entry(key)

    CODE = eng.sym_str("code")
    KW: Dict[str, Any] = {"__site_kwargs__": True}
    do_none = eng.sym_bool("dataset_output.is_none")
    do_val = eng.sym_str("dataset_output.value")

    def setup(e: Any) -> None:
        e.gstate[("Exceptions/messages.py", "centralised_messages")] = Catalogue()
        e.gstate[(rel, "centralised_messages")] = Catalogue()
        e.gstate[(rel, "dataset_output")] = None if e.decide(do_none) else do_val

    try:
        fn = eng.func(rel, f"{cls}.__init__")
        self_obj = ObjV(eng.lookup_global(rel, cls))
        if cls == "InputValidationException":
            paths = eng.explore(fn, [self_obj], dict(KW, code=CODE), setup=setup)
        else:
            paths = eng.explore(fn, [self_obj, CODE], dict(KW), setup=setup)
    except Exception as e:  # noqa: BLE001
        o = chk.ob(f"{f}::never-raises", f, "constructor body never raises under the call-site precondition")
        o.status, o.detail = UNDECIDED, f"symbolic execution failed: {type(e).__name__}: {e}"
        return
    chk.under_contract(f)

    def replay(model: Dict[str, str], p: PathResult) -> Any:
        core.boot(full=False)
        import importlib
        ex = importlib.import_module("vtlengine.Exceptions")
        klass = getattr(ex, cls)
        code = next(c for c, m in cat.items() if not placeholders(m)[0])
        cands = []
        if "dataset_output.value" in model:
            cands.append(core.smt_str(model["dataset_output.value"]))
        cands += ["DS_{r}", "{", "}", "{0}", "a{}b"]
        saved = ex.dataset_output
        try:
            for v in cands:
                ex.dataset_output = v
                try:
                    klass(code=code) if cls == "InputValidationException" else klass(code)
                except Exception as err:  # noqa: BLE001
                    return True, f"with Exceptions.dataset_output={v!r}, constructing the real {cls}({code!r}) raises " \
                                 f"{type(err).__name__}: {err}", {"dataset_output": v, "code": code, "class": cls}
        finally:
            ex.dataset_output = saved
        return None, "no failing dataset_output value found among the model value and the format-hostile probes", None

    discharge(chk, eng, f, "never-raises",
              "requires code in catalogue /\\ placeholders <= kwargs; ensures: returns normally for every value of "
              "Exceptions.dataset_output (None or any string); the only str.format is catalogue[code]['message']"
              ".format(**kwargs)",
              paths, [], lambda p: p.kind == "return" and any(e[0] == "catalogue-format" for e in p.effects),
              ["dataset_output.value"], replay, lambda m, p: f"{cls}.__init__::body")
    chk.assume("constructor-body contract: str.format on the catalogue template with the site's kwargs is the only "
               "formatting the call-site precondition makes safe; base Exception.__init__ never raises")


def replay_construct(o: Any, cls: str, code: Optional[str], message: Optional[str], kw: Set[str],
                     cat: Dict[str, str]) -> None:
    """Replay on the real code: build the exception exactly as the site does (dummy values)."""
    try:
        core.boot(full=False)
        import importlib
        exc_mod = importlib.import_module("vtlengine.Exceptions")
        klass = getattr(exc_mod, cls)
        kwargs = {k: "x" for k in kw}
        try:
            if code is not None:
                if cls == "InputValidationException":
                    e = klass(code=code, **kwargs)
                else:
                    e = klass(code, **kwargs)
                o.replayed = False
                o.replay_detail = f"constructing {cls}({code!r}, ...) succeeded natively: {e}"
            else:
                e = klass(message, **kwargs)
                rendered = str(e.args[0]) if e.args else ""
                o.replayed = rendered == message and message in cat
                o.replay_detail = f"real {cls}({message!r}, ...) renders the bare code {rendered!r} instead of " \
                                  f"the catalogue message {cat.get(message, '?')!r}"
        except (KeyError, IndexError) as ex:
            o.replayed = True
            o.replay_detail = f"constructing the real {cls}({code!r}, {', '.join(sorted(kw))}) raises " \
                              f"{type(ex).__name__}: {ex}"
    except Exception as ex:  # noqa: BLE001
        o.replayed = None
        o.replay_detail = f"replay harness error: {type(ex).__name__}: {ex}"


if __name__ == "__main__":
    core.main_guard("C26", main)
