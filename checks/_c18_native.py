"""Native side of C18: one table of values written in each input form and pushed through the REAL loaders
(`load_datapoints_duckdb` for CSV and Parquet files, `register_dataframes` for DataFrames) in a real DuckDB, or through
the whole of API.run (vc.pipeline: only text->AST removed).  Picklable job descriptions so that the work can be spread
over a process pool.

Forms of "the same content" (a table = rows of cells, a cell is NULL or a value):
    csv            RFC-4180 file written by Python's csv.writer: NULL -> empty field, text -> itself (quoted when needed)
    df             DataFrame, object columns holding str / None
    parquet        Parquet file, string columns holding the same texts / nulls (pyarrow)
    df-native      DataFrame with native dtypes (int64 / float64 / bool / datetime64 / object with None)
    parquet-typed  Parquet file with the corresponding typed columns
    csv-of-native  the CSV that pandas.DataFrame.to_csv writes for the native frame (its text form of the same values)
The empty string has no CSV form of its own (every CSV writer emits the empty field, which read_csv delivers as NULL):
tables holding '' are only compared between the DataFrame and the Parquet form.
"""
from __future__ import annotations

import csv
import datetime
import math
import os
import re
import shutil
import tempfile
from decimal import Decimal, InvalidOperation
from pathlib import Path
from typing import Any, Dict, List, Optional, Sequence, Tuple

TYPES = {"Integer": "Integer", "Number": "Number", "Boolean": "Boolean", "String": "String", "Date": "Date",
         "Time_Period": "TimePeriod", "Time": "TimeInterval", "Duration": "Duration"}
STRING_FORMS = ("csv", "df", "parquet")
CompSpec = Tuple[str, str, str, bool]          # name, VTL type name, role, nullable

_CONN = None


def w_init() -> None:
    global _CONN
    import logging
    import sys
    logging.getLogger("sqlglot").setLevel(logging.ERROR)      # CREATE TYPE statements of the macro files: parsed as commands
    sys.path.insert(0, str(Path(__file__).resolve().parent.parent))
    from vc import core, sqlconf
    core.boot(full=True)
    _CONN = sqlconf.conn()
    try:
        _CONN.execute("SET threads TO 1")      # the engine's own default (VTL_THREADS=1); many workers share the machine
    except Exception:  # noqa: BLE001
        pass


def components(spec: Sequence[CompSpec]) -> Dict[str, Any]:
    from vtlengine import DataTypes as DT
    from vtlengine.Model import Component, Role
    roles = {"Measure": Role.MEASURE, "Identifier": Role.IDENTIFIER, "Attribute": Role.ATTRIBUTE}
    return {n: Component(n, getattr(DT, TYPES[t]), roles[r], nl) for n, t, r, nl in spec}


def structure_json(name: str, spec: Sequence[CompSpec]) -> Dict[str, Any]:
    return {"name": name, "DataStructure": [{"name": n, "type": t, "role": r, "nullable": nl} for n, t, r, nl in spec]}


# --------------------------------------------------------------------------------------------------------------------
# writing one table in one form
# --------------------------------------------------------------------------------------------------------------------
def _pa_type(dtype: str) -> Any:
    import pyarrow as pa
    return {"str": pa.string(), "int64": pa.int64(), "float64": pa.float64(), "bool": pa.bool_(),
            "datetime": pa.timestamp("us"), "date": pa.date32()}[dtype]


def native_frame(cols: Sequence[str], rows: Sequence[Dict[str, Any]], dtypes: Dict[str, str]) -> Any:
    import numpy as np
    import pandas as pd
    data = {}
    for c in cols:
        vals = [r.get(c) for r in rows]
        dt = dtypes.get(c, "str")
        if dt == "str":
            data[c] = pd.Series(vals, dtype="object")
        elif dt == "int64":
            data[c] = pd.Series(vals, dtype="int64") if all(v is not None for v in vals) else pd.Series(vals, dtype="Int64")
        elif dt == "float64":
            data[c] = pd.Series([np.nan if v is None else v for v in vals], dtype="float64")
        elif dt == "bool":
            data[c] = pd.Series(vals, dtype="bool") if all(v is not None for v in vals) else pd.Series(vals, dtype="object")
        elif dt == "datetime":
            data[c] = pd.Series(pd.to_datetime(vals), dtype="datetime64[us]")
        elif dt == "date":
            data[c] = pd.Series(vals, dtype="object")
        else:
            raise ValueError(dt)
    return pd.DataFrame(data, columns=list(cols))


def write_form(form: str, d: Path, name: str, cols: Sequence[str], rows: Sequence[Dict[str, Any]],
               dtypes: Optional[Dict[str, str]] = None) -> Any:
    """-> a DataFrame or the Path of the file written."""
    import pandas as pd
    dtypes = dtypes or {}
    if form == "df":
        return pd.DataFrame({c: pd.Series([r.get(c) for r in rows], dtype="object") for c in cols}, columns=list(cols))
    if form == "csv":
        p = d / f"{name}.csv"
        with open(p, "w", newline="", encoding="utf-8") as f:
            w = csv.writer(f)
            w.writerow(cols)
            for r in rows:
                w.writerow(["" if r.get(c) is None else r.get(c) for c in cols])
        return p
    if form == "parquet":
        import pyarrow as pa
        import pyarrow.parquet as pq
        p = d / f"{name}.parquet"
        pq.write_table(pa.table({c: pa.array([r.get(c) for r in rows], type=pa.string()) for c in cols}), p)
        return p
    if form == "df-native":
        return native_frame(cols, rows, dtypes)
    if form == "parquet-typed":
        import pyarrow as pa
        import pyarrow.parquet as pq
        p = d / f"{name}.parquet"
        arrays = {}
        for c in cols:
            vals = [r.get(c) for r in rows]
            arrays[c] = pa.array(vals, type=_pa_type(dtypes.get(c, "str")))
        pq.write_table(pa.table(arrays), p)
        return p
    if form == "csv-of-native":
        p = d / f"{name}.csv"
        native_frame(cols, rows, dtypes).to_csv(p, index=False)
        return p
    raise ValueError(form)


# --------------------------------------------------------------------------------------------------------------------
# outcomes
# --------------------------------------------------------------------------------------------------------------------
def norm_cell(v: Any) -> Any:
    """Stored / returned cell as the value it denotes: dates and timestamps as the instant, numbers as Decimal."""
    if v is None:
        return None
    try:
        import pandas as pd
        if v is pd.NA or v is pd.NaT:
            return None
    except Exception:  # noqa: BLE001
        pass
    if hasattr(v, "item") and not isinstance(v, (str, bytes)):
        try:
            v = v.item()
        except Exception:  # noqa: BLE001
            pass
    if isinstance(v, float) and math.isnan(v):
        return None
    if isinstance(v, bool):
        return v
    if isinstance(v, datetime.datetime):
        return ("instant", v.replace(tzinfo=None).isoformat(sep=" "))
    if isinstance(v, datetime.date):
        return ("instant", datetime.datetime.combine(v, datetime.time()).isoformat(sep=" "))
    if isinstance(v, (int, float, Decimal)):
        try:
            d = Decimal(str(v)) if not isinstance(v, Decimal) else v
            if not d.is_finite():
                return ("num", str(d))
            return ("num", format(d.normalize(), "f"))
        except InvalidOperation:
            return ("num", str(v))
    return v


def norm_rows(rows: Sequence[Sequence[Any]]) -> List[Tuple[Any, ...]]:
    out = [tuple(norm_cell(v) for v in r) for r in rows]
    return sorted(out, key=repr)


def outcome_of_exception(e: BaseException) -> Tuple[str, str, str]:
    from vtlengine.Exceptions import DataLoadError, InputValidationException
    kind = "vtl" if isinstance(e, (DataLoadError, InputValidationException)) else "raw"
    return ("reject", kind, f"{type(e).__name__}: {' '.join(str(e).split())[:160]}")


def load_job(job: Dict[str, Any]) -> Tuple[Any, ...]:
    """One table, one form, through the real loader.  job: form, spec, rows, [dtypes], [columns]
    -> ('accept', normalised rows) | ('reject', 'vtl'|'raw', message)."""
    if _CONN is None:
        w_init()
    from vtlengine.duckdb_transpiler.io import _io
    from vtlengine.Model import Dataset
    conn = _CONN
    comps = components(job["spec"])
    cols = job.get("columns") or [c[0] for c in job["spec"]]
    name = "DS_1"
    conn.execute(f'DROP TABLE IF EXISTS "{name}"')
    d = Path(tempfile.mkdtemp(prefix="verif_c18_"))
    try:
        try:
            src = write_form(job["form"], d, name, cols, job["rows"], job.get("dtypes"))
        except Exception as e:  # noqa: BLE001 - the value cannot be written in this form at all (harness side)
            return ("unwritable", f"{type(e).__name__}: {str(e)[:120]}")
        try:
            if isinstance(src, Path):
                _io.load_datapoints_duckdb(conn, comps, name, src)
            else:
                _io.register_dataframes(conn, {name: src}, {name: Dataset(name, comps, None)})
            order = ", ".join(f'"{c}"' for c in comps)
            got = conn.execute(f'SELECT {order} FROM "{name}"').fetchall()
            return ("accept", norm_rows(got))
        except Exception as e:  # noqa: BLE001
            return outcome_of_exception(e)
    finally:
        try:
            conn.execute(f'DROP TABLE IF EXISTS "{name}"')
        except Exception:  # noqa: BLE001
            pass
        shutil.rmtree(d, ignore_errors=True)


def e2e_job(job: Dict[str, Any]) -> Tuple[Any, ...]:
    """The same through API.run (everything but text->AST): job adds `program` = 'copy' | 'add'."""
    if _CONN is None:
        w_init()
    from vc import pipeline as P
    run = P.api_from_ast("run")
    spec = job["spec"]
    cols = job.get("columns") or [c[0] for c in spec]
    expr = P.var("DS_1") if job["program"] == "copy" else P.binop(P.var("DS_1"), "+", P.var("DS_1"))
    ast = P.start([P.assign("DS_r", expr, True)])
    ds = P.structures([structure_json("DS_1", spec)])
    d = Path(tempfile.mkdtemp(prefix="verif_c18e_"))
    try:
        try:
            src = write_form(job["form"], d, "DS_1", cols, job["rows"], job.get("dtypes"))
        except Exception as e:  # noqa: BLE001
            return ("unwritable", f"{type(e).__name__}: {str(e)[:120]}")
        kw = {}
        if any(t == "Time_Period" for _n, t, _r, _nl in spec):
            kw["time_period_output_format"] = "sdmx_reporting"
        try:
            res = run(ast, ds, {"DS_1": src}, return_only_persistent=True, **kw)
            dsr = res["DS_r"]
            df = dsr.data
            names = [c for c in dsr.components]
            recs = [tuple(rec[c] for c in names) for rec in df.to_dict("records")]
            return ("accept", (tuple(names), norm_rows(recs)))
        except Exception as e:  # noqa: BLE001
            from vtlengine.Exceptions import VTLEngineException
            o = outcome_of_exception(e)
            if o[1] == "raw" and isinstance(e, VTLEngineException):
                return ("reject", "vtl-other", o[2])
            return o
    finally:
        shutil.rmtree(d, ignore_errors=True)


def same_outcome(a: Tuple[Any, ...], b: Tuple[Any, ...]) -> bool:
    """all reject with a VTL input error, or all accept with the same set of datapoints."""
    if a[0] == "unwritable" or b[0] == "unwritable":
        return True
    if a[0] != b[0]:
        return False
    if a[0] == "reject":
        return a[1] == "vtl" and b[1] == "vtl"
    return a[1] == b[1]


def show(o: Tuple[Any, ...]) -> str:
    if o[0] == "accept":
        rows = o[1][1] if isinstance(o[1], tuple) else o[1]
        return "accepted, stored " + repr([tuple(x[1] if isinstance(x, tuple) and len(x) == 2 and x[0] in ("num", "instant") else x
                                                 for x in r) for r in rows])[:200]
    if o[0] == "reject":
        return f"rejected ({'VTL input error' if o[1] == 'vtl' else 'RAW non-VTL exception' if o[1] == 'raw' else o[1]}: {o[2][:110]})"
    return f"{o[0]}: {o[1]}"


# --------------------------------------------------------------------------------------------------------------------
# classes of differences (stable identity for the known-findings file)
# --------------------------------------------------------------------------------------------------------------------
def feature(tname: str, value: Any) -> str:
    """Syntactic kind of a cell value (what is special about it for its component type)."""
    s = value if isinstance(value, str) else ("" if value is None else repr(value))
    if value is None:
        return "null-cell"
    if isinstance(value, str) and '"' in value:
        return "cell-of-double-quotes-only" if set(value) == {'"'} else "double-quote-characters"
    if isinstance(value, str) and value == "":
        return "empty-string"
    if tname in ("Integer", "Number"):
        t = s.strip()
        if re.fullmatch(r"[+-]?0[xX][0-9a-fA-F]+", t):
            return "hexadecimal-text"
        if re.fullmatch(r"[+-]?0[bB][01]+", t):
            return "binary-text"
        try:
            dv = Decimal(t.replace("_", "")) if not isinstance(value, float) else Decimal(repr(value))
        except InvalidOperation:
            return "not-a-numeral"
        if not dv.is_finite():
            return "non-finite-number"
        if tname == "Integer":
            if dv != dv.to_integral_value():
                return "fractional-value"
            if abs(dv) >= 2 ** 53:
                return "integer-beyond-double-precision"
            if isinstance(value, float):
                return "integral-float"
        if "_" in t:
            return "underscore-digit-separator"
        if re.search(r"[eE]", t):
            return "exponent-notation"
        if t != s:
            return "padded-numeral"
        return "numeral"
    if tname == "Boolean":
        if isinstance(value, (int, float)) and not isinstance(value, bool):
            return "number-other-than-0-and-1" if value not in (0, 1) else "number-0-or-1"
        return "boolean-spelling"
    if tname == "Date":
        has_time = isinstance(value, str) and re.match(r"\d{4}-\d{1,2}-\d{1,2}[ T][0:.]*[1-9]", value) is not None
        if isinstance(value, datetime.datetime) and (value.hour or value.minute or value.second or value.microsecond):
            has_time = True
        if has_time:
            short = isinstance(value, str) and re.match(r"\d{4}-\d{2}-\d{2}[ T]", value) is None
            return "time-of-day-after-short-date" if short else "time-of-day"
        return "date-text"
    return "text"


def how_differs(oa: Tuple[Any, ...], ob: Tuple[Any, ...], fa: str, fb: str) -> str:
    for o, f in ((oa, fa), (ob, fb)):
        if o[0] == "reject" and o[1] != "vtl":
            return f"raw-non-vtl-exception-from-{f}"
    if oa[0] == "reject" and ob[0] == "accept":
        return f"rejected-by-{fa}-only"
    if oa[0] == "accept" and ob[0] == "reject":
        return f"rejected-by-{fb}-only"
    return "stored-value-differs"


def classify(tname: str, value: Any, oa: Tuple[Any, ...], ob: Tuple[Any, ...], fa: str = "first", fb: str = "second") -> str:
    """Stable identity of a difference: which kind of value it is and how the two forms part on it.  Only syntactic
    features of the value and the shape of the two outcomes are used, so that the symbolic and the native tier arrive at
    the same key, and a different way of differing on the same kind of value is a different key."""
    fa, fb = {"csv-of-native": "csv"}.get(fa, fa), {"csv-of-native": "csv"}.get(fb, fb)
    return f"{feature(tname, value)}::{how_differs(oa, ob, fa, fb)}"
