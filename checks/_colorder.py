"""C33, column order: use-site analysis of the INPUT's column list in the loader helpers (complete for all list lengths).

A *carrier* is a value that holds the input's columns IN INPUT ORDER: the parameter itself, plain copies (`x or {}`, dict(x),
list(x)), order-equivariant filters / comprehensions over a carrier, the results of the helpers that keep the input order
(handle_sdmx_columns, build_csv_column_types), strings joined from a carrier.  Every use of a carrier must be one of
  membership (`c in x`), set()/len()/count(), None / emptiness test, by-name lookup (`x.get(name)`, `x[name]`),
  order-equivariant filtering, storing by name inside a loop, passing it to another analysed helper, an error message,
  or the single positional hand-over that is by-name by construction: the `columns={...}` argument of
  read_csv(header=true), which must list the file's columns in the file's own order.
Anything else (index, slice, join into SQL, zip/enumerate, comparison of lists, passing to an unknown function) is an
order-dependent use and refutes the obligation.  Values DERIVED from a carrier through the allowed uses (a set, a looked-up
type, a membership flag) carry no order and are not tracked.
"""
from __future__ import annotations

import ast
import re
import sys
from pathlib import Path
from typing import Any, Callable, Dict, List, Optional, Sequence, Set, Tuple

sys.path.insert(0, str(Path(__file__).resolve().parent.parent))
from vc import sqltemplates as ST  # noqa: E402
from vc.core import DISCHARGED, REFUTED, UNDECIDED, Check  # noqa: E402

IO = "duckdb_transpiler/io/_io.py"
VAL = "duckdb_transpiler/io/_validation.py"
ORDER_KEEPING_HELPERS = ("handle_sdmx_columns", "build_csv_column_types")
ANALYSED_HELPERS = ("handle_sdmx_columns", "check_missing_identifiers", "build_csv_column_types", "build_select_columns",
                    "_build_dataframe_select_columns", "_detect_date_type_overrides")
COLUMN_PARAMS: List[Tuple[str, str, List[str]]] = [
    (VAL, "build_select_columns", ["keep_columns", "csv_dtypes"]),
    (VAL, "build_csv_column_types", ["csv_columns"]),
    (VAL, "handle_sdmx_columns", ["columns"]),
    (VAL, "check_missing_identifiers", ["keep_columns"]),
    (IO, "_build_dataframe_select_columns", ["df_columns", "source_types"]),
    (IO, "_detect_date_type_overrides", ["df.columns"]),
    (IO, "load_datapoints_duckdb", ["csv_columns"]),
    (IO, "_load_parquet", ["parquet_cols", "parquet_types"]),
    (IO, "register_dataframes", ["df.columns"]),
]


def find_fn(rel: str, name: str) -> Optional[ast.FunctionDef]:
    for n in ast.walk(ST.tree_of(rel)):
        if isinstance(n, ast.FunctionDef) and n.name == name:
            return n
    return None


def _is_carrier_expr(v: ast.expr, carriers: Set[str], attr: Optional[str]) -> bool:
    """v evaluates to something that holds the columns in input order."""
    def base(e: ast.expr) -> bool:
        if attr:
            return isinstance(e, ast.Attribute) and e.attr == attr.split(".")[1] and isinstance(e.value, ast.Name) and \
                e.value.id in carriers
        return isinstance(e, ast.Name) and e.id in carriers
    if base(v):
        return True
    if isinstance(v, ast.Name) and v.id in carriers and not attr:
        return True
    if isinstance(v, ast.BoolOp) and any(_is_carrier_expr(x, carriers, attr) for x in v.values):
        return True
    if isinstance(v, ast.IfExp):
        return _is_carrier_expr(v.body, carriers, attr) or _is_carrier_expr(v.orelse, carriers, attr)
    if isinstance(v, ast.Call):
        fn = v.func.id if isinstance(v.func, ast.Name) else (v.func.attr if isinstance(v.func, ast.Attribute) else "")
        if fn in ("dict", "list", "tuple") and v.args and _is_carrier_expr(v.args[0], carriers, attr):
            return True
        if fn in ORDER_KEEPING_HELPERS and any(_is_carrier_expr(a, carriers, attr) for a in v.args):
            return True
        if fn == "join" and v.args and _is_carrier_expr(v.args[0], carriers, attr):
            return True
        if fn in ("items", "keys", "values") and isinstance(v.func, ast.Attribute) and _is_carrier_expr(v.func.value, carriers, attr):
            return True
        if fn == "rename" and isinstance(v.func, ast.Attribute) and isinstance(v.func.value, ast.Name) and v.func.value.id in carriers:
            return True          # df.rename(columns=...) keeps the column order
    if isinstance(v, (ast.ListComp, ast.DictComp, ast.GeneratorExp)) and v.generators:
        return _is_carrier_expr(v.generators[0].iter, carriers, attr)
    return False


def carriers_of(fn: ast.FunctionDef, prm: str) -> Set[str]:
    attr = prm if "." in prm else None
    carriers: Set[str] = {prm.split(".")[0]}
    roots = set(carriers)
    changed = True
    while changed:
        changed = False
        for n in ast.walk(fn):
            tgt, val = None, None
            if isinstance(n, ast.Assign) and len(n.targets) == 1 and isinstance(n.targets[0], ast.Name):
                tgt, val = n.targets[0].id, n.value
            elif isinstance(n, ast.AnnAssign) and isinstance(n.target, ast.Name) and n.value is not None:
                tgt, val = n.target.id, n.value
            if tgt is None or tgt in carriers:
                continue
            if _is_carrier_expr(val, carriers - (roots if attr else set()), None) or (attr and _is_carrier_expr(val, roots, attr)) \
                    or (attr and isinstance(val, ast.Call) and isinstance(val.func, ast.Attribute) and val.func.attr == "rename"
                        and isinstance(val.func.value, ast.Name) and val.func.value.id in roots):
                if attr and isinstance(val, ast.Call) and isinstance(val.func, ast.Attribute) and val.func.attr == "rename":
                    roots.add(tgt)
                carriers.add(tgt)
                changed = True
    return carriers


def _stmt_of(n: ast.AST) -> ast.AST:
    cur: ast.AST = n
    while not isinstance(cur, ast.stmt):
        cur = getattr(cur, "_parent")
    return cur


def classify_uses(fn: ast.FunctionDef, prm: str) -> Tuple[List[str], List[str], List[str], Set[str]]:  # noqa: C901
    """(allowed uses, order-dependent uses, stated exceptions, carriers)"""
    attr = prm.split(".")[1] if "." in prm else None
    carriers = carriers_of(fn, prm)
    roots = {prm.split(".")[0]}
    notes: List[str] = []
    bad: List[str] = []
    exc: List[str] = []
    for n in ast.walk(fn):
        if not (isinstance(n, ast.Name) and isinstance(n.ctx, ast.Load) and n.id in carriers):
            continue
        node: ast.AST = n
        par = getattr(n, "_parent", None)
        if attr and n.id in roots | {c for c in carriers if _root_like(fn, c, roots)}:
            # a data frame: only its `.columns` is the column list; other uses of the frame are by-name / value access
            if isinstance(par, ast.Attribute) and par.value is n and par.attr == attr:
                node, par = par, getattr(par, "_parent", None)
            else:
                if isinstance(par, ast.Attribute) and par.value is n and par.attr in ("iloc", "iat", "values", "to_numpy", "itertuples", "T"):
                    bad.append(f"positional frame access `{ast.unparse(par)[:50]}`")
                continue
        src = ast.unparse(par)[:70] if par is not None else ast.unparse(node)
        chain = []
        cur = getattr(node, "_parent", None)
        while cur is not None and cur is not fn:
            chain.append(cur)
            cur = getattr(cur, "_parent", None)
        if any(isinstance(c, ast.Raise) for c in chain):
            notes.append("error message")
            continue
        if isinstance(par, ast.Compare) and node in par.comparators and all(isinstance(o, (ast.In, ast.NotIn)) for o in par.ops):
            notes.append("membership")
            continue
        if isinstance(par, ast.Compare) and all(isinstance(o, (ast.Is, ast.IsNot)) for o in par.ops):
            notes.append("None test")
            continue
        if isinstance(par, ast.Compare):
            bad.append(f"comparison of the ordered list `{src}`")
            continue
        if isinstance(par, ast.Call) and node in par.args:
            callee = par.func.id if isinstance(par.func, ast.Name) else (par.func.attr if isinstance(par.func, ast.Attribute) else "?")
            if callee in ("set", "frozenset", "len", "bool", "sorted"):
                notes.append(callee + "()")
                continue
            if callee in ("dict", "list", "tuple"):
                notes.append("copy (tracked)")
                continue
            if callee in ANALYSED_HELPERS:
                notes.append(f"passed to {callee}() (analysed)")
                continue
            if callee == "join":
                st = _stmt_of(par)
                tname = st.targets[0].id if isinstance(st, ast.Assign) and isinstance(st.targets[0], ast.Name) else ""
                if tname in carriers:
                    notes.append(f"joined into `{tname}` (tracked)")
                    continue
                bad.append(f"joined in input order `{src}`")
                continue
            bad.append(f"passed to `{callee}` (`{src}`)")
            continue
        if isinstance(par, ast.keyword):
            call = getattr(par, "_parent", None)
            callee = call.func.id if isinstance(call, ast.Call) and isinstance(call.func, ast.Name) else \
                (call.func.attr if isinstance(call, ast.Call) and isinstance(call.func, ast.Attribute) else "?")
            if callee in ANALYSED_HELPERS:
                notes.append(f"passed to {callee}({par.arg}=) (analysed)")
                continue
            bad.append(f"passed as {par.arg}= to `{callee}`")
            continue
        if isinstance(par, ast.Attribute) and par.value is node:
            gp = getattr(par, "_parent", None)
            if par.attr == "get" and isinstance(gp, ast.Call):
                notes.append("by-name lookup .get(name)")
                continue
            if par.attr == "count":
                notes.append("multiplicity .count(name)")
                continue
            if par.attr in ("items", "keys", "values"):
                ggp = getattr(gp, "_parent", None) if gp is not None else None
                if isinstance(ggp, ast.comprehension) or isinstance(getattr(gp, "_parent", None), ast.comprehension):
                    st = _stmt_of(par)
                    tname = st.targets[0].id if isinstance(st, ast.Assign) and isinstance(st.targets[0], ast.Name) else ""
                    if tname in carriers:
                        notes.append(f"iterated into `{tname}` (tracked)")
                        continue
                bad.append(f"iteration `{src}` with untracked result")
                continue
            if par.attr in ("rename", "copy"):
                notes.append(par.attr + "() (order kept, tracked)")
                continue
            bad.append(f"method `{ast.unparse(par)[:40]}`")
            continue
        if isinstance(par, ast.Subscript) and par.value is node:
            sl = par.slice
            positional = isinstance(sl, (ast.Slice, ast.UnaryOp)) or (isinstance(sl, ast.Constant) and isinstance(sl.value, int))
            if positional:
                gp = getattr(par, "_parent", None)
                if isinstance(gp, ast.Compare) and isinstance(sl, ast.Constant) and sl.value == 0 and \
                        isinstance(gp.comparators[0], ast.Constant) and gp.comparators[0].value == "DATAFLOW":
                    exc.append("`columns[0] == \"DATAFLOW\"`: the positional SDMX-CSV rule (DATAFLOW is the first column of an "
                               "SDMX-CSV file; stated in the code, absent from docs/*.rst).  It only decides whether a column that "
                               "is NOT a component is listed in keep_columns, and no consumer selects such a column (bounded "
                               "obligation loader-helpers-permutations)")
                    continue
                bad.append(f"positional access `{src}`")
                continue
            if isinstance(par.ctx, ast.Store):
                notes.append("store by name")
                continue
            notes.append("by-name lookup [name]")
            continue
        if isinstance(par, (ast.BoolOp, ast.If, ast.IfExp, ast.UnaryOp, ast.While)):
            if isinstance(par, ast.BoolOp):
                st = _stmt_of(par)
                if isinstance(st, ast.Assign) and isinstance(st.targets[0], ast.Name) and st.targets[0].id in carriers:
                    notes.append("default (`x or {}`, tracked)")
                    continue
            if isinstance(par, ast.IfExp) and par.test is not node:
                notes.append("conditional copy (tracked)")
                continue
            notes.append("emptiness test")
            continue
        if isinstance(par, ast.comprehension) and par.iter is node:
            comp = getattr(par, "_parent", None)
            tgt = par.target.id if isinstance(par.target, ast.Name) else None
            st = _stmt_of(par)
            tname = st.targets[0].id if isinstance(st, ast.Assign) and isinstance(st.targets[0], ast.Name) else ""
            if isinstance(comp, ast.SetComp):
                notes.append("set comprehension")
                continue
            if isinstance(comp, (ast.ListComp, ast.GeneratorExp)) and isinstance(comp.elt, ast.Name) and comp.elt.id == tgt and \
                    (tname in carriers or isinstance(st, ast.Return)):
                notes.append("order-equivariant filter (result keeps the input's order; tracked / analysed at its consumers)")
                continue
            if isinstance(comp, ast.DictComp) and isinstance(comp.key, ast.Name) and comp.key.id == tgt and tname in carriers:
                notes.append(f"mapping by name in input order `{tname}` (tracked)")
                continue
            bad.append(f"iteration with order-carrying result `{ast.unparse(comp)[:60]}`")
            continue
        if isinstance(par, ast.For) and par.iter is node:
            appends = [x for st in par.body for x in ast.walk(st)
                       if isinstance(x, ast.Call) and isinstance(x.func, ast.Attribute) and x.func.attr in ("append", "extend", "insert")]
            if appends:
                bad.append(f"loop over the columns that appends in input order (`{ast.unparse(appends[0])[:50]}`)")
            else:
                notes.append("loop whose body only stores by name")
            continue
        if isinstance(par, ast.BinOp) and isinstance(par.op, (ast.Sub, ast.BitAnd, ast.BitOr)):
            notes.append("set operation")
            continue
        if isinstance(par, ast.FormattedValue):
            js = getattr(par, "_parent", None)
            sk = ST._skeleton(js) if isinstance(js, ast.JoinedStr) else None
            ok = False
            if sk:
                pos = sk[0].find(ST.HOLE_L + ast.unparse(node) + ST.HOLE_R)
                ok = pos >= 0 and bool(re.search(r"columns\s*=\s*\{\s*$", sk[0][:pos])) and "read_csv" in sk[0] and \
                    bool(re.search(r"header\s*=\s*true", sk[0]))
            if ok:
                notes.append("read_csv(columns={…}, header=true): the types listed in the file's own column order (by-name by "
                             "construction)")
            else:
                bad.append(f"spliced in input order into `{ast.unparse(js)[:60] if js is not None else src}`")
            continue
        if isinstance(par, (ast.Assign, ast.AnnAssign, ast.Return)):
            notes.append("re-bound / returned (tracked)")
            continue
        if isinstance(par, (ast.Tuple, ast.List, ast.Starred, ast.Dict)):
            bad.append(f"stored in a container / unpacked `{src}`")
            continue
        bad.append(f"use not understood: `{src}`")
    return notes, list(dict.fromkeys(bad)), exc, carriers


def _root_like(fn: ast.FunctionDef, name: str, roots: Set[str]) -> bool:
    """name was bound from `<root>.rename(...)` (still a frame, not a column list)."""
    for n in ast.walk(fn):
        if isinstance(n, ast.Assign) and isinstance(n.targets[0], ast.Name) and n.targets[0].id == name and \
                isinstance(n.value, ast.Call) and isinstance(n.value.func, ast.Attribute) and n.value.func.attr == "rename" and \
                isinstance(n.value.func.value, ast.Name) and n.value.func.value.id in roots | {name}:
            return True
    return False


def select_list_follows_components(rel: str, name: str) -> Optional[str]:
    """The list returned by a SELECT-list builder is appended to inside a loop over `components` (structure order)."""
    fn = find_fn(rel, name)
    if fn is None:
        return None
    rets = {x.id for r in ast.walk(fn) if isinstance(r, ast.Return) and r.value is not None
            for x in ast.walk(r.value) if isinstance(x, ast.Name)}
    for n in ast.walk(fn):
        if isinstance(n, ast.For) and "components" in ast.unparse(n.iter):
            for x in ast.walk(n):
                if isinstance(x, ast.Call) and isinstance(x.func, ast.Attribute) and x.func.attr == "append" and \
                        isinstance(x.func.value, ast.Name) and x.func.value.id in rets:
                    return f"`{x.func.value.id}` is filled inside `for … in {ast.unparse(n.iter)}`"
    return None


def column_use_obligations(chk: Check, replay: Callable[[], Tuple[Optional[bool], str]]) -> None:
    for rel, name, params in COLUMN_PARAMS:
        f = f"src/vtlengine/{rel}:{name}"
        fn = find_fn(rel, name)
        for prm in params:
            ob = chk.ob(f"{f}::column-order::{prm}", f,
                        f"`{prm}` (the INPUT's column list / per-column mapping) and everything that keeps its order is used only "
                        f"through membership, set/len/count, by-name lookup, order-equivariant filtering and the by-construction "
                        f"positional hand-over to read_csv(columns=…): reordering the input's columns cannot change what {name}() selects")
            ob.backend = "ast-use-sites"
            if fn is None:
                ob.status, ob.detail = UNDECIDED, "function not found (moved?)"
                continue
            chk.under_contract(f, "contract")
            notes, bad, exc, carriers = classify_uses(fn, prm)
            if bad:
                ob.status, ob.detail = REFUTED, f"order-dependent use of `{prm}` (carriers {sorted(carriers)}): " + "; ".join(bad[:5])
                ob.finding_key = f"column-order::{rel}::{name}::{prm}"
                ob.witness = {"function": name, "parameter": prm, "uses": bad[:6]}
                ob.replayed, ob.replay_detail = replay()
            elif not notes and not exc:
                ob.status, ob.detail = UNDECIDED, f"`{prm}` is not used in {name}() (signature changed?)"
            else:
                cnt: Dict[str, int] = {}
                for x in notes:
                    cnt[x] = cnt.get(x, 0) + 1
                ob.status = DISCHARGED
                ob.detail = f"order carriers {sorted(carriers)}; uses: " + ", ".join(f"{k} ×{v}" for k, v in cnt.items())
                if exc:
                    ob.detail += " | STATED EXCEPTION " + exc[0]
    for rel, name in ((VAL, "build_select_columns"), (IO, "_build_dataframe_select_columns"), (VAL, "build_create_table_sql")):
        f = f"src/vtlengine/{rel}:{name}"
        ob = chk.ob(f"{f}::column-order::result-in-structure-order", f,
                    f"the column / SELECT list {name}() returns is in the order of the STRUCTURE (components), not of the input")
        ob.backend = "ast-use-sites"
        if find_fn(rel, name) is None:
            ob.status, ob.detail = UNDECIDED, "function not found (moved?)"
            continue
        why = select_list_follows_components(rel, name)
        if why:
            ob.status, ob.detail = DISCHARGED, why
        else:
            ob.status, ob.detail = REFUTED, "the returned list is not filled in a loop over `components`"
            ob.finding_key = f"column-order::{rel}::{name}::result-order"
            ob.replayed, ob.replay_detail = replay()
    f = f"src/vtlengine/{VAL}:build_create_table_sql"
    ob = chk.ob(f"{f}::column-order::signature", f, "the table definition is derived from the STRUCTURE only (components, overrides): "
                                                     "no parameter carries the input's column list")
    ob.backend = "ast-use-sites"
    fn = find_fn(VAL, "build_create_table_sql")
    if fn is None:
        ob.status, ob.detail = UNDECIDED, "function not found"
    else:
        ps = [a.arg for a in fn.args.args]
        extra = [p for p in ps if p not in ("table_name", "components", "type_overrides")]
        if extra:
            ob.status, ob.detail, ob.finding_key = REFUTED, f"parameters {extra}", f"column-order::{VAL}::build_create_table_sql"
            ob.replayed, ob.replay_detail = replay()
        else:
            ob.status, ob.detail = DISCHARGED, f"parameters {ps}"
