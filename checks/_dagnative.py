"""Native counterexample search for the deductive tiers of C12 / C13 (real code, hand-built ASTs).

Each function enumerates a small family of scripts (checks/_dagscripts.py: the dependency graph of every script is
known by construction) on the REAL functions of the working tree and returns (found?, detail, witness).  They are
called only when a proof obligation is refuted by the solver / an analysis, or cannot be formed because the code no
longer has the shape the contract is stated on: a natively reproduced failure makes the obligation a violation with a
concrete failing input; no reproduction leaves it undecided (never a violation).
"""
from __future__ import annotations

import itertools
import sys
from pathlib import Path
from typing import Any, Dict, Iterator, List, Optional, Sequence, Set, Tuple

sys.path.insert(0, str(Path(__file__).resolve().parent.parent))
sys.path.insert(0, str(Path(__file__).resolve().parent))
import _dagscripts as G  # noqa: E402
from vc import core  # noqa: E402

Res = Tuple[Optional[bool], str, Any]
KW = dict(line_start=1, column_start=1, line_stop=1, column_stop=1)


def show(stmts: Sequence[G.Stmt]) -> str:
    if G.is_rich(stmts):
        return G.show(stmts)
    parts = []
    for out, pers, kind, direct, cl in stmts:
        rhs = "<const>" if kind == "scalar" else " + ".join(direct) if kind == "expr" else \
            f"{direct[0]}[filter " + " and ".join(f"Me_1 ? {c}" for c in cl) + "]"
        parts.append(f"{out} {'<-' if pers else ':='} {rhs}")
    return "; ".join(parts)


def family(max_n: int = 3, scalars: bool = True) -> Iterator[List[G.Stmt]]:
    for n in range(1, max_n + 1):
        yield from G.shapes(n, 2, False)
    if scalars:
        for n in (1, 2):
            yield from G.shapes(n, 1, True)


def _dag() -> Any:
    core.boot(full=True)
    from vtlengine.AST.DAG import DAGAnalyzer
    return DAGAnalyzer


def err_code(e: BaseException) -> str:
    if len(getattr(e, "args", ())) > 1 and isinstance(e.args[1], str):
        return e.args[1]
    return type(e).__name__


def dag_outcome(stmts: Sequence[G.Stmt]) -> Tuple[str, Any]:
    ast = G.build(stmts)
    try:
        _dag().create_dag(ast)
    except Exception as e:  # noqa: BLE001
        return "error", err_code(e)
    return "ok", [c.left.value for c in ast.children if hasattr(c, "left")]


# ---------------------------------------------------------------------------------------------------------------------
def vertex_edges() -> Res:
    """load_vertex / load_edges: vertex = {k: output of statement k}; edges = {(producer(name), consumer)}."""
    D = _dag()
    for stmts in family():
        dag = D()
        try:
            dag.visit(G.build(stmts))
            dag.load_vertex()
            dag.load_edges()
        except Exception as e:  # noqa: BLE001
            return True, f"[{show(stmts)}]: visit/load_vertex/load_edges raised {type(e).__name__}: {e}", {"script": show(stmts)}
        outs = G.outputs(stmts)
        want_v = {i + 1: o for i, o in enumerate(outs)}
        want_e = {(outs.index(r) + 1, i + 1) for i, s in enumerate(stmts) for r in G.reads(s) if r in outs}
        got_e = set(dag.edges.values())
        if dict(dag.vertex) != want_v or got_e != want_e:
            return True, (f"[{show(stmts)}]: vertex={dict(dag.vertex)} (expected {want_v}); edges={sorted(got_e)} (expected "
                          f"{sorted(want_e)} = producer -> consumer for every name read and produced)"), \
                {"script": show(stmts), "vertex": dict(dag.vertex), "edges": sorted(got_e), "expected_edges": sorted(want_e)}
    return False, "vertex / edges equal the producer->consumer relation on every script of the family", None


def sorting() -> Res:
    """_build_and_sort_graph / sort_elements / sort_ast through create_dag: permutation in dependency order; cycle error."""
    for stmts in family():
        cyc = G.is_cyclic(stmts)
        for perm in itertools.permutations(stmts):
            kind, val = dag_outcome(perm)
            if cyc:
                if (kind, val) != ("error", "1-3-2-3"):
                    return True, f"cyclic script [{show(perm)}]: create_dag -> {kind} {val} (expected SemanticError 1-3-2-3)", \
                        {"script": show(perm), "outcome": [kind, val]}
            elif kind != "ok" or sorted(val) != sorted(G.outputs(stmts)) or not G.topological_ok(val, stmts):
                return True, (f"[{show(perm)}]: create_dag -> {kind} {val}: not a permutation of the statements with every "
                              "producer before its consumers"), {"script": show(perm), "outcome": [kind, val]}
    return False, "every script of the family is sorted into a dependency order / rejected as cyclic", None


def sort_elements() -> Res:
    D = _dag()
    for n in range(0, 5):
        items = [f"s{i}" for i in range(1, n + 1)]
        for perm in itertools.permutations(range(1, n + 1)):
            dag = D()
            dag.sorting = list(perm)
            try:
                got = dag.sort_elements(list(items))
            except Exception as e:  # noqa: BLE001
                return True, f"sort_elements raised {type(e).__name__}: {e} for sorting={list(perm)}", {"sorting": list(perm)}
            want = [items[x - 1] for x in perm]
            if got != want:
                return True, f"sort_elements({items}) with sorting={list(perm)} -> {got}, expected {want}", \
                    {"sorting": list(perm), "got": got, "expected": want}
    r = sorting()
    return r if r[0] else (False, "sort_elements returns statements[x-1] for x in sorting on all permutations of <= 4", None)


def _fake_stmt(name: str) -> Any:
    core.boot(full=True)
    import vtlengine.AST as A
    return A.Assignment(left=A.VarID(value=name, **KW), op=":=", right=A.VarID(value="DS_1", **KW), **KW)


def overwriting() -> Res:
    """check_overwriting: raises 1-2-2 <=> some name is assigned twice, for every order of the statements."""
    D = _dag()
    for names in (["A"], ["A", "B"], ["A", "A"], ["A", "B", "A"], ["A", "B", "C"], ["A", "B", "C", "A"], ["B", "A", "C", "A"],
                  ["A", "B", "B", "C"], ["A", "B", "C", "D", "B"]):
        dup = len(set(names)) != len(names)
        for perm in set(itertools.permutations(names)):
            try:
                D().check_overwriting([_fake_stmt(n) for n in perm])
                got = "ok"
            except Exception as e:  # noqa: BLE001
                got = err_code(e)
            if got != ("1-2-2" if dup else "ok"):
                return True, (f"check_overwriting on statements assigning {list(perm)} -> {got}; expected "
                              f"{'SemanticError 1-2-2' if dup else 'no error'} (a name is{'' if dup else ' not'} assigned twice)"), \
                    {"assigned_names": list(perm), "outcome": got}
    for stmts in family(3, scalars=False):
        n = len(stmts)
        if n < 2:
            continue
        dup_s = list(stmts[:-1]) + [(stmts[0][0],) + tuple(stmts[-1][1:])]
        ok = stmts[0][0] not in G.reads(dup_s[-1]) and stmts[-1][0] not in {r for s in dup_s for r in G.reads(s)} \
            and not G.is_cyclic(dup_s) and not G.is_cyclic(dup_s[::-1])
        if not ok:
            continue
        for perm in itertools.permutations(dup_s):
            kind, val = dag_outcome(perm)
            if (kind, val) != ("error", "1-2-2"):
                return True, f"script assigning {stmts[0][0]} twice [{show(perm)}]: create_dag -> {kind} {val}", \
                    {"script": show(perm), "outcome": [kind, val]}
    return False, "check_overwriting / create_dag raise 1-2-2 exactly for the scripts that assign a name twice", None


def order_dependent_error() -> Res:
    """The script A := X; B := A; A := B (A assigned twice; cyclic under one of the two producers) in all orders."""
    stmts: List[G.Stmt] = [("A", False, "expr", ("DS_1",), ()), ("B", False, "expr", ("A",), ()),
                           ("A", False, "expr", ("B",), ())]
    seen: Dict[str, str] = {}
    for perm in itertools.permutations(stmts):
        kind, val = dag_outcome(perm)
        seen.setdefault(f"{kind}:{val}", show(perm))
    if len(seen) > 1:
        return True, ("the same three statements, written in different orders, are rejected with different errors: " +
                      "; ".join(f"[{s}] -> {o}" for o, s in seen.items())), {"outcomes": seen}
    return False, f"every order gives {list(seen)}", {"outcomes": seen}


def _deps(stmts: Sequence[G.Stmt]) -> Dict[str, Any]:
    dag = _dag()()
    dag.visit(G.build(stmts))
    out = {}
    for d in dag.dependencies.values():
        name = (d.outputs + d.persistent + ["?"])[0]
        out[name] = (sorted(set(d.inputs)), list(d.outputs), list(d.persistent), sorted(set(d.unknown_variables)))
    return out


def positions() -> Res:
    """The dependency record computed for a statement does not depend on where the statement is written."""
    extra: List[List[G.Stmt]] = [
        [("O1", False, "filter", ("DS_1",), ("sc_a",)), ("O2", False, "expr", ("DS_1", "DS_2"), ()), ("sc_a", False, "scalar", (), ())],
        [("O1", False, "filter", ("DS_1",), ("sc_a", "sc_b")), ("O2", True, "expr", ("O1", "DS_2"), ()),
         ("sc_a", False, "scalar", (), ()), ("sc_b", False, "scalar", (), ())],
    ]
    r = _positions_over(itertools.chain(extra, family(3)))
    if r[0]:
        return r
    r = _positions_over(s for _t, s in G.rich_scripts())
    if r[0]:
        return r
    return False, "dependency records are equal for every written order of every script of the family (sums, filter " \
        "clauses, scalars; joins with aliases colliding with dataset names, UDO calls, membership, calc clauses)", None


def positions_for(attr: str) -> Any:
    """Search directed at ONE analyzer attribute: first the hand-built scripts that exercise that attribute (rich family:
    for `alias` a join whose alias equals a dataset produced by another statement plus a later reader, ...), in all
    written orders; then the whole family."""
    def search() -> Res:
        tagged = [s for t, s in G.rich_scripts() if attr in t]
        r = _positions_over(tagged)
        if r[0]:
            return True, f"scripts exercising DAGAnalyzer.{attr}: " + r[1], r[2]
        return positions()
    return search


def _consequence(first: Sequence[G.Stmt], perm: Sequence[G.Stmt]) -> str:
    """What the differing records do downstream (create_dag order; structures reported by semantic_analysis)."""
    out = []
    try:
        for p in (first, perm):
            kind, val = dag_outcome(p)
            ok = kind == "ok" and G.topological_ok(val, p) if kind == "ok" and sorted(val) == sorted(G.outputs(p)) else False
            out.append(f"create_dag on [{show(p)}] -> {kind} {val}" + ("" if ok else "  (NOT a dependency order)"))
        import C12
        s1, s2 = C12.sem_outcome(first), C12.sem_outcome(perm)
        if s1 != s2:
            out.append(f"semantic_analysis differs: {str(s1)[:160]} vs {str(s2)[:160]}")
    except Exception as e:  # noqa: BLE001
        out.append(f"(consequence not evaluated: {type(e).__name__}: {e})")
    return "; ".join(out)


def _positions_over(scripts: Any) -> Res:
    for stmts in scripts:
        rich = G.is_rich(stmts)
        want = {s[0]: sorted(G.reads(s)) for s in stmts} if rich else None
        ref: Optional[Dict[str, Any]] = None
        first: Any = None
        pending: Optional[Res] = None
        for perm in itertools.permutations(stmts):
            try:
                d = _deps(perm)
            except Exception as e:  # noqa: BLE001
                return True, f"[{show(perm)}]: dependency analysis raised {type(e).__name__}: {e}", {"script": show(perm)}
            if ref is None:
                ref, first = d, perm
            elif d != ref:
                diff = [k for k in ref if ref[k] != d.get(k)]
                cons = _consequence(first, perm) if rich else ""
                return True, (f"dependency record of statement {diff[0]} is {ref[diff[0]]} when the script is written "
                              f"[{show(first)}] and {d.get(diff[0])} when it is written [{show(perm)}] "
                              "(inputs, outputs, persistent, unknown variables)" + (f"; {cons}" if cons else "")), \
                    {"order_1": show(first), "order_2": show(perm), "statement": diff[0],
                     "record_1": ref[diff[0]], "record_2": d.get(diff[0]), "consequence": cons}
            if want is not None and pending is None:
                wrong = [k for k in want if k not in d or d[k][0] != want[k]]
                if wrong:       # reported only when no two written orders differ (that is the better witness)
                    pending = (True, (f"[{show(perm)}] (and every other written order): the inputs recorded for statement "
                                      f"{wrong[0]} are {d.get(wrong[0], ('<no record>',))[0]}; the statement reads "
                                      f"{want[wrong[0]]}"),
                               {"script": show(perm), "statement": wrong[0],
                                "recorded": list(d.get(wrong[0], ("<no record>",))[0]), "reads": want[wrong[0]]})
        if pending is not None:
            return pending
    return False, "dependency records are equal for every written order of every script", None


def promotion() -> Res:
    """Unknown-variable promotion of visit_Start: position independence first, then the producer->consumer edges of
    scripts whose clauses read scalars defined by other statements."""
    r = positions()
    return r if r[0] else vertex_edges()


def sort_ast() -> Res:
    """sort_ast keeps every child exactly once: definitions first, sorted assignments after."""
    import C25
    D = _dag()
    import vtlengine.AST as A
    kinds = ["Assignment", "PersistentAssignment", "Operator", "DPRuleset", "HRuleset", "ViralPropagationDef"]
    for n in (1, 2, 3):
        for seq in itertools.product(kinds, repeat=n):
            children = [C25.native_child(k, i) for i, k in enumerate(seq)]
            ast = A.Start(children=list(children), **KW)
            try:
                D.create_dag(ast)
            except Exception as e:  # noqa: BLE001
                return True, f"Start[{', '.join(seq)}]: create_dag raised {type(e).__name__}: {e}", {"kinds": list(seq)}
            got = list(ast.children)
            if sorted(map(id, got)) != sorted(map(id, children)):
                return True, (f"Start[{', '.join(seq)}]: after create_dag the script has the children "
                              f"{[type(c).__name__ for c in got]} (a statement was lost or duplicated)"), \
                    {"kinds": list(seq), "children_after": [type(c).__name__ for c in got]}
            first_assign = next((i for i, c in enumerate(got) if isinstance(c, A.Assignment)), len(got))
            if any(not isinstance(c, A.Assignment) for c in got[first_assign:]):
                return True, f"Start[{', '.join(seq)}]: a definition follows an assignment after sorting", {"kinds": list(seq)}
    return False, "every child kept exactly once for all kind sequences up to length 3", None


# ---------------------------------------------------------------------------------------------------------------------
# C13
# ---------------------------------------------------------------------------------------------------------------------
def schedule() -> Res:
    """ds_structure after create_dag: insertion at the first reader, deletion at the last reader (producer if unread)."""
    D = _dag()
    for stmts0 in family(3):
        if G.is_cyclic(stmts0):
            continue
        for flip in (False, True):
            stmts = [(s[0], (not s[1]) if flip and s[2] != "scalar" else s[1], s[2], s[3], s[4]) for s in stmts0]
            ast = G.build(stmts)
            try:
                D.create_dag(ast)
                sched = D.ds_structure(ast)
            except Exception as e:  # noqa: BLE001
                return True, f"[{show(stmts)}]: ds_structure raised {type(e).__name__}: {e}", {"script": show(stmts)}
            by = {s[0]: s for s in stmts}
            order = [by[c.left.value] for c in ast.children]
            outs = [s[0] for s in order]
            readers: Dict[str, List[int]] = {}
            for i, s in enumerate(order, 1):
                for r in G.reads(s):
                    readers.setdefault(r, []).append(i)
            gi = sorted(r for r in readers if r not in outs)
            want_ins: Dict[int, List[str]] = {}
            want_del: Dict[int, List[str]] = {}
            for r in gi:
                want_ins.setdefault(min(readers[r]), []).append(r)
                want_del.setdefault(max(readers[r]), []).append(r)
            for i, o in enumerate(outs, 1):
                want_del.setdefault(max(readers.get(o, [i])), []).append(o)
            norm = lambda d: {k: sorted(v) for k, v in d.items() if v}  # noqa: E731
            problems = []
            if norm(sched.insertion) != norm(want_ins):
                problems.append(f"insertion={norm(sched.insertion)} expected {norm(want_ins)} (each input once, at its first reader)")
            if norm(sched.deletion) != norm(want_del):
                problems.append(f"deletion={norm(sched.deletion)} expected {norm(want_del)} (each name once, at its last reader / "
                                "its producer when unread)")
            if sorted(sched.global_inputs) != gi:
                problems.append(f"global_inputs={sorted(sched.global_inputs)} expected {gi}")
            if sorted(sched.persistent) != sorted(s[0] for s in order if s[1]):
                problems.append(f"persistent={sorted(sched.persistent)} expected {sorted(s[0] for s in order if s[1])}")
            if sorted(sched.all_outputs) != sorted(outs):
                problems.append(f"all_outputs={sorted(sched.all_outputs)} expected {sorted(outs)}")
            if problems:
                return True, f"[{show(order)}]: " + "; ".join(problems), {"script": show(order), "problems": problems}
    return False, "schedule equals first-reader / last-reader oracle on every script of the family", None


def executor() -> Res:
    """Real execute_queries / load / cleanup against a ghost store (harness of the bounded tier of C13)."""
    import C13
    D = _dag()
    for stmts0 in family(3):
        if G.is_cyclic(stmts0):
            continue
        for flip in (False, True):
            stmts = [(s[0], (not s[1]) if flip and s[2] != "scalar" else s[1], s[2], s[3], s[4]) for s in stmts0]
            ast = G.build(stmts)
            try:
                D.create_dag(ast)
                sched = D.ds_structure(ast)
            except Exception:  # noqa: BLE001
                continue
            by = {s[0]: s for s in stmts}
            order = [by[c.left.value] for c in ast.children]
            for rop in (True, False):
                try:
                    events, returned = C13.history(order, sched, rop)
                    problem = C13.check_history(order, events, returned, rop)
                except Exception as e:  # noqa: BLE001
                    events, problem = [], f"executor raised {type(e).__name__}: {e}"
                if problem:
                    return True, (f"[{show(order)}] return_only_persistent={rop}: {problem}; events="
                                  f"{[list(e) for e in events]}"), \
                        {"script": show(order), "return_only_persistent": rop, "problem": problem,
                         "insertion": sched.insertion, "deletion": sched.deletion, "events": [list(e) for e in events]}
    return False, "load / create / fetch / drop histories are safe on every script of the family", None
