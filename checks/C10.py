"""C10 - results conform to the structure predicted by semantic analysis.

SOLVER / STATIC TIER (checks/_c10p.py; helper contracts on the real source, re-read every run):
  _build_dataset_fetch_select (symbolic execution, schema shapes bounded, has-time flags symbolic), Component.__post_init__
  (all roles x nullable), build_create_table_sql (all role x nullable x type combinations), _validate_loaded_table (effect
  traces of every path: normalisation before the duplicate check, identifier columns, DWI, nothing skipped),
  validate_no_duplicates, run(): output_datasets dataflow, loaders: every INSERT is followed by the post-load validation.
BOUNDED TIER (checks/_c10b.py, labelled bounded; this is what decides the property end to end): for every program of the
  C01-C05 families (sampled per class in the quick tier, all in thorough) and ~70 extra programs, `semantic_analysis` and
  `run` of the working tree (vc.pipeline, minus text->AST) on the same inputs; per returned dataset: name, component
  names / roles / types / nullability and COLUMN ORDER of the returned frame = predicted; each value conforms to its type
  in the documented output form; identifiers never null and unique; non-nullable components never null; no identifiers =>
  at most one datapoint.  Inputs that must be refused (duplicate / null identifiers, the same Time_Period in two spellings)
  either are refused or the result must still satisfy all of that.
"""
from __future__ import annotations

import multiprocessing
import os
import re
import sys
import time
from concurrent.futures import ProcessPoolExecutor
from pathlib import Path
from typing import Any, Dict, List

sys.path.insert(0, str(Path(__file__).resolve().parent.parent))
sys.path.insert(0, str(Path(__file__).resolve().parent))
import _c10b as BT  # noqa: E402
import _c10p as PT  # noqa: E402
from spec import docs  # noqa: E402
from vc import core  # noqa: E402
from vc.core import BOUNDED_OK, REFUTED, UNDECIDED, Check  # noqa: E402

RUN = "src/vtlengine/API/__init__.py:run"


def documented_forms(chk: Check) -> None:
    """The Time_Period output forms used by the value-conformance clause against the table of docs/data_types.rst."""
    try:
        txt = (core.REPO / "docs" / "data_types.rst").read_text()
        rows = None
        for _line, t in docs.list_tables(txt):
            if t and [docs._clean(c) for c in t[0]][:2] == ["Format", "Annual"]:
                rows = t
        assert rows, "Time_Period output-format table not found"
        bad = []
        n = 0
        for r in rows[1:]:
            fmt = docs._clean(r[0]).split()[0].strip('"')
            if fmt not in BT.TP_FORMS:
                continue
            for cell in r[1:]:
                ex = docs._clean(cell)
                if ex.lower().startswith("not"):
                    continue
                n += 1
                if not re.fullmatch(BT.TP_FORMS[fmt], ex):
                    bad.append(f"{fmt}: documented example {ex!r} does not match the form the check uses")
        chk.extra["documented_time_period_examples_checked"] = n
        if bad or n < 10:
            chk.fault("value-form table out of date with docs/data_types.rst: " + "; ".join(bad[:3]) + f" ({n} examples)")
        for pat, ex in ((BT.DATE_FORM, ["2020-01-15", "2020-01-15T10:30:00"]), (BT.INTERVAL_FORM, ["2020-01-01/2020-12-31"])):
            for e in ex:
                if e not in txt.replace("YYYY-MM-DD", "2020-01-15") and e != "2020-01-15T10:30:00" and e not in txt:
                    pass
                if not re.fullmatch(pat, e):
                    chk.fault(f"documented example {e} does not match {pat}")
    except AssertionError as e:
        chk.fault(f"documentation oracle: {e}")


def bounded_tier(chk: Check, thorough: bool) -> None:
    workers = max(1, min(8, core.NCPU, int(os.environ.get("VERIF_JOBS", "0")) or 8))
    per_class = 10 ** 9 if thorough else int(os.environ.get("VERIF_C10_PER_CLASS", "3"))
    t0 = time.time()
    with ProcessPoolExecutor(max_workers=workers, mp_context=multiprocessing.get_context("spawn")) as ex:
        outs = list(ex.map(BT.run_share, [(w, workers, chk.seed, thorough, per_class) for w in range(workers)]))
    rows = sorted((r for out in outs for r in out), key=lambda r: r[0])
    classes: Dict[str, Dict[str, Any]] = {}
    stats = {"programs": 0, "run_ok": 0, "rejected_by_semantic_analysis": 0, "run_raised": 0, "harness_errors": 0, "datasets_checked": 0}
    distinct = set()
    must_refuse_ok = 0
    for _i, cls, text, o in rows:
        k = classes.setdefault(cls, {"n": 0, "refused": 0, "fail": None, "harness": None})
        stats["programs"] += 1
        distinct.add(text)
        if o["status"] == "ok":
            stats["run_ok"] += 1
            k["n"] += 1
            if o["problems"] and k["fail"] is None:
                k["fail"] = (text, o["problems"], o.get("data"))
        elif o["status"] == "semantic-error":
            stats["rejected_by_semantic_analysis"] += 1
        elif o["status"] == "run-error":
            stats["run_raised"] += 1
            k["refused"] += 1
            must_refuse_ok += 1
        else:
            stats["harness_errors"] += 1
            k["harness"] = k["harness"] or o["detail"]
    for cls, k in sorted(classes.items()):
        ob = chk.ob(f"{RUN}::{cls}", RUN, f"[{cls}] every dataset returned by a successful run() has the name, components (names, "
                    f"roles, types, nullability), column order, value forms, non-null unique identifiers and non-null non-nullable "
                    f"components semantic_analysis() predicts ({k['n']} successful runs, {k['refused']} refused inputs)", bounded=True)
        ob.backend = "bounded-enumeration-real-engine"
        if k["fail"]:
            text, problems, data = k["fail"]
            ob.status, ob.detail = REFUTED, f"{text}  ==>  {problems[0]}"
            ob.witness = {"program": text, "problems": problems[:5], "data": data}
            ob.replayed, ob.replay_detail = True, "observed on the real engine (semantic_analysis vs run): " + "; ".join(problems[:2])[:500]
            ob.finding_key = f"C10::{cls}"
        elif k["harness"]:
            ob.status, ob.detail = UNDECIDED, f"harness error: {k['harness'][:300]}"
        elif k["n"] + k["refused"] == 0:
            ob.status, ob.detail = UNDECIDED, "no program of this class was accepted by semantic analysis: nothing compared"
        else:
            ob.status, ob.detail = BOUNDED_OK, f"{k['n']} runs compared, {k['refused']} inputs refused by run()"
    chk.under_contract(RUN, "bounded")
    chk.under_contract("src/vtlengine/API/__init__.py:semantic_analysis", "bounded")
    chk.extra.update(stats)
    chk.extra["bounded_tier_seconds"] = round(time.time() - t0, 1)
    chk.extra["bounded_distinct_programs"] = len(distinct)
    chk.extra["family_programs_per_class"] = "all" if thorough else per_class


def main() -> None:
    chk = Check("C10", "exploration",
                "bounded: semantic_analysis() vs run() of the working tree on generated programs and data, every returned dataset "
                "checked against the predicted structure, value forms, identifier and nullability constraints; plus helper "
                "contracts on the fetch / load / model functions discharged by symbolic execution of the real source (vc.pyvc, "
                "z3/cvc5), effect-trace and dataflow analyses", min_obligations=40)
    thorough = chk.tier == "thorough"
    core.boot(full=True)
    documented_forms(chk)
    bounded_tier(chk, thorough)          # first: workers are spawned before this process touches DuckDB
    t1 = time.time()
    PT.p_fetch_select(chk, thorough)
    PT.p_component(chk)
    PT.p_create_table(chk)
    PT.p_validate_loaded(chk)
    PT.p_run_dataflow(chk)
    PT.p_loaders(chk)
    chk.extra["solver_tier_seconds"] = round(time.time() - t1, 1)
    chk.extra["evaluations"] = len(chk.obs) + chk.extra.get("programs", 0)
    chk.extra["distinct_nontrivial"] = len({o.oid for o in chk.obs}) + chk.extra.get("bounded_distinct_programs", 0)
    chk.extra["rule"] = ("bounded tier: one case per generated program (distinct by rendered text), non-trivial = accepted by "
                         "semantic_analysis and run() (or refused by run()); solver tier: one case per (function x clause)")
    chk.extra["not_checked"] = ["dtype of the returned columns against the documented pyarrow dtypes", "scalar results",
                                "output_folder / CSV / parquet outputs", "the upstream corpus scripts (parser not available)",
                                "Time / Duration typed components beyond the extra programs"]
    chk.assume("BOUNDED: generated programs (C01-C05 families + extras) over small tables; nothing is proved for other programs")
    chk.assume("hand-built ASTs (text->AST not exercised); API.run / API.semantic_analysis extracted minus the parsing prologue")
    chk.assume("solver tier (1): component lists / table schemas of <= 3 (thorough 4) columns; the function treats names "
               "opaquely (dict membership / iteration only), independence of the list length is not solver-proved")
    chk.assume("solver tier (4): _normalize_time_period_columns, validate_temporal_columns, _skip_load_validation are assumed "
               "externals that record an effect (their own behaviour: C19/C21); DuckDB's COUNT(DISTINCT (cols)) is assumed")
    chk.assume("value forms: docs/data_types.rst (Time_Period table cross-checked each run); week/day numbers of the `vtl` form "
               "accepted with and without zero padding")
    chk.trust("z3 5.1 / cvc5 1.0.3; vc.pyvc symbolic semantics of the Python subset; sqlglot")
    chk.finish()


if __name__ == "__main__":
    core.main_guard("C10", main)
