"""Generic runner of a program family of the bounded tier: engine (extracted API.run on the real DuckDB) vs reference."""
from __future__ import annotations

import random
import re
import sys
import time
from pathlib import Path
from typing import Any, Callable, Dict, List, Optional, Sequence, Tuple

sys.path.insert(0, str(Path(__file__).resolve().parent.parent))
sys.path.insert(0, str(Path(__file__).resolve().parent))
import _programs as PG  # noqa: E402
from spec import vtlref as R  # noqa: E402
from vc import core  # noqa: E402
from vc import pipeline as P  # noqa: E402
from vc.core import BOUNDED_OK, REFUTED, UNDECIDED, Check  # noqa: E402
from vc.e2e import compare_dataset, engine_run  # noqa: E402


def show_ir(t: Any) -> str:
    k = t[0]
    if k in ("ds", "sc", "comp"):
        return t[1]
    if k == "const":
        return repr(t[1])
    if k == "bin":
        if t[1] == "nvl":
            return f"nvl({show_ir(t[2])}, {show_ir(t[3])})"
        return f"({show_ir(t[2])} {t[1]} {show_ir(t[3])})"
    if k == "un":
        return f"{t[1]}({show_ir(t[2])})"
    if k == "in":
        return f"({show_ir(t[1])} {'not_in' if t[3] else 'in'} {{{', '.join(map(repr, t[2]))}}})"
    if k == "between":
        return f"between({show_ir(t[1])}, {show_ir(t[2])}, {show_ir(t[3])})"
    if k == "memb":
        return f"{show_ir(t[1])}#{t[2]}"
    if k == "if":
        return f"if {show_ir(t[1])} then {show_ir(t[2])} else {show_ir(t[3])}"
    if k == "agg" and len(t) == 3:
        return f"{t[1]}({t[2] or ''})"
    if k == "clause":
        return f"{show_ir(t[2])}[{show_clause(t[1], t[3])}]"
    if k == "agg":
        g = f" {t[3]} {', '.join(t[4])}" if t[3] else ""
        h = f" having {show_ir(t[5])}" if t[5] else ""
        return f"{t[1]}({show_ir(t[2])}{g}{h})"
    if k == "join":
        ops = ", ".join(f"{show_ir(x)} as {a}" if a else show_ir(x) for x, a in t[2])
        u = f" using {', '.join(t[3])}" if t[3] else ""
        b = " ".join(show_clause(kk, aa) for kk, aa in t[4])
        return f"{t[1]}({ops}{u}{' ' + b if b else ''})"
    if k == "set":
        return f"{t[1]}({', '.join(show_ir(x) for x in t[2])})"
    return str(t)


def show_clause(kind: str, args: Any) -> str:
    if kind == "filter":
        return f"filter {show_ir(args)}"
    if kind == "calc":
        return "calc " + ", ".join(f"{n} := {show_ir(e)}" for n, e in args)
    if kind in ("keep", "drop"):
        return f"{kind} " + ", ".join(args)
    if kind == "rename":
        return "rename " + ", ".join(f"{o} to {n}" for o, n in args)
    if kind == "sub":
        return "sub " + ", ".join(f"{i} = {v!r}" for i, v in args)
    if kind == "aggr":
        items, gop, gids, having = args
        s = "aggr " + ", ".join(f"{n} := {op}({m or ''})" for n, op, m in items)
        if gop:
            s += f" {gop} {', '.join(gids)}"
        if having:
            s += f" having {show_ir(having)}"
        return s
    return kind


def run_family(pid: str, family: str, technique: str, function: str, bounds: Dict[str, Any],
               extra_assumptions: Sequence[str] = (), min_obligations: int = 3,
               post_hook: Optional[Callable[[Check, Dict[str, Any]], None]] = None) -> None:
    chk = Check(pid, "exploration", technique, min_obligations=min_obligations)
    core.boot(full=True)
    rng = random.Random(chk.seed)
    thorough = chk.tier == "thorough"
    classes: Dict[str, Dict[str, Any]] = {}
    stats = {"programs": 0, "compared": 0, "both_error": 0, "engine_rejected_semantic": 0, "reference_unsupported": 0}
    distinct = set()
    samples: List[Any] = []
    special: Dict[str, Any] = {}
    for label, stmts, tables, scalars in PG.FAMILIES[family](rng, thorough):
        cls = re.sub(r":.*$", "", label)
        if family == "clauses" and ":" in label:
            kinds = sorted(set(label.split(":")[1].strip().split(">")))
            cls = cls + " using " + "+".join(kinds)
        c = classes.setdefault(cls, {"n": 0, "fail": None})
        env: Dict[str, Any] = {t.name: t.rds() for t in tables}
        env.update(scalars)
        text = "; ".join(f"{n} <- {show_ir(t)}" for n, t, _p in stmts)
        stats["programs"] += 1
        try:
            ref: Any = {n: R.ev(t, env) for n, t, _p in stmts}
            rk = "ok"
        except R.RefError as e:
            ref, rk = str(e), "error"
        except R.RefUnsupported:
            stats["reference_unsupported"] += 1
            continue
        except (KeyError, TypeError):
            stats["reference_unsupported"] += 1
            continue
        kind, res = engine_run(stmts, tables, scalars)
        c["n"] += 1
        distinct.add(text)
        problem: Optional[str] = None
        if kind == "error":
            code, exc = res
            is_vtl = type(exc).__module__.startswith("vtlengine")
            if rk == "error":
                stats["both_error"] += 1
                if not is_vtl:
                    problem = f"VTL defines error {ref}; the engine raised the non-VTL {type(exc).__name__}: {str(exc)[:120]}"
            elif is_vtl and str(code).startswith(("1-", "0-")):
                stats["engine_rejected_semantic"] += 1      # the engine does not consider the program valid: no claim
                c["n"] -= 1
            elif "Needed scale" in str(exc) and "multiplication" in str(exc):
                # a failure of its own kind, kept apart from the class verdict (one stable key for all operator classes):
                # DuckDB adds the scales of DECIMAL factors, a product of four Number columns needs scale 40 > 38
                special.setdefault("decimal-scale-overflow", (cls, text, f"reference result exists but run() raised "
                                   f"{type(exc).__name__} {code}: {str(exc)[:200]}",
                                   {t.name: t.rows for t in tables if t.name in text}))
                c["n"] -= 1
            else:
                problem = f"reference result exists but run() raised {type(exc).__name__} {code}: {str(exc)[:140]}"
        elif rk == "error":
            problem = f"VTL defines a runtime error ({ref}) but run() returned a result"
        else:
            stats["compared"] += 1
            for n, _t, _p in stmts:
                if isinstance(ref[n], R.RDS):
                    d = compare_dataset(res[n], ref[n])
                    if d:
                        problem = f"{n}: {d}"
                        break
            if len(samples) < 3:
                samples.append({"program": text, "tables": [t.name for t in tables]})
        if problem and c["fail"] is None:
            c["fail"] = (text, problem, {t.name: t.rows for t in tables if t.name in text})
    for cls, c in sorted(classes.items()):
        ob = chk.ob(f"{function}::{cls}", function, f"[{cls}] run() returns exactly the datapoints and values VTL defines "
                    f"(or the VTL runtime error) on {c['n']} generated programs", bounded=True)
        ob.backend = "bounded-enumeration-real-engine"
        if c["fail"]:
            text, problem, data = c["fail"]
            ob.status, ob.detail = REFUTED, f"{text}  ==>  {problem}"
            ob.witness = {"program": text, "problem": problem, "data": data}
            ob.replayed, ob.replay_detail = True, "observed on the real engine: " + problem
            ob.finding_key = f"{family}::{cls}"
        elif c["n"] == 0:
            ob.status, ob.detail = UNDECIDED, "every program of this class was rejected by semantic analysis or unsupported " \
                                              "by the reference: nothing was compared"
        else:
            ob.status, ob.detail = BOUNDED_OK, f"{c['n']} programs"
    for kind_, (cls_, text, problem, data) in sorted(special.items()):
        ob = chk.ob(f"{function}::{kind_}", function, f"[{kind_}] run() computes the VTL-defined result (first met in class "
                    f"'{cls_}')", bounded=True)
        ob.backend = "bounded-enumeration-real-engine"
        ob.status, ob.detail = REFUTED, f"{text}  ==>  {problem}"
        ob.witness = {"program": text, "problem": problem, "data": data}
        ob.replayed, ob.replay_detail = True, "observed on the real engine: " + problem
        ob.finding_key = f"{family}::{kind_}"
    chk.under_contract(function, "bounded")
    chk.extra.update(stats)
    chk.extra["bounds"] = bounds
    chk.extra["evaluations"] = stats["programs"]
    chk.extra["distinct_nontrivial"] = len(distinct)
    chk.extra["rule"] = "programs enumerated per operator class over fixed small tables (distinct by rendered text); " \
                        "non-trivial = accepted by semantic analysis and compared with the reference (or both raise)"
    chk.extra["extraction_drops"] = P.EXTRACTION_DROPS
    chk.samples = samples + [{"program": c["fail"][0], "problem": c["fail"][1]} for c in classes.values() if c["fail"]][:4]
    chk.assume("BOUNDED: enumerated programs over fixed small tables; nothing is proved for other programs or data")
    chk.assume("reference semantics (spec/vtlref.py) is my reading of VTL 2.1 for the included operators; operators whose "
               "meaning I am not sure of are left out; programs the engine's semantic analysis rejects are not counted")
    chk.assume("text->AST not exercised (hand-built ASTs, shapes per spec/ast_shapes.md)")
    for a in extra_assumptions:
        chk.assume(a)
    if post_hook:
        post_hook(chk, stats)
    chk.finish()
