"""Validation / hierarchy programs for C07 (and the C10 extras): plain-Python rule descriptions, the hand-built ASTs
they correspond to (shapes: spec/ast_shapes.md sec. 9), and a runner on the real engine below the parser
(vc.pipeline: API.run of the working tree minus text->AST).

Rule descriptions (shared with the reference semantics spec/vtlref_validation.py):
  condition c ::= ("cmp", op, x, y) | ("and"|"or", c, c) | ("not", c) | ("isnull", x) | ("col", name) [boolean column]
  operand   x ::= ("col", name) | ("const", value)
  DP rule      = dict(name, when=c|None, then=c, erCode=str|None, erLevel=int|None)
  HR rule      = dict(name, left=item, op in = > < >= <=, right=[(sign, item), ...], erCode, erLevel)
"""
from __future__ import annotations

import sys
from pathlib import Path
from typing import Any, Dict, List, Optional, Sequence, Tuple

sys.path.insert(0, str(Path(__file__).resolve().parent.parent))
from vc import core  # noqa: E402
from vc import pipeline as P  # noqa: E402
from vc.e2e import Table, err_code  # noqa: E402

KW = P.KW


def A() -> Any:
    return P.A()


# ---- rule descriptions -> text (for witnesses) --------------------------------------------------------------------------
def show_cond(c: Any) -> str:
    k = c[0]
    if k == "cmp":
        return f"{show_cond(c[2])} {c[1]} {show_cond(c[3])}"
    if k in ("and", "or"):
        return f"({show_cond(c[1])} {k} {show_cond(c[2])})"
    if k == "not":
        return f"not ({show_cond(c[1])})"
    if k == "isnull":
        return f"isnull({show_cond(c[1])})"
    if k == "col":
        return c[1]
    if k == "const":
        return repr(c[1]) if not isinstance(c[1], str) else f'"{c[1]}"'
    return str(c)


def show_dp_rule(r: Dict[str, Any]) -> str:
    s = f"{r['name']}: " if r.get("name") else ""
    s += f"when {show_cond(r['when'])} then " if r.get("when") is not None else ""
    s += show_cond(r["then"])
    if r.get("erCode") is not None:
        s += f' errorcode "{r["erCode"]}"'
    if r.get("erLevel") is not None:
        s += f" errorlevel {r['erLevel']}"
    return s


def show_hr_rule(r: Dict[str, Any]) -> str:
    rhs = ""
    for i, (sg, it) in enumerate(r["right"]):
        rhs += (f" {sg} " if i else ("- " if sg == "-" else "")) + it
    s = (f"{r['name']}: " if r.get("name") else "") + f"{r['left']} {r['op']} {rhs}"
    if r.get("erCode") is not None:
        s += f' errorcode "{r["erCode"]}"'
    if r.get("erLevel") is not None:
        s += f" errorlevel {r['erLevel']}"
    return s


def show_dpr(name: str, params: Sequence[str], rules: Sequence[Dict[str, Any]]) -> str:
    return f"define datapoint ruleset {name} (variable {', '.join(params)}) is " + "; ".join(map(show_dp_rule, rules)) + \
        " end datapoint ruleset"


def show_hr(name: str, comp: str, rules: Sequence[Dict[str, Any]]) -> str:
    return f"define hierarchical ruleset {name} (variable rule {comp}) is " + "; ".join(map(show_hr_rule, rules)) + \
        " end hierarchical ruleset"


# ---- ASTs ----------------------------------------------------------------------------------------------------------------
def const_node(v: Any) -> Any:
    a = A()
    if v is None:
        return a.Constant(type_="NULL_CONSTANT", value=None, **KW)
    if isinstance(v, bool):
        return a.Constant(type_="BOOLEAN_CONSTANT", value=v, **KW)
    if isinstance(v, int):
        return a.Constant(type_="INTEGER_CONSTANT", value=v, **KW)
    if isinstance(v, float):
        return a.Constant(type_="FLOAT_CONSTANT", value=v, **KW)
    return a.Constant(type_="STRING_CONSTANT", value=v, **KW)


def cond_ast(c: Any) -> Any:
    a = A()
    k = c[0]
    if k == "cmp":
        return a.BinOp(left=cond_ast(c[2]), op=c[1], right=cond_ast(c[3]), **KW)
    if k in ("and", "or"):
        return a.BinOp(left=cond_ast(c[1]), op=k, right=cond_ast(c[2]), **KW)
    if k == "not":
        return a.UnaryOp(op="not", operand=cond_ast(c[1]), **KW)
    if k == "isnull":
        return a.UnaryOp(op="isnull", operand=cond_ast(c[1]), **KW)
    if k == "col":
        return a.VarID(value=c[1], **KW)
    if k == "const":
        return const_node(c[1])
    raise ValueError(c)


def dp_rule_ast(r: Dict[str, Any]) -> Any:
    a = A()
    body = cond_ast(r["then"])
    if r.get("when") is not None:
        body = a.HRBinOp(left=cond_ast(r["when"]), op="when", right=body, **KW)
    ec = r.get("erCode")
    return a.DPRule(name=r.get("name"), rule=body, erCode=None if ec is None else str(ec), erLevel=r.get("erLevel"), **KW)


def dp_ruleset_ast(name: str, params: Sequence[Any], rules: Sequence[Dict[str, Any]]) -> Any:
    """params: component names, or (name, alias) pairs."""
    a = A()
    ps = []
    for p in params:
        n, al = (p, None) if isinstance(p, str) else p
        ps.append(a.DPRIdentifier(value=n, kind="ComponentID", alias=al, **KW))
    return a.DPRuleset(name=name, signature_type="variable", params=ps, rules=[dp_rule_ast(r) for r in rules], **KW)


def check_datapoint_ast(ds: Any, ruleset: str, output: Optional[str], components: Sequence[str] = ()) -> Any:
    a = A()
    out = None if output is None else a.ValidationOutput(output)
    return a.DPValidation(dataset=ds if not isinstance(ds, str) else P.var(ds), ruleset_name=ruleset,
                          components=list(components), output=out, **KW)


def hr_rule_ast(r: Dict[str, Any]) -> Any:
    a = A()

    def di(v: str) -> Any:
        return a.DefIdentifier(value=v, kind="CodeItemID", **KW)
    rhs: Any = None
    for sg, it in r["right"]:
        if rhs is None:
            if sg == "-":
                raise ValueError("a leading minus needs HRUnOp, which the Interpreter cannot visit (spec/ast_shapes.md)")
            rhs = di(it)
        else:
            rhs = a.HRBinOp(left=rhs, op=sg, right=di(it), **KW)
    body = a.HRBinOp(left=di(r["left"]), op=r["op"], right=rhs, **KW)
    ec = r.get("erCode")
    return a.HRule(name=r.get("name"), rule=body, erCode=None if ec is None else str(ec), erLevel=r.get("erLevel"), **KW)


def hr_ruleset_ast(name: str, comp: str, rules: Sequence[Dict[str, Any]]) -> Any:
    a = A()
    return a.HRuleset(name=name, signature_type="variable", element=a.DefIdentifier(value=comp, kind="DatasetID", **KW),
                      rules=[hr_rule_ast(r) for r in rules], **KW)


def hr_op_ast(op: str, ds: Any, ruleset: str, comp: str, mode: Optional[str] = None, input_mode: Optional[str] = None,
              output: Optional[str] = None) -> Any:
    a = A()
    vm = None if mode is None else a.ValidationMode(mode)
    if input_mode is None:
        im = None
    elif op == "hierarchy":
        im = a.HRInputMode(input_mode)
    else:
        im = a.CHInputMode(input_mode)
    if output is None:
        out = None
    elif op == "hierarchy":
        out = a.HierarchyOutput(output)
    else:
        out = a.ValidationOutput(output)
    return a.HROperation(op=op, dataset=ds if not isinstance(ds, str) else P.var(ds), ruleset_name=ruleset,
                         rule_component=a.Identifier(value=comp, kind="ComponentID", **KW), conditions=[],
                         validation_mode=vm, input_mode=im, output=out, **KW)


def check_ast(validation: Any, error_code: Optional[str], error_level: Optional[int], imbalance: Any, invalid: bool) -> Any:
    return A().Validation(op="check", validation=validation, error_code=error_code, error_level=error_level,
                          imbalance=imbalance, invalid=invalid, **KW)


# ---- runner --------------------------------------------------------------------------------------------------------------
def run_ast(stmts: Sequence[Any], tables: Sequence[Table], structures: Optional[Sequence[Dict[str, Any]]] = None,
            frames: Optional[Dict[str, Any]] = None, **run_kw: Any) -> Tuple[str, Any]:
    """stmts: AST statements (definitions first).  Returns ('ok', {name: Dataset|Scalar}) or ('error', (code, exc))."""
    run = P.api_from_ast("run")
    ast = P.start(list(stmts))
    ds = P.structures(list(structures) if structures is not None else [t.structure() for t in tables])
    data = frames if frames is not None else {t.name: t.frame() for t in tables}
    run_kw.setdefault("return_only_persistent", False)
    try:
        return "ok", run(ast, ds, data, **run_kw)
    except Exception as e:  # noqa: BLE001
        return "error", (err_code(e), e)


def semantic_ast(stmts: Sequence[Any], tables: Sequence[Table], structures: Optional[Sequence[Dict[str, Any]]] = None
                 ) -> Tuple[str, Any]:
    sem = P.api_from_ast("semantic_analysis")
    ast = P.start(list(stmts))
    ds = P.structures(list(structures) if structures is not None else [t.structure() for t in tables])
    try:
        return "ok", sem(ast, ds)
    except Exception as e:  # noqa: BLE001
        return "error", (err_code(e), e)


def transpile_ast(stmts: Sequence[Any], structures: Sequence[Dict[str, Any]]) -> List[Tuple[str, str, bool]]:
    """SQL of the real SQLTranspiler for hand-built statements: the DAG / semantic pass / transpile steps of API.run."""
    import copy
    core.boot(full=True)
    from vtlengine.API._InternalApi import load_datasets
    from vtlengine.AST.DAG import DAGAnalyzer
    from vtlengine.duckdb_transpiler.Transpiler import SQLTranspiler
    from vtlengine.Interpreter import InterpreterAnalyzer
    from vtlengine.Model import Dataset, Scalar
    ast = P.start(list(stmts))
    dag = DAGAnalyzer.create_dag(ast)
    ds, sc = load_datasets(P.structures(list(structures)))
    sem = InterpreterAnalyzer(datasets=copy.deepcopy(ds), scalars=copy.deepcopy(sc)).visit(copy.deepcopy(ast))
    out = {k: v for k, v in sem.items() if isinstance(v, Dataset)}
    outs = {k: v for k, v in sem.items() if isinstance(v, Scalar)}
    tr = SQLTranspiler(input_datasets=ds, output_datasets=out, input_scalars=sc, output_scalars=outs, dag=dag)
    return list(tr.transpile(ast))
