"""C10, bounded tier, ATTRIBUTE programs (used by C10 only; the C01-C05 families of checks/_programs.py are not touched).

Every operator class of the families is exercised on datasets that carry a non-viral Attribute (Integer and String
typed) and on datasets that carry a Viral Attribute (with a viral propagation definition in the script): unary, binary
ds-ds / ds-scalar / scalar-ds, dataset if and case with scalar and dataset branches, clauses (calc / keep / drop / rename /
filter / aggr), aggregation, analytic, joins, set operators, membership.  One class (= one finding key) per
operator x configuration x attribute kind, so a defect of one operator is not absorbed by the finding of another.
What is compared is what `_c10b.conformance_problems` compares for every program: the components and the COLUMNS of the
returned frame against the prediction of semantic_analysis() - an attribute the semantic pass keeps and the returned
frame lacks (or the reverse) is a violation of that class.
"""
from __future__ import annotations

import sys
from pathlib import Path
from typing import Any, Callable, Dict, Iterator, List, Sequence, Tuple

sys.path.insert(0, str(Path(__file__).resolve().parent.parent))
sys.path.insert(0, str(Path(__file__).resolve().parent))

N = None


def attr_cases() -> Iterator[Any]:  # noqa: C901
    import pandas as pd
    from _c10b import Case, S
    from spec.vtlref import cid, clause_ast, to_ast
    from vc import pipeline as P
    A = P.A()
    KW = P.KW
    V = P.var
    I, M = "Identifier", "Measure"

    def frame(cols: Sequence[str], rows: Sequence[Sequence[Any]]) -> Any:
        return pd.DataFrame([dict(zip(cols, r)) for r in rows], columns=list(cols))

    def vp_def(target: str) -> Any:
        return A.ViralPropagationDef(name="vp_" + target, signature_type="variable", target=target, enumerated_clauses=[
            A.EnumeratedVpClause(name=None, values=["C", "N"], result="C", **KW)], aggregate_clause=None, default_value="N", **KW)

    # three flavours of the same pair of datasets: plain Integer attribute, plain String attribute, viral String attribute
    flavours: List[Tuple[str, str, str, str, List[Any], bool]] = [
        ("attribute", "At_1", "Integer", "Attribute", [7, N, 9, 4], False),
        ("attribute", "At_1", "String", "Attribute", ["x", N, "y", "x"], False),
        ("viral attribute", "At_1", "String", "Viral Attribute", ["C", "N", "N", "C"], True),
    ]
    for flav, at, at_ty, at_role, at_vals, viral in flavours:
        s1 = S("DS_1", [("Id_1", "Integer", I, False), ("Me_1", "Number", M, True), (at, at_ty, at_role, True)])
        s2 = S("DS_2", [("Id_1", "Integer", I, False), ("Me_1", "Number", M, True), (at, at_ty, at_role, True)])
        s3 = S("DS_3", [("Id_1", "Integer", I, False), ("Me_2", "Number", M, True), (at, at_ty, at_role, True)])
        sm = S("DS_m", [("Id_1", "Integer", I, False), ("Me_1", "Number", M, True), ("Me_2", "Number", M, True), (at, at_ty, at_role, True)])
        f1 = frame(["Id_1", "Me_1", at], [[1, 1.5, at_vals[0]], [2, N, at_vals[1]], [3, -2.0, at_vals[2]], [4, 0.0, at_vals[3]]])
        f2 = frame(["Id_1", "Me_1", at], [[1, 10.0, at_vals[3]], [2, 5.0, at_vals[2]], [5, 1.0, at_vals[0]]])
        f3 = frame(["Id_1", "Me_2", at], [[1, 3.0, at_vals[2]], [3, N, at_vals[0]], [6, 2.0, at_vals[3]]])
        fm = frame(["Id_1", "Me_1", "Me_2", at], [[1, 1.0, 2.0, at_vals[0]], [2, N, 3.0, at_vals[1]], [3, 4.0, N, at_vals[2]]])
        structs = {"DS_1": s1, "DS_2": s2, "DS_3": s3, "DS_m": sm}
        frames = {"DS_1": f1, "DS_2": f2, "DS_3": f3, "DS_m": fm}
        defs: Callable[[], List[Any]] = (lambda at=at: [vp_def(at)]) if viral else (lambda: [])

        def case(cls: str, text: str, expr: Callable[[], Any], used: Sequence[str], flav: str = flav,
                 structs: Dict[str, Any] = structs, frames: Dict[str, Any] = frames, defs: Callable[[], List[Any]] = defs) -> Any:
            return Case(f"{flav}: {cls}", f"{text}   [{', '.join(used)}: At_1 {at_ty} {at_role}]",
                        lambda: defs() + [P.assign("DS_r", expr(), True)], [structs[u] for u in used],
                        lambda: {u: frames[u].copy() for u in used}, None, {})

        D1, D2 = ("ds", "DS_1"), ("ds", "DS_2")
        cond = ("bin", ">", ("memb", D1, "Me_1"), ("const", 0))
        ir = lambda t: (lambda: to_ast(t))  # noqa: E731
        # -- unary / binary
        yield case("unary", "DS_r <- - DS_1", ir(("un", "-", D1)), ["DS_1"])
        yield case("unary", "DS_r <- abs(DS_1)", ir(("un", "abs", D1)), ["DS_1"])
        yield case("unary", "DS_r <- isnull(DS_1)", ir(("un", "isnull", D1)), ["DS_1"])
        yield case("binary ds-scalar", "DS_r <- DS_1 + 2", ir(("bin", "+", D1, ("const", 2))), ["DS_1"])
        yield case("binary ds-scalar", "DS_r <- 2 * DS_1", ir(("bin", "*", ("const", 2), D1)), ["DS_1"])
        yield case("binary ds-scalar", "DS_r <- DS_1 > 0", ir(("bin", ">", D1, ("const", 0))), ["DS_1"])
        yield case("binary ds-ds", "DS_r <- DS_1 + DS_2", ir(("bin", "+", D1, D2)), ["DS_1", "DS_2"])
        yield case("binary ds-ds", "DS_r <- DS_1 = DS_2", ir(("bin", "=", D1, D2)), ["DS_1", "DS_2"])
        yield case("between / in", "DS_r <- between(DS_1, 0, 5)", ir(("between", D1, ("const", 0), ("const", 5))), ["DS_1"])
        yield case("between / in", "DS_r <- DS_1 in {1.5, 2}", ir(("in", D1, [1.5, 2.0], False)), ["DS_1"])
        # -- dataset if / case
        yield case("dataset if, dataset then, scalar else", "DS_r <- if DS_1#Me_1 > 0 then DS_1 else 0",
                   ir(("if", cond, D1, ("const", 0))), ["DS_1"])
        yield case("dataset if, scalar then, dataset else", "DS_r <- if DS_1#Me_1 > 0 then 0 else DS_1",
                   ir(("if", cond, ("const", 0), D1)), ["DS_1"])
        yield case("dataset if, dataset then, null else", "DS_r <- if DS_1#Me_1 > 0 then DS_1 else null",
                   ir(("if", cond, D1, ("const", None))), ["DS_1"])
        yield case("dataset if, dataset branches", "DS_r <- if DS_1#Me_1 > 0 then DS_1 else DS_2",
                   ir(("if", cond, D1, D2)), ["DS_1", "DS_2"])

        def case_node(then: Any, els: Any) -> Callable[[], Any]:
            return lambda: A.Case(cases=[A.CaseObj(condition=to_ast(cond), thenOp=to_ast(then), **KW)], elseOp=to_ast(els), **KW)
        yield case("dataset case, dataset then, scalar else", "DS_r <- case when DS_1#Me_1 > 0 then DS_1 else 0",
                   case_node(D1, ("const", 0)), ["DS_1"])
        yield case("dataset case, scalar then, dataset else", "DS_r <- case when DS_1#Me_1 > 0 then 0 else DS_1",
                   case_node(("const", 0), D1), ["DS_1"])
        yield case("dataset case, dataset branches", "DS_r <- case when DS_1#Me_1 > 0 then DS_1 else DS_2",
                   case_node(D1, D2), ["DS_1", "DS_2"])
        # -- membership
        yield case("membership of a measure", "DS_r <- DS_1#Me_1", ir(("memb", D1, "Me_1")), ["DS_1"])
        yield case("membership of the attribute", "DS_r <- DS_1#At_1", ir(("memb", D1, at)), ["DS_1"])
        yield case("membership of an identifier", "DS_r <- DS_1#Id_1", ir(("memb", D1, "Id_1")), ["DS_1"])
        # -- clauses
        yield case("clause calc", "DS_r <- DS_1[calc Me_9 := Me_1 * 2]",
                   ir(("clause", "calc", D1, [("Me_9", ("bin", "*", ("comp", "Me_1"), ("const", 2)))])), ["DS_1"])
        yield case("clause filter", "DS_r <- DS_1[filter Me_1 > 0]", ir(("clause", "filter", D1, ("bin", ">", ("comp", "Me_1"), ("const", 0)))), ["DS_1"])
        yield case("clause keep", "DS_r <- DS_m[keep Me_1]", ir(("clause", "keep", ("ds", "DS_m"), ["Me_1"])), ["DS_m"])
        yield case("clause keep", "DS_r <- DS_m[keep Me_1, At_1]", ir(("clause", "keep", ("ds", "DS_m"), ["Me_1", at])), ["DS_m"])
        yield case("clause drop", "DS_r <- DS_m[drop Me_2]", ir(("clause", "drop", ("ds", "DS_m"), ["Me_2"])), ["DS_m"])
        yield case("clause drop", "DS_r <- DS_m[drop At_1]", ir(("clause", "drop", ("ds", "DS_m"), [at])), ["DS_m"])
        yield case("clause rename", "DS_r <- DS_1[rename Me_1 to Me_9]", ir(("clause", "rename", D1, [("Me_1", "Me_9")])), ["DS_1"])
        yield case("clause rename", "DS_r <- DS_1[rename At_1 to At_9]", ir(("clause", "rename", D1, [(at, "At_9")])), ["DS_1"])
        yield case("clause sub", "DS_r <- DS_1[sub Id_1 = 1]", ir(("clause", "sub", D1, [("Id_1", 1)])), ["DS_1"])
        yield case("clause aggr", "DS_r <- DS_1[aggr Me_9 := sum(Me_1) group by Id_1]",
                   lambda: clause_ast("aggr", V("DS_1"), ([("Me_9", "sum", "Me_1")], "group by", ["Id_1"], None)), ["DS_1"])
        # -- aggregation / analytic
        agg = lambda op, ds, gop=None, g=None: (lambda: A.Aggregation(  # noqa: E731
            op=op, operand=V(ds), grouping_op=gop, grouping=[cid(x) for x in g] if g else None, **KW))
        yield case("aggregation group by", "DS_r <- sum(DS_1 group by Id_1)", agg("sum", "DS_1", "group by", ["Id_1"]), ["DS_1"])
        yield case("aggregation group by", "DS_r <- count(DS_1 group by Id_1)", agg("count", "DS_1", "group by", ["Id_1"]), ["DS_1"])
        yield case("aggregation without grouping", "DS_r <- max(DS_1)", agg("max", "DS_1"), ["DS_1"])
        ana = lambda op, ds: (lambda: A.Analytic(op=op, operand=V(ds), window=None, params=None, partition_by=["Id_1"],  # noqa: E731
                                                 partition_op="by", order_by=None, **KW))
        yield case("analytic", "DS_r <- sum(DS_1 over (partition by Id_1))", ana("sum", "DS_1"), ["DS_1"])
        yield case("analytic count, two measures", "DS_r <- count(DS_m over (partition by Id_1))", ana("count", "DS_m"), ["DS_m"])
        yield case("analytic, two measures", "DS_r <- sum(DS_m over (partition by Id_1))", ana("sum", "DS_m"), ["DS_m"])
        # -- joins
        for jop in ("inner_join", "left_join", "full_join"):
            yield case(f"{jop} (attribute on one side)", f"DS_r <- {jop}(DS_1, DS_3[drop At_1])",
                       (lambda jop=jop: to_ast(("join", jop, [(D1, None), (("clause", "drop", ("ds", "DS_3"), [at]), None)], None, []))),
                       ["DS_1", "DS_3"])
            yield case(f"{jop} (attribute on both sides, aliases)", f"DS_r <- {jop}(DS_1 as d1, DS_3 as d2 keep Me_1, Me_2, d1#At_1)",
                       (lambda jop=jop: to_ast(("join", jop, [(D1, "d1"), (("ds", "DS_3"), "d2")], None,
                                                [("keep", ["Me_1", "Me_2", f"d1#{at}"])]))), ["DS_1", "DS_3"])
        # -- set operators
        for sop in ("union", "intersect", "setdiff", "symdiff"):
            yield case(f"set operator {sop}", f"DS_r <- {sop}(DS_1, DS_2)", ir(("set", sop, [D1, D2])), ["DS_1", "DS_2"])
