"""C07 - validation and hierarchy operators report exactly the failing datapoints.

SOLVER TIER (unbounded in the data values; checks/_c07p.py).  The SQL text emitted by the REAL transpiler
(`SQLTranspiler.transpile` after the real DAG + semantic passes, on hand-built ASTs) is evaluated row-wise over
symbolic nullable values (vc.sqlrow / vc.sqlvc: three-valued logic, null-strict operators, CASE forks) and proved
equal to the VTL rule semantics evaluated by an independent symbolic evaluator:
  _build_dp_rule_sql / visit_DPValidation   rule `when w then t errorcode c errorlevel l` (and without when), w,t
      comparisons / boolean columns / and-or-not-isnull compounds over nullable columns, per output mode:
        invalid       : datapoint returned  <=>  rule FALSE (w TRUE and t FALSE; NULL or TRUE outcomes never)
        all, all_meas.: every datapoint returned; bool_var = t if w TRUE, TRUE if w FALSE, not FALSE if w NULL
        errorcode / errorlevel = the rule's code / level where the rule is FALSE, NULL everywhere else
        ruleid = rule name or written position; identifiers (and measures) passed through; one SELECT per rule
  visit_Validation (check)                  bool_var = 3-valued comparison, imbalance = imbalance operand's measure
      (= left - right), errorcode/errorlevel exactly where FALSE, invalid keeps exactly the FALSE datapoints
  _build_check_hr_rule_select               per rule, validation mode and output: imbalance = left - right and
      bool_var = left <op> right over the mode-substituted item values, errorcode/errorlevel exactly where FALSE,
      the datapoint is produced / not produced where the mode prescribes / forbids it (open cases unconstrained)
  _build_hierarchy_rule_cte (+ final SELECT) single `=` rule: value = signed sum, produced per mode
  under the ASSUMED pivot invariant (_val_X = measure of code item X in the group, _has_X = 1 iff it has a datapoint).
BOUNDED TIER (checks/_c07b.py, labelled bounded): rulesets of 1-3 rules (1-5 thorough) x output modes x the six
validation modes x the three hierarchy input modes x generated datasets with nulls / zeros / missing datapoints, run
on the real engine below the parser and compared with spec/vtlref_validation.py; the reference manual's worked
examples shipped in tests/ReferenceManual; HRDAGAnalyzer.sort_hr_rules exhaustively over small rule graphs.
"""
from __future__ import annotations

import multiprocessing
import os
import sys
import time
from concurrent.futures import ProcessPoolExecutor
from pathlib import Path
from typing import Any, Dict, List, Tuple

sys.path.insert(0, str(Path(__file__).resolve().parent.parent))
sys.path.insert(0, str(Path(__file__).resolve().parent))
import _c07b as BT  # noqa: E402
import _c07p as PT  # noqa: E402
from spec import vtlref_validation as RV  # noqa: E402
from vc import core, sqlconf, sqlrow  # noqa: E402
from vc.core import BOUNDED_OK, DISCHARGED, REFUTED, UNDECIDED, Check  # noqa: E402
from vc.sqlvc import NULL, SV, SqlOutside  # noqa: E402

DAG = "src/vtlengine/AST/DAG/__init__.py:HRDAGAnalyzer.sort_hr_rules"
RUN = "src/vtlengine/API/__init__.py:run"


def model_conformance(chk: Check) -> None:
    """The SQL semantics model against the real DuckDB on the connectives the generated templates use."""
    conn = sqlconf.conn()
    eng = sqlrow.RowEngine(macros={})
    bools, ints = [True, False, None], [-1, 0, 2, None]
    bexprs = ["a AND b", "a OR b", "NOT a", "a IS FALSE", "a IS NOT FALSE", "a IS NULL", "a IS NOT NULL", "(a) AND NOT (b)",
              "CASE WHEN (a) THEN (b) WHEN NOT (a) THEN TRUE ELSE NULL END", "CASE WHEN NOT (a) THEN TRUE ELSE b END",
              "CASE WHEN (a) AND NOT (b) THEN 1 ELSE NULL END", "CASE WHEN a IS NOT FALSE THEN CAST(NULL AS VARCHAR) ELSE 'E' END",
              "CASE WHEN a IS FALSE THEN 'E' ELSE NULL END", "CASE WHEN (a) THEN (b) ELSE TRUE END"]
    iexprs = ["x = y", "x >= y", "x < y", "x <> y", "x != 0", "x - y", "x + y", "(x - (y + x))", "CASE WHEN x = 0 THEN 0 ELSE y END",
              "(x IS NOT NULL AND x = 0)", "NOT ((x IS NOT NULL AND x = 0) AND (y IS NOT NULL AND y = 0))", "(x IS NULL OR x != 0)",
              "CAST(NULL AS DOUBLE)", "(x = 1 AND y IS NOT NULL)", "(x > y) AND NOT (y <= 0)"]
    n, bad = 0, []

    def lit(v: Any) -> str:
        return "NULL" if v is None else ("TRUE" if v is True else "FALSE" if v is False else str(v))

    def sv(v: Any) -> SV:
        return NULL if v is None else (SV("bool", v, False) if isinstance(v, bool) else SV("int", v, False))
    for exprs, vals, names, cast in ((bexprs, bools, ("a", "b"), "BOOLEAN"), (iexprs, ints, ("x", "y"), "INTEGER")):
        for e in exprs:
            for p in vals:
                for q in vals:
                    real = conn.execute(f"SELECT {e} FROM (SELECT CAST({lit(p)} AS {cast}) AS {names[0]}, "
                                        f"CAST({lit(q)} AS {cast}) AS {names[1]})").fetchone()[0]
                    try:
                        paths = eng.explore(lambda: eng.eval_sql(e, {names[0]: sv(p), names[1]: sv(q)}))
                        got = sqlconf.from_sv(paths[0].value) if len(paths) == 1 and paths[0].kind == "value" else ("?", paths[0].kind)
                    except SqlOutside:
                        continue
                    n += 1
                    if isinstance(real, float) and real == int(real):
                        real = int(real)
                    if got != real:
                        bad.append(f"{e} [{names[0]}={p}, {names[1]}={q}]: model {got!r} != DuckDB {real!r}")
    chk.extra["model_conformance"] = {"cases": n, "mismatches": len(bad)}
    if bad:
        chk.fault("SQL semantics model disagrees with the real DuckDB: " + "; ".join(bad[:3]))


def finding_key(cls: str) -> str:
    if cls.startswith("hierarchy ") and cls.endswith(" input dataset"):
        return "C07::hierarchy-input-mode-dataset"
    return "C07::" + cls


def bounded_tier(chk: Check, thorough: bool) -> None:
    cases = BT.all_cases(chk.seed, thorough, core.REPO)
    workers = max(1, min(8, core.NCPU, int(os.environ.get("VERIF_JOBS", "0")) or 8))
    chunks: List[List[Dict[str, Any]]] = [cases[i::workers] for i in range(workers)]
    t0 = time.time()
    with ProcessPoolExecutor(max_workers=workers, mp_context=multiprocessing.get_context("spawn")) as ex:
        outs = list(ex.map(BT.run_chunk, chunks))
    results: Dict[int, Dict[str, Any]] = {}
    for w, out in enumerate(outs):
        for j, o in enumerate(out):
            results[w + j * workers] = o
    classes: Dict[str, Dict[str, Any]] = {}
    stats = {"programs": len(cases), "compared": 0, "skipped": 0, "unspecified_datapoints_not_compared": 0}
    distinct = set()
    for i, c in enumerate(cases):
        o = results[i]
        k = classes.setdefault(c["cls"], {"n": 0, "fail": None, "skip": None})
        text = BT.describe(c)
        distinct.add(text + repr(c.get("rows", ""))[:40])
        if o["skipped"]:
            stats["skipped"] += 1
            k["skip"] = k["skip"] or o["skipped"]
            continue
        k["n"] += 1
        stats["compared"] += 1
        stats["unspecified_datapoints_not_compared"] += o["unspec"]
        if o["problem"] and k["fail"] is None:
            k["fail"] = (text, o["problem"], o["data"])
    for cls, k in sorted(classes.items()):
        ob = chk.ob(f"{RUN}::{cls}", RUN, f"[{cls}] run() returns exactly the datapoints, outcomes, error codes/levels and "
                    f"imbalances VTL defines on {k['n']} generated program(s)", bounded=True)
        ob.backend = "bounded-enumeration-real-engine"
        if k["fail"]:
            text, problem, data = k["fail"]
            ob.status, ob.detail = REFUTED, f"{text}  ==>  {problem}"
            ob.witness = {"program": text, "problem": problem, "data": data}
            ob.replayed, ob.replay_detail = True, "observed on the real engine: " + problem
            ob.finding_key = finding_key(cls)
        elif k["n"] == 0:
            ob.status, ob.detail = UNDECIDED, f"nothing compared: {k['skip']}"
        else:
            ob.status, ob.detail = BOUNDED_OK, f"{k['n']} programs"
    chk.under_contract(RUN, "bounded")
    chk.extra.update(stats)
    chk.extra["bounded_tier_seconds"] = round(time.time() - t0, 1)
    chk.extra["bounded_distinct_programs"] = len(distinct)


def sort_tier(chk: Check, thorough: bool) -> None:
    r = BT.check_sort_hr_rules(thorough)
    chk.under_contract(DAG, "bounded")
    chk.extra["sort_hr_rules"] = r["stats"]
    for oid, clause, bad, key in (
            ("permutation", "sort_hr_rules leaves a permutation of the ruleset's rules (no rule lost or duplicated)", r["bad_perm"],
             "C07::sort_hr_rules::permutation"),
            ("dependency-order", "after sort_hr_rules every `=` rule comes after the `=` rules that compute its right-hand code items",
             r["bad_order"], "C07::sort_hr_rules::dependency-order"),
            ("no-spurious-cycle", "sort_hr_rules raises the cycle error 1-3-2-3 only when the `=` rules are cyclic (comparison rules "
             "define nothing)", r["bad_cycle"], "C07::sort_hr_rules::spurious-cycle"),
            ("no-other-exception", "sort_hr_rules raises nothing else", r["other"], "C07::sort_hr_rules::exception")):
        ob = chk.ob(f"{DAG}::{oid}", DAG, clause + f" [exhaustive over {r['stats']['rulesets']} rulesets of <= 3 rules over "
                    f"{'4' if thorough else '3'} code items]", bounded=True)
        ob.backend = "bounded-exhaustive-native"
        if bad is None:
            ob.status, ob.detail = BOUNDED_OK, str(r["stats"])
        else:
            ob.status = REFUTED
            ob.witness = {"ruleset": [BT.VPshow(x) for x in bad[0]], "observed": [str(x) for x in bad[1:]]}
            ob.detail = f"{ob.witness['ruleset']} -> {ob.witness['observed']}"
            ob.replayed, ob.replay_detail = True, "observed on the real HRDAGAnalyzer.sort_hr_rules: " + ob.detail[:400]
            ob.finding_key = key


def main() -> None:
    chk = Check("C07", "exploration",
                "row-level symbolic evaluation (vc.sqlrow on vc.sqlvc, 3VL) of the SQL emitted by the real transpiler for "
                "datapoint rules, check, check_hierarchy and hierarchy rules, VCs against an independent symbolic VTL rule "
                "evaluator discharged by z3/cvc5, counter-models replayed on the real engine; plus a bounded tier: generated "
                "rulesets x modes x datasets on the real engine vs a reference evaluation, the manual's worked examples, and "
                "sort_hr_rules exhaustively over small rule graphs", min_obligations=150)
    thorough = chk.tier == "thorough"
    core.boot(full=True)
    t0 = time.time()
    bounded_tier(chk, thorough)              # first: worker processes are spawned before this process touches DuckDB
    sort_tier(chk, thorough)
    model_conformance(chk)
    t1 = time.time()
    PT.p_datapoint_rules(chk)
    PT.p_check(chk)
    PT.p_hierarchy_rules(chk, RV.MODES)
    PT.BATCH.run()
    chk.extra["solver_tier_seconds"] = round(time.time() - t1, 1)
    chk.extra["evaluations"] = len(chk.obs) + chk.extra.get("programs", 0)
    chk.extra["distinct_nontrivial"] = len({o.oid for o in chk.obs}) + chk.extra.get("bounded_distinct_programs", 0)
    chk.extra["rule"] = ("solver tier: one case per (generated SQL template x clause); bounded tier: one case per generated "
                         "program x dataset (distinct by rendered text + data); non-trivial = solver run / compared with the reference")
    chk.extra["unspecified_left_out"] = RV.UNSPECIFIED
    chk.extra["null_antecedent_clause_sources"] = RV.NULL_ANTECEDENT_SOURCES   # `when` NULL => outcome NULL (was unspecified)
    chk.extra["bounds"] = {"rules_per_ruleset": "1-5" if thorough else "1-3", "code_items": "A-E", "groups": 3,
                           "validation_modes": list(RV.MODES), "hierarchy_input_modes": ["rule", "dataset", "rule_priority"],
                           "outputs": ["invalid", "all", "all_measures", "computed", "all"]}
    chk.assume("ASSUMED (solver tier): the _pivot CTE (GROUP BY / MAX(CASE ...)) holds per group _val_X = measure of code item "
               "X (NULL when missing or NULL) and _has_X = 1 iff a datapoint exists; the aggregation itself, the CTE chain "
               "between several hierarchy rules and UNION ALL across rules are exercised by the bounded tier only")
    chk.assume("ASSUMED: DuckDB evaluates the scalar connectives as the sqlvc model does (sampled against the real DuckDB on "
               "every run: all 3-valued combinations of the connectives the templates use)")
    chk.assume("solver tier: measures range over mathematical integers (DOUBLE/DECIMAL rounding not modelled); the rule "
               "conditions are comparisons, boolean columns and and/or/not/isnull compounds (other operators reach the same "
               "templates through the operator registry, which is C01's subject)")
    chk.assume("BOUNDED: generated rulesets / modes / datasets; nothing is proved for other programs or data; hand-built ASTs "
               "(text->AST not exercised)")
    chk.assume("reference semantics spec/vtlref_validation.py = my reading of the VTL 2.1 reference manual; every case I am not "
               "certain of is answered UNSPEC and not compared (list: coverage.unspecified_left_out)")
    chk.trust("z3 5.1 / cvc5 1.0.3; sqlglot parser; vc.sqlvc semantics model")
    chk.notes.append("hierarchy rule ordering effects, multi-rule CTE chains, pivot aggregation: bounded tier only")
    chk.finish()


if __name__ == "__main__":
    core.main_guard("C07", main)
