"""C32 — execution failures surface as VTL errors, not raw engine errors.

Exception-flow contracts on the real source:
  io/_execution.py:_map_query_error(error, sql)    ensures  result is a VTLEngineException (catalogued code) for EVERY
                                                            message text (path-exhaustive symbolic execution, vc.pyvc)
  io/_validation.py:map_duckdb_error(...)          ensures  result is a DataLoadError for every message text
  every error('...') text of sql/*.sql and of the transpiler / loader templates (extracted each run)
                                                   ensures  the real mapper turns it into a VTL exception whose code
                                                            is the one named in the text (when the text names one)
  io/_execution.py: every statement that talks to DuckDB on the run() path (conn.execute / .sql / fetchdf / COPY)
                                                   ensures  it lies inside a handler that converts duckdb.Error
                                                            (call-site clause over execute_queries and its callees)
Bounded tier: runtime-failing programs executed through the extracted API.run on the real DuckDB; the exception that
escapes must be a VTLEngineException.
"""
from __future__ import annotations

import ast
import re
import sys
from pathlib import Path
from typing import Any, Dict, List, Optional, Tuple

sys.path.insert(0, str(Path(__file__).resolve().parent.parent))
from vc import core, pystrops, smt  # noqa: E402
from vc.core import BOUNDED_OK, DISCHARGED, REFUTED, UNDECIDED, Check  # noqa: E402
from vc.pysrc import module_ast, qualname_of  # noqa: E402
from vc.pyvc import ClassV, Engine, ObjV, PathResult, builtin_class  # noqa: E402

EXEC = "duckdb_transpiler/io/_execution.py"


def sql_error_texts() -> List[Tuple[str, int, str]]:
    """(file, line, constant head) of every error('...') in the SQL macro files and python SQL templates."""
    out = []
    base = core.SRC / "duckdb_transpiler"
    for p in sorted(base.rglob("*.sql")):
        txt = p.read_text()
        for m in re.finditer(r"error\(\s*'((?:[^']|'')*)'", txt):
            out.append((core.rel_src(p), txt[: m.start()].count("\n") + 1, m.group(1)))
    for p in sorted(base.rglob("*.py")):
        tree = ast.parse(p.read_text())
        consts: Dict[str, str] = {}
        for n in ast.walk(tree):
            if isinstance(n, ast.Assign) and len(n.targets) == 1 and isinstance(n.targets[0], ast.Name):
                s = _const_str(n.value)
                if s is not None:
                    consts[n.targets[0].id] = s
        for n in ast.walk(tree):
            s = _const_str(n) if isinstance(n, (ast.JoinedStr, ast.Constant)) else None
            if s and "error(" in s:
                for m in re.finditer(r"error\(\s*\{(\w+)\}", s):
                    head = consts.get(m.group(1))
                    if head:
                        out.append((core.rel_src(p), n.lineno, head.strip("'")))
                for m in re.finditer(r"error\(\s*'((?:[^']|'')*)'", s):
                    out.append((core.rel_src(p), n.lineno, m.group(1)))
    seen = set()
    uniq = []
    for f, ln, t in out:
        if (f, t) not in seen:
            seen.add((f, t))
            uniq.append((f, ln, t))
    return uniq


def _const_str(n: ast.AST) -> Optional[str]:
    if isinstance(n, ast.Constant) and isinstance(n.value, str):
        return n.value
    if isinstance(n, ast.JoinedStr):
        parts = []
        for v in n.values:
            if isinstance(v, ast.Constant):
                parts.append(str(v.value))
            else:
                parts.append("{" + (v.value.id if isinstance(v, ast.FormattedValue) and isinstance(v.value, ast.Name) else "?") + "}")
        return "".join(parts)
    if isinstance(n, ast.BinOp) and isinstance(n.op, ast.Add):
        a, b = _const_str(n.left), _const_str(n.right)
        return a + b if a is not None and b is not None else None
    return None


def mapper_totality(chk: Check, rel: str, fname: str, want_base: str, extra_args: int) -> None:
    f = f"src/vtlengine/{rel}:{fname}"
    ob = chk.ob(f"{f}::total", f, f"for every DuckDB error message the function returns a {want_base} (never the raw "
                "error, never raises)")
    ob.backend = "pyvc-paths"
    try:
        eng = Engine(max_paths=20000)
        eng.nondet_opaque = True      # a CONDITION on an unmodelled value may go either way ...
        pystrops.install(eng)         # ... but partial operations are modelled with their raising outcome: split ->
        #                               list of symbolic length (lst[k] raises IndexError unless the path forces
        #                               len > k), re.search -> None | match (None.group raises AttributeError, group(k)
        #                               IndexError), int(text) ValueError, dict[text] KeyError; an operation on a value
        #                               that is still unmodelled leaves the subset (undecided), it is never "total"
        msg = eng.sym_str("message")

        class Err:
            def _pyvc_str(self, e: Any) -> Any:
                return msg
        err = Err()
        args: List[Any] = [err] + ["DS_1", {}][:extra_args] if extra_args else [err, eng.sym_str("sql")]
        paths = eng.explore(eng.func(rel, fname), args)
        chk.under_contract(f)
        ab = [p for p in paths if p.kind == "abort"]
        if ab:
            ob.status, ob.detail = UNDECIDED, ab[0].abort_reason
            return
        base = eng.lookup_global("Exceptions/__init__.py", want_base)
        vtl_base = eng.lookup_global("Exceptions/__init__.py", "VTLEngineException")

        def is_a(v: Any, b: Any) -> bool:
            return isinstance(v, ObjV) and isinstance(v.cls, ClassV) and v.cls.is_subclass_of(b)
        groups: Dict[str, List[PathResult]] = {}
        for p in paths:
            v = p.value
            if p.kind == "return" and is_a(v, base):
                continue
            if p.kind == "raise" and is_a(v, vtl_base):
                continue          # a VTL exception raised by the mapper itself still surfaces as a VTL error
            if p.kind == "raise":
                cls = getattr(getattr(v, "cls", None), "name", None) or type(v).__name__
                groups.setdefault(f"raises-{cls}", []).append(p)
            else:
                groups.setdefault("fall-through", []).append(p)
        chk.extra.setdefault("mapper_paths", {})[fname] = len(paths)
        if not groups:
            ob.status, ob.detail = DISCHARGED, f"{len(paths)} paths, every one returns a {want_base}"
            return
        first = True
        for gname, bad in sorted(groups.items()):
            o = ob if first else chk.ob(f"{f}::total::{gname}", f, ob.clause)
            first = False
            o.backend = "pyvc-paths"
            p = bad[0]
            what = f"raises {gname[7:]}" if gname.startswith("raises-") else f"returns {str(p.value)[:80]}"
            o.status = REFUTED
            o.detail = f"{len(bad)} of {len(paths)} paths do not end in a {want_base}: the mapper {what} under " \
                       f"{[str(c.sx)[:70] for c in p.pc if smt.is_sym(c)][-4:]}"
            o.finding_key = f"{fname}::{gname}"
            o.witness = {"outcome": p.kind, "value": str(p.value)[:120], "group": gname}
            # concrete message: solver model of the path condition first, then texts built from its literals
            cands: List[str] = []
            for q in bad[:4]:
                try:
                    t = pystrops.model_text(eng, q.pc, msg, timeout=10.0)
                except Exception:  # noqa: BLE001
                    t = None
                for t1 in ([t, t.upper()] if t is not None else []):
                    if t1 not in cands:
                        cands.append(t1)
                for t2 in pystrops.literal_candidates(q.pc, msg, q.effects):
                    if t2 not in cands:
                        cands.append(t2)
            have_model = bool(cands)
            if gname == "fall-through":
                cands.append("Binder Error: some failure no branch recognises")
            want_exc = gname[7:] if gname.startswith("raises-") else None
            hit: Optional[Tuple[str, str]] = None
            tried = []
            for text in cands:
                is_bad, detail, raised = replay_mapper(rel, fname, text, want_base)
                tried.append(text)
                if is_bad and (want_exc is None or raised == want_exc):
                    hit = (text, detail)
                    break
                if is_bad and hit is None:
                    hit = (text, detail)
            if hit is not None:
                o.replayed, o.replay_detail = True, hit[1]
                o.witness["message"] = hit[0]
            elif have_model:
                o.replayed = False
                o.replay_detail = f"no concrete message reproduced the outcome on the real {fname}; tried {tried[:4]}"
            else:
                o.replayed, o.replay_detail = None, "no concrete message could be derived from the path condition"
    except Exception as e:  # noqa: BLE001
        ob.status, ob.detail = UNDECIDED, f"{type(e).__name__}: {e}"


def replay_mapper(rel: str, fname: str, text: str, want_base: str) -> Tuple[bool, str, Optional[str]]:
    """(outcome violates the clause, description, name of the raised exception class) of the REAL mapper on `text`,
    tried with duckdb.Error and duckdb.ConversionException."""
    core.boot(full=True)
    import importlib
    import duckdb
    mod = importlib.import_module("vtlengine." + rel[:-3].replace("/", "."))
    exc = importlib.import_module("vtlengine.Exceptions")
    fn = getattr(mod, fname)
    last = (False, "", None)
    for ecls in (duckdb.Error, duckdb.ConversionException):
        e = ecls(text)
        call = f"real {fname}(duckdb.{ecls.__name__}({text!r}))"
        try:
            r = fn(e, "SELECT 1") if fname == "_map_query_error" else fn(e, "DS_1", {})
        except Exception as ex:  # noqa: BLE001
            if isinstance(ex, exc.VTLEngineException):
                last = (False, f"{call} raises the VTL exception {type(ex).__name__}", type(ex).__name__)
                continue
            return True, f"{call} raises {type(ex).__name__}: {ex}", type(ex).__name__
        if not isinstance(r, getattr(exc, want_base)):
            return True, f"{call} returns {type(r).__name__}: {str(r)[:100]}", None
        last = (False, f"{call} returns {type(r).__name__}: {str(r)[:100]}", None)
    return last


def main() -> None:  # noqa: C901
    chk = Check("C32", "proof", "exception-flow contracts: path-exhaustive symbolic execution of the two DuckDB error mappers "
                "(every message text), native mapping of every error('...') text extracted from the SQL sources, "
                "call-site clause that every DuckDB interaction of the run() path sits inside a converting handler",
                min_obligations=10)
    core.boot(full=True)
    import importlib
    import duckdb
    exc = importlib.import_module("vtlengine.Exceptions")
    ex_mod = importlib.import_module("vtlengine.duckdb_transpiler.io._execution")
    from vtlengine.Exceptions.messages import centralised_messages

    mapper_totality(chk, EXEC, "_map_query_error", "VTLEngineException", 0)
    mapper_totality(chk, "duckdb_transpiler/io/_validation.py", "map_duckdb_error", "DataLoadError", 2)

    # ---- every error('...') text the engine's own SQL can raise is mapped to its VTL error ----------------------------
    texts = sql_error_texts()
    f = f"src/vtlengine/{EXEC}:_map_query_error"
    for file, line, head in texts:
        if "has non-zero decimal component" in head or "is not in the correct format" in head or file.endswith("_io.py") \
                or file.endswith("_validation.py"):
            continue          # load-time checks: mapped by map_duckdb_error (total, see above)
        ob = chk.ob(f"{f}::maps::{head[:48]}", f"src/vtlengine/{file}",
                    f"error text {head[:60]!r} ({file}:{line}) is converted into a VTL exception" +
                    (" with the code it names" if re.search(r"\d-\d+-\d+-\d+", head) else ""))
        ob.backend = "native-const-eval"
        msg = f"Invalid Input Error: {head}X vs Y"
        try:
            r = ex_mod._map_query_error(duckdb.Error(msg), "SELECT 1")
        except Exception as e:  # noqa: BLE001
            ob.status, ob.detail = REFUTED, f"mapper raises {type(e).__name__}: {e}"
            ob.replayed, ob.replay_detail, ob.finding_key = True, ob.detail, f"maps::{head[:40]}"
            continue
        named = re.search(r"(\d-\d+-\d+-\d+)", head)
        code = r.args[1] if isinstance(r, exc.VTLEngineException) and len(r.args) > 1 else None
        if not isinstance(r, exc.VTLEngineException):
            ob.status = REFUTED
            ob.detail = f"_map_query_error returns the raw {type(r).__name__} for the engine's own error text {head[:70]!r}"
        elif named and code != named.group(1):
            ob.status = REFUTED
            ob.detail = f"text names code {named.group(1)} but the mapper returns code {code}"
        elif code not in centralised_messages:
            ob.status, ob.detail = REFUTED, f"mapped code {code} is not catalogued"
        else:
            ob.status = DISCHARGED
        if ob.status == REFUTED:
            ob.witness = {"sql_error_text": head, "source": f"{file}:{line}", "mapped_to": f"{type(r).__name__} {code}"}
            ob.replayed, ob.replay_detail = True, ob.detail
            ob.finding_key = f"maps::{head[:40]}"

    # ---- call-site clause: DuckDB interactions of the run() path sit inside converting handlers --------------------
    callsite_clause(chk)
    chk.extra["sql_error_texts"] = len(texts)
    chk.assume("a DuckDB failure reaches Python only as duckdb.Error raised by a connection method (execute / sql / "
               "fetchdf / fetchone / register / COPY via execute)")
    chk.assume("raise sites of ValueError / NotImplementedError / KeyError inside the transpiler are not proved unreachable "
               "for semantically valid scripts (not covered)")
    chk.assume("bounded tier with runtime-failing programs is part of C01's program pool, not repeated here")
    chk.finish()


def callsite_clause(chk: Check) -> None:
    tree = module_ast(EXEC)
    fns = {n.name: n for n in tree.body if isinstance(n, ast.FunctionDef)}
    # functions reachable from execute_queries inside this module
    reach = set()
    todo = ["execute_queries"]
    while todo:
        n = todo.pop()
        if n in reach or n not in fns:
            continue
        reach.add(n)
        for c in ast.walk(fns[n]):
            if isinstance(c, ast.Call) and isinstance(c.func, ast.Name) and c.func.id in fns:
                todo.append(c.func.id)
    db_methods = {"execute", "sql", "fetchdf", "fetchone", "fetchall", "df", "register", "unregister"}

    def protected(node: ast.AST, fn: ast.FunctionDef) -> bool:
        cur = getattr(node, "_parent", None)
        child = node
        while cur is not None and cur is not fn:
            if isinstance(cur, ast.Try) and child in cur.body:
                for h in cur.handlers:
                    t = ast.unparse(h.type) if h.type is not None else "BaseException"
                    if any(k in t for k in ("duckdb.Error", "Exception", "BaseException")):
                        # the handler must raise something (mapped), not swallow / re-raise raw only
                        if any(isinstance(x, ast.Raise) for x in ast.walk(h)):
                            return True
            child, cur = cur, getattr(cur, "_parent", None)
        return False

    # a callee is covered when every call of it (transitively up to execute_queries) is protected
    def call_protected(name: str, seen: Tuple[str, ...] = ()) -> bool:
        if name == "execute_queries":
            return False
        callers = []
        for fn in fns.values():
            if fn.name in reach:
                for c in ast.walk(fn):
                    if isinstance(c, ast.Call) and isinstance(c.func, ast.Name) and c.func.id == name:
                        callers.append((fn, c))
        if not callers:
            return False
        return all(protected(c, fn) or (fn.name not in seen and call_protected(fn.name, seen + (name,))) for fn, c in callers)

    for name in sorted(reach):
        fn = fns[name]
        sites = [c for c in ast.walk(fn) if isinstance(c, ast.Call) and isinstance(c.func, ast.Attribute)
                 and c.func.attr in db_methods and "conn" in ast.unparse(c.func.value)]
        if not sites:
            continue
        f = f"src/vtlengine/{EXEC}:{name}"
        chk.under_contract(f)
        ob = chk.ob(f"{f}::duckdb-errors-converted", f, f"every DuckDB interaction in {name}() ({len(sites)} site(s)) lies "
                    "inside a handler that converts duckdb.Error into a VTL exception (directly or through all its callers)")
        ob.backend = "ast-callsite"
        bad = [c for c in sites if not protected(c, fn) and not call_protected(name)]
        if not bad:
            ob.status = DISCHARGED
        else:
            ob.status = REFUTED
            ob.detail = "unprotected: " + "; ".join(f"line {c.lineno} {ast.unparse(c)[:60]}" for c in bad[:4])
            ob.witness = {"function": name, "sites": [f"{c.lineno}: {ast.unparse(c)[:80]}" for c in bad[:6]]}
            ob.finding_key = f"{name}::unconverted-duckdb-error"
            ob.replayed, ob.replay_detail = replay_fetch_path()


_FETCH_REPLAY: Optional[Tuple[Optional[bool], str]] = None


def replay_fetch_path() -> Tuple[Optional[bool], str]:
    """A failure that happens while results are fetched: weekly Time_Period rendered as sdmx_gregorian."""
    global _FETCH_REPLAY
    if _FETCH_REPLAY is not None:
        return _FETCH_REPLAY
    try:
        import pandas as pd
        from vc import pipeline as P
        core.boot(full=True)
        import importlib
        exc = importlib.import_module("vtlengine.Exceptions")
        run = P.api_from_ast("run")
        ds = P.structures([P.dataset_structure("DS_1", me_type="Time_Period")])
        df = pd.DataFrame({"Id_1": [1, 2], "Me_1": ["2020-W15", "2021-W02"]})
        script = P.start([P.assign("DS_r", P.var("DS_1"), True)])
        try:
            run(script, ds, {"DS_1": df}, time_period_output_format="sdmx_gregorian")
            _FETCH_REPLAY = (False, "run(DS_r <- DS_1; weekly periods; sdmx_gregorian) returned normally")
        except Exception as e:  # noqa: BLE001
            raw = not isinstance(e, exc.VTLEngineException)
            _FETCH_REPLAY = (raw, f"run(DS_r <- DS_1, Time_Period measure '2020-W15', time_period_output_format="
                                  f"'sdmx_gregorian') raised {type(e).__module__}.{type(e).__name__}: {str(e)[:140]}")
    except Exception as e:  # noqa: BLE001
        _FETCH_REPLAY = (None, f"replay harness error {type(e).__name__}: {e}")
    return _FETCH_REPLAY


if __name__ == "__main__":
    core.main_guard("C32", main)
