"""Program families for the bounded tier (C01-C05, C10): IR terms (spec/vtlref.py) over small universes of tables.

Each generator yields (family label, [(result name, IR, persistent)], tables, scalars).  Bounds are stated by the
callers in their evidence (depth, operand counts, tables); data pools contain nulls, zeros, negatives, partial key
overlap, repeated non-grouped keys, unicode strings, period spellings at year boundaries.
"""
from __future__ import annotations

import itertools
import random
import sys
from pathlib import Path
from typing import Any, Dict, Iterator, List, Optional, Sequence, Tuple

sys.path.insert(0, str(Path(__file__).resolve().parent.parent))
from vc.e2e import Table  # noqa: E402

N = None
D = lambda n: ("ds", n)  # noqa: E731
C = lambda v: ("const", v)  # noqa: E731
Prog = Tuple[str, List[Tuple[str, Any, bool]], List[Table], Dict[str, Any]]


def num_tables() -> List[Table]:
    ids2 = [("Id_1", "Integer"), ("Id_2", "String")]
    me2 = [("Me_1", "Number"), ("Me_2", "Number")]
    return [
        Table("DS_1", ids2, me2, [dict(Id_1=1, Id_2="A", Me_1=1.5, Me_2=2.0), dict(Id_1=1, Id_2="B", Me_1=N, Me_2=-3.0),
                                  dict(Id_1=2, Id_2="A", Me_1=0.0, Me_2=4.25), dict(Id_1=3, Id_2="C", Me_1=-2.5, Me_2=N)]),
        Table("DS_2", ids2, me2, [dict(Id_1=1, Id_2="A", Me_1=10.0, Me_2=0.5), dict(Id_1=2, Id_2="A", Me_1=N, Me_2=1.0),
                                  dict(Id_1=1, Id_2="B", Me_1=-4.0, Me_2=N), dict(Id_1=4, Id_2="D", Me_1=7.0, Me_2=7.0)]),
        Table("DS_3", [("Id_1", "Integer")], me2, [dict(Id_1=1, Me_1=100.0, Me_2=1.0), dict(Id_1=2, Me_1=200.0, Me_2=N),
                                                  dict(Id_1=5, Me_1=0.0, Me_2=0.0)]),
        Table("DS_e", ids2, me2, []),
    ]


def mono_tables() -> List[Table]:
    ids = [("Id_1", "Integer")]
    return [
        Table("DM_1", ids, [("Me_1", "Number")], [dict(Id_1=1, Me_1=1.0), dict(Id_1=2, Me_1=N), dict(Id_1=3, Me_1=-2.0), dict(Id_1=4, Me_1=0.0)]),
        Table("DM_2", ids, [("Me_1", "Number")], [dict(Id_1=1, Me_1=1.0), dict(Id_1=2, Me_1=5.0), dict(Id_1=3, Me_1=N), dict(Id_1=6, Me_1=2.0)]),
        Table("DI_1", ids, [("Me_1", "Integer")], [dict(Id_1=1, Me_1=7), dict(Id_1=2, Me_1=-3), dict(Id_1=3, Me_1=N), dict(Id_1=4, Me_1=0)]),
        Table("DB_1", ids, [("Me_1", "Boolean")], [dict(Id_1=1, Me_1=True), dict(Id_1=2, Me_1=False), dict(Id_1=3, Me_1=N), dict(Id_1=4, Me_1=True)]),
        Table("DB_2", ids, [("Me_1", "Boolean")], [dict(Id_1=1, Me_1=N), dict(Id_1=2, Me_1=True), dict(Id_1=3, Me_1=False), dict(Id_1=4, Me_1=True)]),
        Table("DS_s", ids, [("Me_1", "String")], [dict(Id_1=1, Me_1="  abc "), dict(Id_1=2, Me_1="Ünï"), dict(Id_1=3, Me_1=N), dict(Id_1=4, Me_1="x")]),
    ]


# ---- C01 element-wise --------------------------------------------------------------------------------------------------
def elementwise(rng: random.Random, thorough: bool) -> Iterator[Prog]:
    nt, mt = num_tables(), mono_tables()
    sc = {"sc_n": 2.5, "sc_i": 3}
    arith = ["+", "-", "*", "/"]
    cmpo = ["=", "<>", "<", "<=", ">", ">="]
    dss = [D("DS_1"), D("DS_2"), D("DS_3"), D("DS_e")]
    # depth 1: ds op ds (all ordered pairs incl. nested identifiers), ds op scalar, scalar op ds
    for op in arith:
        for a, b in itertools.product(dss, dss):
            yield f"arith {op} ds-ds", [("R", ("bin", op, a, b), True)], nt, {}
        for a in dss[:3]:
            for s in (C(2), C(-0.5), C(0), ("sc", "sc_n")):
                yield f"arith {op} ds-scalar", [("R", ("bin", op, a, s), True)], nt, sc
                yield f"arith {op} scalar-ds", [("R", ("bin", op, s, a), True)], nt, sc
    # depth 2-3 (nesting)
    d1 = [("bin", op, a, b) for op in "+-*" for a, b in [(D("DS_1"), D("DS_2")), (D("DS_1"), D("DS_3")), (D("DS_2"), C(2))]]
    nested = [("bin", op, x, y) for op in arith for x in d1 for y in (D("DS_1"), D("DS_3"), C(3))]
    if not thorough:
        nested = rng.sample(nested, 40)
    for t in nested:
        yield "arith nested", [("R", t, True)], nt, {}
    if thorough:
        for x in rng.sample(nested, 60):
            yield "arith nested depth 3", [("R", ("bin", rng.choice("+-*"), x, rng.choice([D("DS_2"), C(-1)])), True)], nt, {}
    # unary numeric
    for op in ("-", "abs"):
        for a in dss[:3]:
            yield f"unary {op}", [("R", ("un", op, a), True)], nt, {}
    # comparisons (mono-measure)
    for op in cmpo:
        for a, b in [(D("DM_1"), D("DM_2")), (D("DM_2"), D("DM_1")), (D("DM_1"), C(0)), (C(1), D("DM_2")), (D("DI_1"), C(0)),
                     (("memb", D("DS_1"), "Me_1"), ("memb", D("DS_2"), "Me_2"))]:
            yield f"comparison {op}", [("R", ("bin", op, a, b), True)], nt + mt, {}
    # boolean
    for op in ("and", "or", "xor"):
        for a, b in [(D("DB_1"), D("DB_2")), (D("DB_2"), D("DB_1")), (D("DB_1"), C(True)), (D("DB_1"), C(False)),
                     (("bin", ">", D("DM_1"), C(0)), ("bin", "<", D("DM_2"), C(3)))]:
            lab = f"boolean {op}" + (" of comparison results" if a[0] == "bin" else "")
            yield lab, [("R", ("bin", op, a, b), True)], mt, {}
    yield "boolean not", [("R", ("un", "not", D("DB_1")), True)], mt, {}
    yield "boolean not", [("R", ("un", "not", ("bin", "and", D("DB_1"), D("DB_2"))), True)], mt, {}
    # string
    for op in ("length", "upper", "lower", "trim"):
        yield f"string {op}", [("R", ("un", op, D("DS_s")), True)], mt, {}
    yield "string ||", [("R", ("bin", "||", D("DS_s"), C("!")), True)], mt, {}
    yield "string ||", [("R", ("bin", "||", D("DS_s"), D("DS_s")), True)], mt, {}
    # membership / conditional
    for neg in (False, True):
        yield "in/not_in", [("R", ("in", D("DM_1"), [1.0, 0.0], neg), True)], mt, {}
        yield "in/not_in", [("R", ("in", D("DS_s"), ["x", "Ünï"], neg), True)], mt, {}
    for lo, hi in ((C(0), C(1)), (C(-5), C(-1)), (C(0), C(0))):
        yield "between", [("R", ("between", D("DM_1"), lo, hi), True)], mt, {}
    for a in (D("DM_1"), D("DS_1"), D("DS_s") if False else D("DI_1")):
        yield "isnull", [("R", ("un", "isnull", a if a != D("DS_1") else ("memb", a, "Me_1")), True)], nt + mt, {}
        yield "nvl", [("R", ("bin", "nvl", a, C(0)), True)], nt + mt, {}
    conds = [("bin", ">", ("memb", D("DS_1"), "Me_1"), C(0)), ("bin", "=", ("memb", D("DS_2"), "Me_2"), C(1)),
             ("bin", "<", D("DM_1"), C(1))]
    for c in conds[:2]:
        for th, el in [(D("DS_1"), D("DS_2")), (D("DS_2"), D("DS_1")), (D("DS_1"), C(0)), (C(-1), D("DS_2"))]:
            yield "if-then-else dataset", [("R", ("if", c, th, el), True)], nt, {}
    for th, el in [(D("DM_1"), D("DM_2")), (D("DM_2"), C(9))]:
        yield "if-then-else dataset (condition is a bare dataset comparison)", [("R", ("if", conds[2], th, el), True)], mt, {}


# ---- C02 clauses --------------------------------------------------------------------------------------------------------
def clause_steps() -> List[Tuple[str, Any]]:
    cm = lambda n: ("comp", n)  # noqa: E731
    return [
        ("filter", ("bin", ">", cm("Me_1"), C(0))), ("filter", ("bin", "=", cm("Id_2"), C("A"))),
        ("filter", ("bin", "or", ("un", "isnull", cm("Me_1")), ("bin", "<", cm("Me_2"), C(0)))),
        ("calc", [("Me_3", ("bin", "+", cm("Me_1"), cm("Me_2")))]), ("calc", [("Me_1", ("bin", "*", cm("Me_1"), C(2)))]),
        ("calc", [("Me_3", ("if", ("bin", ">", cm("Me_1"), C(0)), cm("Me_1"), C(0))), ("Me_4", ("un", "-", cm("Me_2")))]),
        ("keep", ["Me_1"]), ("keep", ["Me_2"]), ("drop", ["Me_2"]), ("drop", ["Me_1"]),
        ("rename", [("Me_1", "Me_9")]), ("rename", [("Me_1", "Me_2"), ("Me_2", "Me_1")]),
        ("rename", [("Me_1", "Me_2"), ("Me_2", "Me_3")]), ("rename", [("Id_2", "Id_9")]),
        ("sub", [("Id_2", "A")]), ("sub", [("Id_1", 1)]),
    ]


def applicable(step: Tuple[str, Any], ids: List[str], meas: List[str]) -> Optional[Tuple[List[str], List[str]]]:
    """Structure after the step, or None when the step does not apply to the structure."""
    kind, args = step

    def comps(e: Any) -> List[str]:
        if isinstance(e, tuple):
            if e and e[0] == "comp":
                return [e[1]]
            return [c for x in e for c in comps(x)]
        if isinstance(e, list):
            return [c for x in e for c in comps(x)]
        return []
    used = comps(args)
    if any(u not in ids + meas for u in used):
        return None
    if kind == "filter":
        return ids, meas
    if kind == "calc":
        return ids, meas + [n for n, _ in args if n not in meas]
    if kind == "keep":
        return (ids, [m for m in meas if m in args]) if all(a in meas for a in args) else None
    if kind == "drop":
        left = [m for m in meas if m not in args]
        return (ids, left) if all(a in meas for a in args) and left else None
    if kind == "rename":
        olds, news = [o for o, _ in args], [n for _, n in args]
        if any(o not in ids + meas for o in olds):
            return None
        rest = [x for x in ids + meas if x not in olds]
        if any(n in rest for n in news) or len(set(news)) != len(news):
            return None
        mp = dict(args)
        return [mp.get(i, i) for i in ids], [mp.get(m, m) for m in meas]
    if kind == "sub":
        if any(i not in ids for i, _ in args) or len(ids) - len(args) < 1:
            return None
        return [i for i in ids if i not in dict(args)], meas
    return None


def clauses(rng: random.Random, thorough: bool) -> Iterator[Prog]:
    nt = num_tables()
    steps = clause_steps()
    maxlen = 4 if thorough else 3
    seen = 0
    for base in ("DS_1", "DS_2"):
        for length in range(1, maxlen + 1):
            combos: Any = itertools.product(steps, repeat=length)
            if length >= 3:
                combos = [tuple(rng.choice(steps) for _ in range(length)) for _ in range(400 if thorough else 160)]
            for chain in combos:
                ids, meas = ["Id_1", "Id_2"], ["Me_1", "Me_2"]
                t: Any = D(base)
                ok = True
                for st in chain:
                    nxt = applicable(st, ids, meas)
                    if nxt is None:
                        ok = False
                        break
                    ids, meas = nxt
                    t = ("clause", st[0], t, st[1])
                if ok:
                    seen += 1
                    yield f"clause chain len {length}: " + ">".join(s[0] for s in chain), [("R", t, True)], nt, {}
    # clause on a join result
    j = ("join", "inner_join", [(D("DS_1"), "d1"), (D("DS_2"), "d2")], None,
         [("filter", ("bin", ">", ("comp", "d1#Me_1"), C(0))), ("calc", [("Me_5", ("bin", "+", ("comp", "d1#Me_1"), ("comp", "d2#Me_2")))]),
          ("keep", ["Me_5", "d1#Me_2"])])
    yield "clause on join result", [("R", ("clause", "calc", j, [("Me_6", ("bin", "*", ("comp", "Me_5"), C(2)))]), True)], nt, {}
    yield "clause on join result", [("R", ("clause", "filter", j, ("bin", "<", ("comp", "Me_2"), C(0))), True)], nt, {}


# ---- C03 aggregations -----------------------------------------------------------------------------------------------------
def agg_tables() -> List[Table]:
    ids = [("Id_1", "Integer"), ("Id_2", "String"), ("Id_3", "Integer")]
    rows = []
    vals = [1.5, N, -2.0, 4.0, 0.0, 7.25, N, 3.0, 10.0]
    for k, (a, b, c) in enumerate(itertools.product((1, 2), ("A", "B"), (1, 2))):
        rows.append(dict(Id_1=a, Id_2=b, Id_3=c, Me_1=vals[k % len(vals)], Me_2=float(k) if k % 3 else N))
    rows.append(dict(Id_1=3, Id_2="C", Id_3=1, Me_1=N, Me_2=N))      # a group whose measures are all null
    tp = [dict(Id_1=1, Id_2="A", Id_3=k, Me_1=v) for k, v in enumerate(
        ["2020-W53", "2021-W01", "2020-W52", N], 1)] + [dict(Id_1=2, Id_2="A", Id_3=k, Me_1=v) for k, v in enumerate(
        ["2021-W01", "2020-W53"], 1)] + [dict(Id_1=3, Id_2="B", Id_3=k, Me_1=v) for k, v in enumerate(
        ["2020-D366", "2021-D001", "2020-D365"], 1)] + [dict(Id_1=4, Id_2="B", Id_3=k, Me_1=v) for k, v in enumerate(
        ["2021-M01", "2020-M12", "2020-M02"], 1)]
    return [Table("DA_1", ids, [("Me_1", "Number"), ("Me_2", "Number")], rows),
            Table("DA_m", ids, [("Me_1", "Number")], [{k: v for k, v in r.items() if k != "Me_2"} for r in rows]),
            Table("DA_s", ids[:2], [("Me_1", "String")], [dict(Id_1=1, Id_2="A", Me_1="b"), dict(Id_1=1, Id_2="B", Me_1="a"),
                                                          dict(Id_1=2, Id_2="A", Me_1=N), dict(Id_1=2, Id_2="B", Me_1="c")]),
            # one table per period indicator (mixing indicators in one min/max is a VTL error, not what is tested here)
            Table("DA_tw", ids, [("Me_1", "Time_Period")], [r for r in tp if r["Id_1"] in (1, 2)]),
            Table("DA_td", ids, [("Me_1", "Time_Period")], [r for r in tp if r["Id_1"] == 3]),
            Table("DA_tm", ids, [("Me_1", "Time_Period")], [r for r in tp if r["Id_1"] == 4]),
            Table("DA_e", ids, [("Me_1", "Number")], [])]


def aggregations(rng: random.Random, thorough: bool) -> Iterator[Prog]:
    at = agg_tables()
    groupings = [(None, None), ("group by", ["Id_1"]), ("group by", ["Id_1", "Id_2"]), ("group except", ["Id_3"]),
                 ("group except", ["Id_2", "Id_3"]), ("group by", ["Id_2"])]
    for op in ("sum", "avg", "count", "min", "max"):
        for gop, gids in groupings:
            for ds in ("DA_1", "DA_m", "DA_e"):
                yield f"aggregate {op} {gop}", [("R", ("agg", op, D(ds), gop, gids, None), True)], at, {}
            havings = [("bin", ">", ("agg", "count", "Me_1"), C(1)), ("bin", ">", ("agg", "sum", "Me_1"), C(2)),
                       ("bin", "<", ("agg", "min", "Me_1"), C(0))]
            if gop is not None:
                for h in havings:
                    yield f"aggregate {op} having", [("R", ("agg", op, D("DA_m"), gop, gids, h), True)], at, {}
            # aggr clause
            items = [("Me_9", op, "Me_1")] + ([("Me_8", "max", "Me_1")] if op != "max" else [])
            if gop is not None and op != "count":     # count of an all-null group is left out of the reference
                yield f"aggr clause {op}", [("R", ("clause", "aggr", D("DA_1"), (items, gop, gids, None)), True)], at, {}
                yield f"aggr clause {op} having", [("R", ("clause", "aggr", D("DA_m"), (items, gop, gids, havings[1])), True)], at, {}
    for op in ("min", "max", "count"):
        for gop, gids in (("group by", ["Id_1"]), ("group except", ["Id_2"])):
            yield f"aggregate {op} string", [("R", ("agg", op, D("DA_s"), gop, gids, None), True)], at, {}
        for gop, gids in (("group by", ["Id_1"]), ("group by", ["Id_1", "Id_2"]), ("group except", ["Id_3"])):
            for tname in ("DA_tw", "DA_td", "DA_tm"):
                tabs = [t for t in at if t.name == tname]
                yield f"aggregate {op} time_period", [("R", ("agg", op, D(tname), gop, gids, None), True)], tabs, {}
                yield f"aggr clause {op} time_period", [("R", ("clause", "aggr", D(tname), ([("Me_9", op, "Me_1")], gop, gids, None)), True)], tabs, {}


# ---- C04 joins ------------------------------------------------------------------------------------------------------------
def join_tables() -> List[Table]:
    i12 = [("Id_1", "Integer"), ("Id_2", "String")]
    return [
        Table("J_1", i12, [("Me_1", "Number"), ("Me_2", "Number")], [dict(Id_1=1, Id_2="A", Me_1=1.0, Me_2=10.0), dict(Id_1=1, Id_2="B", Me_1=2.0, Me_2=N),
                                                                  dict(Id_1=2, Id_2="A", Me_1=N, Me_2=30.0), dict(Id_1=3, Id_2="C", Me_1=4.0, Me_2=40.0)]),
        Table("J_2", i12, [("Me_1", "Number"), ("Me_3", "Number")], [dict(Id_1=1, Id_2="A", Me_1=100.0, Me_3=5.0), dict(Id_1=1, Id_2="C", Me_1=200.0, Me_3=6.0),
                                                                  dict(Id_1=2, Id_2="A", Me_1=300.0, Me_3=N), dict(Id_1=4, Id_2="D", Me_1=400.0, Me_3=8.0)]),
        Table("J_3", [("Id_1", "Integer")], [("Me_4", "Number")], [dict(Id_1=1, Me_4=0.5), dict(Id_1=2, Me_4=N), dict(Id_1=5, Me_4=2.5)]),
        Table("J_4", i12, [("Me_5", "Number")], [dict(Id_1=1, Id_2="A", Me_5=-1.0), dict(Id_1=3, Id_2="C", Me_5=-3.0), dict(Id_1=4, Id_2="D", Me_5=-4.0)]),
    ]


def joins(rng: random.Random, thorough: bool) -> Iterator[Prog]:
    jt = join_tables()
    cm = lambda n: ("comp", n)  # noqa: E731
    two = [("J_1", "J_2"), ("J_2", "J_1"), ("J_1", "J_4"), ("J_1", "J_3"), ("J_4", "J_2")]
    for op in ("inner_join", "left_join", "full_join"):
        for a, b in two:
            if op == "full_join" and "J_3" in (a, b):
                continue
            ops = [(D(a), "d1"), (D(b), "d2")]
            dup = a in ("J_1", "J_2") and b in ("J_1", "J_2")
            bodies: List[List[Tuple[str, Any]]] = []
            if dup:
                bodies.append([("keep", ["d1#Me_1"])])
                bodies.append([("calc", [("Me_9", ("bin", "+", cm("d1#Me_1"), cm("d2#Me_1")))]), ("keep", ["Me_9"])])
                bodies.append([("rename", [("d1#Me_1", "Me_a"), ("d2#Me_1", "Me_b")])])
                bodies.append([("filter", ("bin", ">", cm("d2#Me_1"), C(150))), ("drop", ["d2#Me_1"])])
            else:
                bodies.append([])
                bodies.append([("filter", ("bin", ">", cm("Me_1"), C(1)))])
                bodies.append([("calc", [("Me_9", ("bin", "*", cm("Me_1"), C(2)))]), ("drop", ["Me_1"])])
            for body in bodies:
                yield f"{op} 2 operands", [("R", ("join", op, ops, None, body), True)], jt, {}
            if not dup and a != "J_3" and b != "J_3" and op != "full_join":
                yield f"{op} using", [("R", ("join", op, ops, ["Id_1", "Id_2"], []), True)], jt, {}
    # three operands, every order, nested identifier sets (J_3 has Id_1 only)
    for op in ("inner_join", "left_join"):
        for perm in itertools.permutations(["J_3", "J_4", "J_1"]):
            if op == "left_join" and perm[0] == "J_3":
                continue
            ops = [(D(n), f"d{i}") for i, n in enumerate(perm, 1)]
            yield f"{op} 3 operands", [("R", ("join", op, ops, None, []), True)], jt, {}
            yield f"{op} 3 operands", [("R", ("join", op, ops, None, [("filter", ("bin", ">", cm("Me_5"), C(-4)))]), True)], jt, {}


# ---- C05 set operators ----------------------------------------------------------------------------------------------------
def set_tables() -> List[Table]:
    ids = [("Id_1", "Integer"), ("Id_2", "String")]
    me = [("Me_1", "Number"), ("Me_2", "String")]
    return [
        Table("S_1", ids, me, [dict(Id_1=1, Id_2="A", Me_1=1.0, Me_2="a"), dict(Id_1=2, Id_2="B", Me_1=N, Me_2="b"), dict(Id_1=3, Id_2="C", Me_1=3.0, Me_2=N)]),
        Table("S_2", ids, me, [dict(Id_1=2, Id_2="B", Me_1=20.0, Me_2="bb"), dict(Id_1=3, Id_2="C", Me_1=30.0, Me_2="cc"), dict(Id_1=4, Id_2="D", Me_1=40.0, Me_2="dd")]),
        Table("S_3", ids, me, [dict(Id_1=1, Id_2="A", Me_1=100.0, Me_2=N), dict(Id_1=4, Id_2="D", Me_1=N, Me_2="ddd"), dict(Id_1=5, Id_2="E", Me_1=500.0, Me_2="e")]),
        Table("S_4", ids, me, [dict(Id_1=2, Id_2="B", Me_1=2000.0, Me_2="x"), dict(Id_1=5, Id_2="E", Me_1=N, Me_2=N), dict(Id_1=6, Id_2="F", Me_1=6.0, Me_2="f")]),
        Table("S_e", ids, me, []),
    ]


def setops(rng: random.Random, thorough: bool) -> Iterator[Prog]:
    st = set_tables()
    names = ["S_1", "S_2", "S_3", "S_4", "S_e"]
    for k in (2, 3, 4):
        perms = list(itertools.permutations(names, k))
        if k > 2 and not thorough:
            perms = rng.sample(perms, 30)
        for p in perms:
            yield f"union {k} operands", [("R", ("set", "union", [D(n) for n in p]), True)], st, {}
            yield f"intersect {k} operands", [("R", ("set", "intersect", [D(n) for n in p]), True)], st, {}
    for a, b in itertools.permutations(names, 2):
        yield "setdiff", [("R", ("set", "setdiff", [D(a), D(b)]), True)], st, {}
        yield "symdiff", [("R", ("set", "symdiff", [D(a), D(b)]), True)], st, {}
    yield "union of expressions", [("R", ("set", "union", [("clause", "filter", D("S_1"), ("bin", ">", ("comp", "Me_1"), C(1))), D("S_2")]), True)], st, {}


FAMILIES = {"elementwise": elementwise, "clauses": clauses, "aggregations": aggregations, "joins": joins, "setops": setops}
