"""C27 — SDMX structures map to VTL structures as documented.

Functions under contract (real source, symbolic execution by vc.pyvc):
  files/sdmx_handler.py: to_vtl_json      (DSD / Schema / Dataflow -> VTL JSON)
  API/_InternalApi.py:   _build_component (VTL JSON component -> Model.Component; role/type/nullable rules)
Oracles parsed every run: docs/data_structures.rst (SDMX role table, SDMX data type table);
the SDMX data types are enumerated from the INSTALLED pysdmx (pysdmx.model.DataType) at run time.

Contract of to_vtl_json(structure, dataset_name), structure = DSD/Schema with dimension / measure / attribute
lists of components c (c.id any string, c.dtype any installed DataType, c.role any Role):
  ensures (return)  result = {"datasets": [{"name": dataset_name or structure.id,
                               "DataStructure": [comp(c) for c in dimensions ++ measures ++ attributes]}]}
           comp(c) = {name: c.id, role: doc_role[c.role], type: doc_type[c.dtype], nullable: c.role != DIMENSION}
  ensures (raise)   only InputValidationException, and only when doc_type has no entry for some c.dtype
  frame             no module-level state is mutated, and the result does not depend on earlier calls
Dataflow: structure None or unresolved reference => InputValidationException; else as its embedded DSD with
          dataset_name defaulting to the Dataflow id.
"""
from __future__ import annotations

import re
import sys
from pathlib import Path
from typing import Any, Dict, List, Optional, Tuple

sys.path.insert(0, str(Path(__file__).resolve().parent.parent))
from spec.docs import REPO, list_tables  # noqa: E402
from vc import core, smt  # noqa: E402
from vc.core import DISCHARGED, REFUTED, UNDECIDED, Check  # noqa: E402
from vc.pycheck import discharge  # noqa: E402
from vc.pyvc import ClassV, Engine, ObjV, PathResult, SymEnum, builtin_class  # noqa: E402
from vc.smt import And, Eq, Iff, Implies, Ite, Not, Or, is_sym  # noqa: E402

REL = "files/sdmx_handler.py"


def doc_tables() -> Tuple[Dict[str, Tuple[str, bool]], Dict[str, str]]:
    txt = (REPO / "docs" / "data_structures.rst").read_text()
    roles: Dict[str, Tuple[str, bool]] = {}
    types: Dict[str, str] = {}
    for _line, rows in list_tables(txt):
        head = [c.strip() for c in rows[0]]
        if head[:2] == ["SDMX role", "VTL role"]:
            for r in rows[1:]:
                roles[r[0].strip("`").replace("Role.", "")] = (r[1].strip("`"), r[2].strip("`") == "true")
        elif head[:2] == ["SDMX data type", "VTL type"]:
            for r in rows[1:]:
                vtl = r[1].strip("`")
                names = re.findall(r"``([A-Za-z]+)``", r[0])
                m = re.search(r"all reporting period variants\s*\(([^)]*)\)", r[0])
                if m:
                    names += ["Reporting" + x.strip() for x in m.group(1).split(",")]
                for n in names:
                    types[n] = vtl
    assert roles and types, "SDMX tables not found in docs/data_structures.rst"
    return roles, types


class ExtConst:
    def __init__(self, name: str) -> None:
        self.name = name

    def __repr__(self) -> str:
        return f"<{self.name}>"


def main() -> None:  # noqa: C901
    chk = Check("C27", "proof", "symbolic execution of the real to_vtl_json/_build_component with component dtype "
                "ranging over every DataType of the installed pysdmx and role over Role; results compared with the "
                "documented tables by z3/cvc5; frame (purity) obligations; native replay", min_obligations=8)
    doc_roles, doc_types = doc_tables()
    from pysdmx.model import DataType
    from pysdmx.model.dataflow import Role as SRole
    dt_values = [m.value for m in DataType]
    eng = Engine()
    dt_sort = eng.enum_sort("SDMXDataType", dt_values)
    role_consts = {m.name: ExtConst(f"Role.{m.name}") for m in SRole}
    role_sort = eng.enum_sort("SDMXRole", list(role_consts.values()))
    for n, c in role_consts.items():
        eng.external_values[f"pysdmx.model.dataflow.Role.{n}"] = c

    def component(tag: str) -> ObjV:
        # the other plain facets of a pysdmx Component are arbitrary too (optional texts as arbitrary strings): the documented
        # mapping does not depend on them, so code that looks at one of them has to give the same component for every value
        return ObjV(builtin_class("SDMXComponent"), {"id": eng.sym_str(f"{tag}.id"),
                                                      "dtype": eng.sym_enum(f"{tag}.dtype", dt_sort),
                                                      "role": eng.sym_enum(f"{tag}.role", role_sort),
                                                      "required": eng.sym_bool(f"{tag}.required"),
                                                      "attachment_level": eng.sym_str(f"{tag}.attachment_level"),
                                                      "name": eng.sym_str(f"{tag}.name"),
                                                      "description": eng.sym_str(f"{tag}.description"),
                                                      "urn": eng.sym_str(f"{tag}.urn")})

    def structure(kind: str, shape: Tuple[int, int, int]) -> Tuple[ObjV, List[ObjV]]:
        comps = [[component(f"{lst}{i}") for i in range(n)] for lst, n in zip(("dim", "mea", "att"), shape)]
        s = ObjV(builtin_class(kind), {"id": eng.sym_str("structure.id"), "short_urn": eng.sym_str("structure.urn"),
                                       "components": ObjV(builtin_class("Components"),
                                                          {"dimensions": comps[0], "measures": comps[1],
                                                           "attributes": comps[2]})})
        return s, comps[0] + comps[1] + comps[2]

    f = f"src/vtlengine/{REL}:to_vtl_json"
    chk.under_contract(f)
    fn = eng.func(REL, "to_vtl_json")
    shapes = [(1, 1, 1), (2, 1, 0)] if chk.tier == "quick" else [(1, 1, 1), (2, 1, 0), (0, 2, 1), (2, 2, 1)]

    def spec_role(c: ObjV) -> Any:
        out: Any = "<undocumented role>"
        for n, (vtl, _nullable) in doc_roles.items():
            out = Ite(c.attrs["role"].eq_member(role_consts[n]), vtl, out)
        return out

    def spec_nullable(c: ObjV) -> Any:
        return Or(*[c.attrs["role"].eq_member(role_consts[n]) for n, (_v, nullable) in doc_roles.items() if nullable])

    def spec_type(c: ObjV) -> Tuple[Any, Any]:
        """(documented?, vtl type)"""
        d = c.attrs["dtype"]
        documented = Or(*[d.eq_member(v) for v in dt_values if v in doc_types])
        out: Any = "<undocumented type>"
        for v in dt_values:
            if v in doc_types:
                out = Ite(d.eq_member(v), doc_types[v], out)
        return documented, out

    def is_ive(p: PathResult) -> bool:
        e = p.value
        return p.kind == "raise" and isinstance(e, ObjV) and isinstance(e.cls, ClassV) and \
            e.cls.name == "InputValidationException"

    for kind in ("DataStructureDefinition", "Schema"):
        for shape in shapes:
            for dsname in ("given", "none"):
                s, comps = structure(kind, shape)
                name_arg = eng.sym_str("dataset_name") if dsname == "given" else None
                paths = eng.explore(fn, [s, name_arg])
                tag = f"{kind}{shape}-name-{dsname}"
                mv = [c.attrs["dtype"].term.sx for c in comps] + [c.attrs["role"].term.sx for c in comps] + \
                     [c.attrs[k].sx for c in comps for k in ("required", "attachment_level")]
                all_doc = And(*[spec_type(c)[0] for c in comps])

                def post_ret(p: PathResult, comps: List[ObjV] = comps, s: ObjV = s, name_arg: Any = name_arg) -> Any:
                    if p.kind != "return":
                        return True
                    r = p.value
                    try:
                        ds = r["datasets"]
                        assert isinstance(r, dict) and set(r) == {"datasets"} and len(ds) == 1
                        d0 = ds[0]
                        assert set(d0) == {"name", "DataStructure"}
                        lst = d0["DataStructure"]
                        assert len(lst) == len(comps)
                        conj = [Eq(d0["name"], name_arg if name_arg is not None else s.attrs["id"])]
                        for c, out in zip(comps, lst):
                            assert set(out) == {"name", "role", "type", "nullable"}
                            conj += [Eq(out["name"], c.attrs["id"]), Eq(out["role"], spec_role(c)),
                                     Eq(out["type"], spec_type(c)[1]), Iff(out["nullable"], spec_nullable(c))]
                        return And(*conj)
                    except (AssertionError, KeyError, TypeError, IndexError):
                        return False

                def replay(model: Dict[str, str], p: PathResult, comps: List[ObjV] = comps, kind: str = kind,
                           shape: Tuple[int, int, int] = shape) -> Any:
                    return native_replay(model, comps, kind, shape, dt_values, role_consts, doc_roles, doc_types)

                def fkey(model: Dict[str, str], p: PathResult, comps: List[ObjV] = comps) -> str:
                    bad = sorted({dt_values[core.smt_int(model[c.attrs["dtype"].term.sx])] for c in comps
                                  if c.attrs["dtype"].term.sx in model
                                  and dt_values[core.smt_int(model[c.attrs["dtype"].term.sx])] not in doc_types})
                    return "to_vtl_json::" + (",".join(bad) if bad else "mapping")

                discharge(chk, eng, f, f"maps-as-documented::{tag}",
                          "returns => one VTL component per SDMX component in dimension/measure/attribute order with "
                          "the documented role, type and nullability; dataset name = dataset_name or structure id; "
                          "no module-level state mutated",
                          paths, [], post_ret, mv, replay, fkey)
                discharge(chk, eng, f, f"rejects-only-with-input-validation-error::{tag}",
                          "raises => InputValidationException, and only when some component's dtype has no documented "
                          "VTL type; a fully documented structure is never rejected",
                          paths, [], lambda p, all_doc=all_doc: And(is_ive(p), Not(all_doc)) if p.kind == "raise"
                          else (True if p.kind == "return" else False),
                          mv, replay, fkey, include_site_obligations=False)

    # ---- Dataflow handling ----------------------------------------------------------------------------------
    dsd, comps = structure("DataStructureDefinition", (1, 1, 0))
    for case, inner in (("no-structure", None), ("unresolved-reference", ObjV(builtin_class("DataflowRef"), {})),
                        ("resolved", dsd)):
        df = ObjV(builtin_class("Dataflow"), {"id": eng.sym_str("dataflow.id"), "structure": inner})
        paths = eng.explore(fn, [df, None])
        if case == "resolved":
            def post_df(p: PathResult) -> Any:
                if p.kind == "raise":
                    return And(is_ive(p), Not(And(*[spec_type(c)[0] for c in comps])))
                try:
                    return And(Eq(p.value["datasets"][0]["name"], df.attrs["id"]),
                               len(p.value["datasets"][0]["DataStructure"]) == len(comps))
                except Exception:  # noqa: BLE001
                    return False
            discharge(chk, eng, f, f"dataflow::{case}", "resolved Dataflow: converted as its DSD, name defaults to the "
                      "Dataflow id", paths, [], post_df, [], None, lambda m, p: "to_vtl_json::dataflow")
        else:
            discharge(chk, eng, f, f"dataflow::{case}", "Dataflow without a resolved DataStructureDefinition => "
                      "InputValidationException", paths, [], lambda p: is_ive(p), [], None,
                      lambda m, p: "to_vtl_json::dataflow")

    # ---- _build_component: VTL JSON component -> Model.Component ---------------------------------------------
    build_component_obligations(chk, eng)

    missing_in_docs = [v for v in dt_values if v not in doc_types]
    chk.extra.update({"installed_pysdmx_datatypes": len(dt_values), "datatypes_without_documented_mapping": missing_in_docs,
                      "shapes": [list(s) for s in shapes], "functions_inlined": sorted(eng.inlined), "exhaustive": True})
    chk.assume("pysdmx object model: structure.components.{dimensions,measures,attributes} are lists of components "
               "with .id/.dtype/.role plus the plain facets .required/.attachment_level/.name/.description/.urn (arbitrary; "
               "optional texts modelled as arbitrary strings, None not distinguished); a component attribute outside this "
               "list leaves the subset (undecided); DataType is a str-enum whose members hash/compare as their value strings")
    chk.assume("loop over components has no cross-iteration state other than list append (checked for the explored "
               "list lengths; independence of length is the map-loop meta-argument, not proved by the solver)")
    chk.assume("pysdmx XML/JSON readers and run_sdmx URN matching are not under contract")
    chk.trust("vc.pyvc semantics; z3/cvc5 string theory for the small ite-chains over constant strings")
    chk.finish()


def build_component_obligations(chk: Check, eng: Engine) -> None:
    rel = "API/_InternalApi.py"
    f = f"src/vtlengine/{rel}:_build_component"
    try:
        fn = eng.func(rel, "_build_component")
    except Exception as e:  # noqa: BLE001
        o = chk.ob(f"{f}::identifier-not-nullable", f, "_build_component present")
        o.status, o.detail = UNDECIDED, str(e)
        return
    chk.under_contract(f)
    roles = ["Identifier", "Measure", "Attribute", "Viral Attribute", "ViralAttribute"]
    for role in roles:
        for nullable in (True, False, None):
            comp: Dict[str, Any] = {"name": "C", "role": role, "type": "Integer"}
            if nullable is not None:
                comp["nullable"] = nullable
            snapshot = dict(comp)
            paths = eng.explore(fn, [comp])
            ob = chk.ob(f"{f}::role={role},nullable={nullable}", f,
                        "identifiers are never nullable (a nullable identifier is rejected with a VTL error); the "
                        "argument dict is not modified")
            ob.backend = "pyvc-concrete"
            bad = []
            for p in paths:
                if p.kind == "abort":
                    ob.status, ob.detail = UNDECIDED, p.abort_reason
                    break
                if comp != snapshot:
                    bad.append(f"argument dict modified: {snapshot} -> {comp}")
                if p.kind == "return":
                    v = p.value
                    nl = v.attrs.get("nullable") if isinstance(v, ObjV) else None
                    if role == "Identifier" and nl is not False:
                        bad.append(f"identifier built with nullable={nl}")
                elif p.kind == "raise":
                    # a nullable identifier is rejected (by Component.__post_init__; the class of that error is
                    # C19/C32's concern, not C27's); every other combination must be accepted
                    if not (role == "Identifier" and nullable is True):
                        bad.append(f"valid component rejected: {p.value}")
            else:
                if bad:
                    ob.status, ob.detail, ob.witness = REFUTED, "; ".join(bad), {"component": snapshot}
                    ob.finding_key = f"_build_component::{bad[0][:40]}"
                    ob.replayed, ob.replay_detail = replay_build_component(snapshot)
                else:
                    ob.status = DISCHARGED


def replay_build_component(comp: Dict[str, Any]) -> Tuple[Optional[bool], str]:
    core.boot(full=True)
    import copy
    import importlib
    api = importlib.import_module("vtlengine.API._InternalApi")
    c = copy.deepcopy(comp)
    try:
        r = api._build_component(c)
        out = f"-> nullable={r.nullable} role={r.role}"
    except Exception as e:  # noqa: BLE001
        out = f"-> raises {type(e).__name__}"
        r = None
    changed = c != comp
    bad = changed or (r is not None and comp["role"] == "Identifier" and r.nullable)
    return bad, f"real _build_component({comp}) {out}; argument after call: {c}"


def native_replay(model: Dict[str, str], comps: List[ObjV], kind: str, shape: Tuple[int, int, int],
                  dt_values: List[str], role_consts: Dict[str, Any], doc_roles: Dict[str, Tuple[str, bool]],
                  doc_types: Dict[str, str]) -> Tuple[Optional[bool], str, Any]:
    """Build the real pysdmx structure of the counter-model, call the real to_vtl_json (twice, with a differently
    typed twin in between, to expose history dependence) and compare with the documented mapping."""
    core.boot(full=True)
    import importlib
    from pysdmx.model import Component, Components, Concept, DataType
    from pysdmx.model.dataflow import DataStructureDefinition, Role
    h = importlib.reload(importlib.import_module("vtlengine.files.sdmx_handler"))
    role_names = list(role_consts)

    facets: List[Dict[str, Any]] = []

    def build(dtypes: List[str], roles: List[str]) -> Any:
        cs = []
        for i, (d, r) in enumerate(zip(dtypes, roles)):
            kw: Dict[str, Any] = {"required": True}
            if r == "ATTRIBUTE":
                kw["attachment_level"] = "O"
            if i < len(facets):
                kw.update({k: v for k, v in facets[i].items() if not (k == "attachment_level" and r != "ATTRIBUTE")})
            cs.append(Component(id=f"C{i}", role=Role[r], concept=Concept(f"C{i}"), local_dtype=DataType(d), **kw))
        return DataStructureDefinition(id="DSD", agency="AG", version="1.0", components=Components(cs))

    dts, rls = [], []
    lists = ["DIMENSION"] * shape[0] + ["MEASURE"] * shape[1] + ["ATTRIBUTE"] * shape[2]
    for c, lst_role in zip(comps, lists):
        k = c.attrs["dtype"].term.sx
        dts.append(dt_values[core.smt_int(model[k])] if k in model else "String")
        rls.append(lst_role)   # pysdmx files components into the three lists by role
        fc: Dict[str, Any] = {}
        a, rq = c.attrs.get("attachment_level"), c.attrs.get("required")
        if a is not None and a.sx in model:
            fc["attachment_level"] = core.smt_str(model[a.sx])
        if rq is not None and rq.sx in model:
            fc["required"] = core.smt_bool(model[rq.sx])
        facets.append(fc)
    want = []
    for i, (d, r) in enumerate(zip(dts, rls)):
        want.append({"name": f"C{i}", "role": doc_roles[r][0], "type": doc_types.get(d), "nullable": doc_roles[r][1]})
    undocumented = [d for d in dts if d not in doc_types]
    # history: first convert a twin with different dtypes, then the structure itself
    twin = ["Integer" if d != "Integer" else "String" for d in dts]
    detail = []
    try:
        h.to_vtl_json(build(twin, rls), dataset_name="DS")
    except Exception:  # noqa: BLE001
        pass
    try:
        got = h.to_vtl_json(build(dts, rls), dataset_name="DS")["datasets"][0]["DataStructure"]
        outcome = "returned"
    except Exception as e:  # noqa: BLE001
        got, outcome = None, f"raised {type(e).__name__}: {e}"
    if undocumented:
        bad = not outcome.startswith("raised InputValidationException")
        detail.append(f"dtype(s) {undocumented} have no documented VTL type; real to_vtl_json {outcome} "
                      "(documented: InputValidationException)")
    else:
        bad = got != want
        detail.append(f"dtypes={dts} roles={rls} facets={facets}: real to_vtl_json (after converting a same-id twin) {outcome} {got}; "
                      f"documented {want}")
    return bad, " ".join(detail), {"dtypes": dts, "roles": rls, "real": got if got is not None else outcome, "documented": want}


if __name__ == "__main__":
    core.main_guard("C27", main)
