"""C09, bounded tier: the property's value pool for every (source, target) pair, cast end to end on the real engine.

Engine side: API.run of the working tree minus the text->AST prologue (vc.pipeline), on hand-built ASTs
  dataset level   DS_r <- cast(DS_1, T)            DS_1 = (Id_1 Integer identifier, Me_1 <source type> measure)
  scalar level    sc_i <- cast(<constant>, T)      sources String / Integer / Number / Boolean (VTL literals), and
                  sc <- cast(cast("<text>", S), T) for the time types (nested cast: the inner cast is the documented
                  String -> S conversion, only used where it is itself unproblematic)
Reference: spec/cast_spec.py (documented conversion table) and spec/cast_docs.py (accept/reject + rename tables).
A value whose documented outcome is not pinned down is run but not judged (counted as `unspecified`).
One bounded obligation per (level, source, target).
"""
from __future__ import annotations

import datetime
import math
import os
from typing import Any, Dict, List, Optional, Sequence, Tuple

from spec import cast_docs as CD
from spec import cast_spec as CS
from spec import vtl_time as vt
from vc import core
from vc import pipeline as P
from vc.core import BOUNDED_OK, REFUTED, UNDECIDED, Check, Obligation

FMT = "sdmx_reporting"        # canonical-looking Time_Period output, so that results compare with the canonical text
D = datetime.date

POOL: Dict[str, List[Any]] = {
    "Integer": [0, 1, -1, 42, -7, 1000000, 2 ** 53 + 1],
    "Number": [0.0, 1.0, -1.0, 0.5, -0.5, 2.5, -2.5, 3.0, 0.001, 123456.789],
    "Boolean": [True, False],
    "String": ["0", "12", "-4", "+5", "007", "3.5", "-2.75", "3.0", "abc", "", "true", "FALSE", "True", "yes",
               "2020-01-15", "2020-02-30", "2020Q1", "2020-M03", "2020-W53", "2020-D366", "2020",
               "2020-01-01/2020-12-31", "2020-01-15/2020-01-15", "2020-01-15/2020-03-20", "A", "M", "P1Y", "P3M", "X",
               "hello world"],
    "Time": ["2020-01-01/2020-12-31", "2020-01-01/2020-06-30", "2020-07-01/2020-12-31", "2020-04-01/2020-06-30",
             "2020-02-01/2020-02-29", "2021-02-01/2021-02-28", "2020-01-06/2020-01-12", "2024-12-30/2025-01-05",
             "2020-12-28/2021-01-03", "2020-01-15/2020-01-15", "2020-01-15/2020-03-20", "2021-02-01/2021-04-30",
             "2020-01-01/2020-01-07"],
    "Date": [D(2020, 1, 15), D(2020, 12, 31), D(2021, 12, 31), D(2000, 2, 29), D(1999, 1, 1)],
    "Time_Period": ["2020A", "2020-S2", "2020-Q3", "2020-M02", "2020-M12", "2020-W01", "2020-W53", "2020-D001",
                    "2020-D366", "2021-D365"],
    "Duration": ["A", "S", "Q", "M", "W", "D"],
}
# quick tier: the strings that matter for a target (every run() that raises costs one engine run per value); the thorough
# tier casts the whole String pool to every target
STRING_POOL_QUICK: Dict[str, List[str]] = {
    "String": ["0", "3.5", "abc", "", "true", "2020-01-15", "2020Q1", "2020-01-01/2020-12-31", "P1Y", "hello world"],
    "Integer": ["0", "12", "-4", "+5", "007", "3.5", "-2.75", "3.0", "abc", "", "true"],
    "Number": ["0", "12", "-4", "+5", "3.5", "-2.75", "3.0", "abc", ""],
    "Boolean": ["true", "FALSE", "True", "yes", "0", "abc", ""],
    "Date": ["2020-01-15", "2020-12-31", "2020-02-30", "2020Q1", "abc", ""],
    "Time_Period": ["2020Q1", "2020-M03", "2020-W53", "2020-D366", "2020", "2020-01-15", "2020-01-01/2020-12-31", "abc", "",
                    "true"],
    "Time": ["2020-01-01/2020-12-31", "2020-01-15/2020-01-15", "2020-01-15/2020-03-20", "2020", "abc", "", "0", "true"],
    "Duration": ["A", "M", "P1Y", "P3M", "X", "abc", "12", ""],
}
SCALAR_SOURCES = ("String", "Integer", "Number", "Boolean")


def pool_of(src: str, tgt: str, thorough: bool) -> List[Any]:
    if src == "String" and not thorough:
        return list(STRING_POOL_QUICK[tgt])
    return list(POOL[src])
CONST_TYPE = {"String": "STRING_CONSTANT", "Integer": "INTEGER_CONSTANT", "Number": "FLOAT_CONSTANT",
              "Boolean": "BOOLEAN_CONSTANT"}


def _dt() -> Any:
    core.boot(full=True)
    import vtlengine.DataTypes as DT
    return DT


def cell_in(src: str, v: Any) -> Any:
    if isinstance(v, datetime.date):
        return v.isoformat()
    return v


def norm_out(v: Any) -> Any:
    if v is None:
        return None
    try:
        import pandas as pd
        if v is pd.NA or v is pd.NaT or (isinstance(v, float) and math.isnan(v)):
            return None
    except Exception:  # noqa: BLE001
        pass
    if hasattr(v, "item") and not isinstance(v, (str, bytes)):
        try:
            v = v.item()
        except Exception:  # noqa: BLE001
            pass
    return v


def run_dataset(src: str, tgt: str, vals: Sequence[Any], mask: Optional[str] = None) -> Tuple[str, Any]:
    """('ok', (component names, [results...])) | ('error', exception)."""
    import pandas as pd
    dt = _dt()
    a = P.A()
    run = P.api_from_ast("run")
    ds = {"name": "DS_1", "DataStructure": [
        {"name": "Id_1", "type": "Integer", "role": "Identifier", "nullable": False},
        {"name": "Me_1", "type": src, "role": "Measure", "nullable": True}]}
    cells: Any = [cell_in(src, v) for v in vals]
    if src == "Integer":
        cells = pd.array(cells, dtype="Int64")        # a float column would round 2**53 + 1 before the engine sees it
    elif src == "Boolean":
        cells = pd.array(cells, dtype="boolean")
    df = pd.DataFrame({"Id_1": list(range(len(vals))), "Me_1": cells})
    params = [a.ParamConstant(type_="PARAM_CAST", value=mask, **P.KW)] if mask is not None else []
    node = a.ParamOp(op="cast", children=[P.var("DS_1"), dt.SCALAR_TYPES[tgt]], params=params, **P.KW)
    tree = P.start([P.assign("DS_r", node, True)])
    try:
        res = run(tree, P.structures([ds]), {"DS_1": df}, return_only_persistent=False, time_period_output_format=FMT)
        r = res["DS_r"]
        meas = [n for n, c in r.components.items() if c.role.value == "Measure"]
        data = r.data.sort_values("Id_1")
        out = [norm_out(x) for x in data[meas[0]].tolist()] if len(meas) == 1 else None
        tname = {v: k for k, v in dt.SCALAR_TYPES.items()}.get(r.components[meas[0]].data_type) if meas else None
        return "ok", ({"components": list(r.components), "measures": meas, "measure_type": tname,
                       "columns": list(data.columns)}, out)
    except Exception as e:  # noqa: BLE001
        return "error", e


def const_node(src: str, v: Any) -> Any:
    if v is None:
        return P.const(None, "NULL_CONSTANT")
    return P.const(v, CONST_TYPE[src])


def run_scalars(nodes: Sequence[Any]) -> Tuple[str, Any]:
    run = P.api_from_ast("run")
    tree = P.start([P.assign(f"sc_{i}", n, True) for i, n in enumerate(nodes)])
    try:
        res = run(tree, P.structures([]), {}, return_only_persistent=False, time_period_output_format=FMT)
        return "ok", [(norm_out(res[f"sc_{i}"].value), res[f"sc_{i}"].data_type) for i in range(len(nodes))]
    except Exception as e:  # noqa: BLE001
        return "error", e


def cast_node(operand: Any, tgt: str) -> Any:
    dt = _dt()
    return P.A().ParamOp(op="cast", children=[operand, dt.SCALAR_TYPES[tgt]], params=[], **P.KW)


def is_vtl(e: BaseException) -> bool:
    return type(e).__module__.startswith("vtlengine")


def ecode(e: BaseException) -> str:
    return e.args[1] if len(getattr(e, "args", ())) > 1 and isinstance(e.args[1], str) else type(e).__name__


def expected_external(tgt: str, verdict: Tuple[Any, ...]) -> Tuple[Any, ...]:
    """Internal representation of the oracle -> what run() returns (Date as ISO text, Time_Period in format FMT)."""
    def ext(w: Any) -> Any:
        if isinstance(w, datetime.date):
            return w.isoformat()
        if tgt == "Time_Period" and isinstance(w, str):
            p = CS.parse_period(w)
            return CS.period_text(FMT, *p) if p else w
        return w
    if verdict[0] == "value":
        return ("value", ext(verdict[1]))
    if verdict[0] == "oneof":
        return ("oneof", [ext(w) for w in verdict[1]], verdict[2])
    return verdict


def judge(tgt: str, got: Tuple[str, Any], verdict: Tuple[Any, ...]) -> Optional[str]:
    """None: complies / no claim; else the class of the deviation."""
    kind = verdict[0]
    if kind == "unspecified":
        if got[0] == "error" and not is_vtl(got[1]):
            return "non-vtl-error"
        return None
    if got[0] == "error":
        e = got[1]
        if not is_vtl(e):
            return "non-vtl-error"
        if kind == "error" or (kind == "oneof" and verdict[2]):
            return "semantic-error-for-a-value" if type(e).__name__ == "SemanticError" and ecode(e) == "1-1-5-4" else None
        return "rejected-convertible-value"
    v = got[1]
    if kind == "error":
        return "accepted-unconvertible-value"
    if kind == "value":
        w = verdict[1]
        if w is None or v is None:
            return None if (w is None and v is None) else "wrong-value"
        if isinstance(w, bool) or isinstance(v, bool):
            return None if (isinstance(v, bool) and isinstance(w, bool) and v == w) else "wrong-value"
        if isinstance(w, (int, float)) and isinstance(v, (int, float)):
            if isinstance(w, int) and isinstance(v, int):
                return None if v == w else "wrong-value"
            return None if abs(float(v) - float(w)) <= 1e-9 * max(1.0, abs(float(w))) else "wrong-value"
        return None if str(v) == str(w) and type(v) is type(w) else "wrong-value"
    if kind == "oneof":
        return None if v in verdict[1] else "wrong-value"
    if kind == "number-text":
        try:
            return None if isinstance(v, str) and float(v) == float(verdict[1]) else "wrong-value"
        except ValueError:
            return "wrong-value"
    return None


def show(got: Tuple[str, Any]) -> str:
    if got[0] == "error":
        e = got[1]
        return f"raises {type(e).__module__.split('.')[0]}.{type(e).__name__} {ecode(e)}: {str(e)[:110]}"
    return f"returns {got[1]!r}"


class Acc:
    """Per (level, src, tgt): evaluated cases, unspecified cases, deviations."""

    def __init__(self) -> None:
        self.n = 0
        self.unspecified = 0
        self.dev: List[Dict[str, Any]] = []

    def add(self, src: str, tgt: str, value: Any, got: Tuple[str, Any], verdict: Tuple[Any, ...], program: str) -> None:
        self.n += 1
        if verdict[0] == "unspecified":
            self.unspecified += 1
        cls = judge(tgt, got, expected_external(tgt, verdict))
        if cls:
            self.dev.append({"class": cls, "program": program, "operand": repr(value), "engine": show(got),
                             "documented": repr(expected_external(tgt, verdict))[:160]})


def bounded_source(src: str, rules: Dict[str, bool], targets: Optional[Sequence[str]] = None
                   ) -> Tuple[List[Obligation], Dict[str, int]]:
    """The given targets (default: all) for one source type (a task of a worker process)."""
    core.boot(full=True)
    obs: List[Obligation] = []
    stats = {"runs": 0, "cases": 0, "unspecified": 0}
    rename = CD.rename_table()
    imp = CD.implicit_table()
    fn = "src/vtlengine/API/__init__.py:run"
    for tgt in (targets or CD.DOC_TYPES):
        allowed = CD.allowed(src, tgt)
        unspecified_pair = (src, tgt) in CD.UNSPECIFIED_PAIRS
        for level in ("dataset", "scalar"):
            if level == "scalar" and src not in SCALAR_SOURCES:
                continue
            acc = Acc()
            ob = Obligation(f"{fn}::bounded::{level}::{src}->{tgt}", fn,
                            f"[{level} level] cast({src} -> {tgt}) on the value pool: documented value / semantic error / VTL "
                            "runtime error" + ("; measure renamed as documented" if level == "dataset" else ""), bounded=True)
            ob.backend = "bounded-enumeration-real-engine"
            pool = pool_of(src, tgt, os.environ.get("VERIF_TIER") == "thorough") + [None]
            structure_note = ""
            if level == "dataset":
                got_all = run_dataset(src, tgt, pool)
                stats["runs"] += 1
                rejected = got_all[0] == "error" and type(got_all[1]).__name__ == "SemanticError" and ecode(got_all[1]) == "1-1-5-4"
                if not allowed and not unspecified_pair:
                    acc.n += 1
                    if not rejected:
                        acc.dev.append({"class": "forbidden-pair-accepted", "program": f"DS_r <- cast(DS_1, {tgt.lower()})",
                                        "operand": f"measure of type {src}", "engine": show(got_all) if got_all[0] == "error" else "accepted",
                                        "documented": "semantic error (pair not in the conversion tables)"})
                elif rejected:
                    acc.n += 1          # (a rejected pair of UNSPECIFIED_PAIRS is tolerated: evaluated, no deviation)
                    if allowed:
                        acc.dev.append({"class": "allowed-pair-rejected", "program": f"DS_r <- cast(DS_1, {tgt.lower()})",
                                        "operand": f"measure of type {src}", "engine": show(got_all),
                                        "documented": "accepted (conversion tables)"})
                else:
                    # values: the pooled run when it succeeds, one run per value otherwise
                    per_value: List[Tuple[Any, Tuple[str, Any]]] = []
                    if got_all[0] == "ok" and got_all[1][1] is not None:
                        info, out = got_all[1]
                        per_value = [(v, ("ok", o)) for v, o in zip(pool, out)]
                    else:
                        info = None
                        for v in pool:
                            g = run_dataset(src, tgt, [v])
                            stats["runs"] += 1
                            if g[0] == "ok":
                                info = info or g[1][0]
                                per_value.append((v, ("ok", g[1][1][0] if g[1][1] else None)))
                            else:
                                per_value.append((v, g))
                    for v, g in per_value:
                        verdict = ("value", None) if v is None else CS.convert(src, tgt, v, rules, FMT)
                        acc.add(src, tgt, v, g, verdict, f"DS_r <- cast(DS_1, {tgt.lower()})  [Me_1 = {v!r}]")
                    if info is not None:
                        want = "Me_1" if imp.get(src, {}).get(tgt) else rename.get(tgt)
                        acc.n += 1
                        if info["measures"] != [want] or info["measure_type"] != tgt or sorted(info["columns"]) != sorted(info["components"]):
                            acc.dev.append({"class": "wrong-structure", "program": f"DS_r <- cast(DS_1, {tgt.lower()})",
                                            "operand": f"measure Me_1 of type {src}",
                                            "engine": f"components {info['components']} measure type {info['measure_type']} "
                                                      f"columns {info['columns']}",
                                            "documented": f"identifier Id_1 and one measure {want!r} of type {tgt}"})
                        structure_note = f"; result measure {info['measures']}"
            else:
                nodes = [cast_node(const_node(src, v), tgt) for v in pool]
                got_all = run_scalars(nodes)
                stats["runs"] += 1
                rejected = got_all[0] == "error" and type(got_all[1]).__name__ == "SemanticError" and ecode(got_all[1]) == "1-1-5-4"
                if not allowed and not unspecified_pair:
                    # a NULL constant has type Null, which casts to anything: judge the typed constants only
                    g1 = run_scalars([cast_node(const_node(src, POOL[src][0]), tgt)])
                    stats["runs"] += 1
                    acc.n += 1
                    if not (g1[0] == "error" and type(g1[1]).__name__ == "SemanticError" and ecode(g1[1]) == "1-1-5-4"):
                        acc.dev.append({"class": "forbidden-pair-accepted", "program": f"sc <- cast({POOL[src][0]!r}, {tgt.lower()})",
                                        "operand": repr(POOL[src][0]), "engine": show(g1) if g1[0] == "error" else f"returns {g1[1][0][0]!r}",
                                        "documented": "semantic error (pair not in the conversion tables)"})
                elif rejected and not allowed:
                    acc.n += 1          # a pair of UNSPECIFIED_PAIRS rejected by the semantic pass: tolerated
                else:
                    if got_all[0] == "ok":
                        per_value = [(v, ("ok", o[0])) for v, o in zip(pool, got_all[1])]
                    else:
                        per_value = []
                        for v in pool:
                            g = run_scalars([cast_node(const_node(src, v), tgt)])
                            stats["runs"] += 1
                            per_value.append((v, ("ok", g[1][0][0]) if g[0] == "ok" else g))
                    for v, g in per_value:
                        verdict = ("value", None) if v is None else CS.convert(src, tgt, v, rules, FMT)
                        if g[0] == "error" and allowed and type(g[1]).__name__ == "SemanticError" and ecode(g[1]) == "1-1-5-4":
                            acc.n += 1
                            acc.dev.append({"class": "allowed-pair-rejected", "program": f"sc <- cast({v!r}, {tgt.lower()})",
                                            "operand": repr(v), "engine": show(g), "documented": "accepted (conversion tables)"})
                            continue
                        acc.add(src, tgt, v, g, verdict, f"sc <- cast({v!r}, {tgt.lower()})")
            stats["cases"] += acc.n
            stats["unspecified"] += acc.unspecified
            finish(ob, acc, level, src, tgt, structure_note)
            obs.append(ob)
    return obs, stats


def finish(ob: Obligation, acc: Acc, level: str, src: str, tgt: str, note: str = "") -> None:
    if acc.dev:
        classes = sorted({d["class"] for d in acc.dev})
        ob.status = REFUTED
        ob.witness = {"deviations": acc.dev[:6], "cases": acc.n}
        ob.detail = f"{len(acc.dev)} of {acc.n} cases deviate ({', '.join(classes)}); first: {acc.dev[0]['program']} " \
                    f"{acc.dev[0]['engine']}; documented {acc.dev[0]['documented']}"
        ob.replayed = True
        ob.replay_detail = "observed on the real engine (extracted API.run): " + "; ".join(
            f"{d['program']} {d['engine']} [documented: {d['documented']}]" for d in acc.dev[:3])
        # the key names the deviating operands (digest), so that a NEW deviating value of a pair with a known finding is
        # a new finding and not hidden behind the known one
        import hashlib
        ops = sorted({f"{d['class']}|{d['operand']}" for d in acc.dev})
        ob.finding_key = f"bounded::{level}::{src}->{tgt}::" + "+".join(classes) + \
                         f"::{len(ops)}-{hashlib.sha1('~'.join(ops).encode()).hexdigest()[:8]}"
    elif acc.n == 0:
        ob.status, ob.detail = UNDECIDED, "nothing was evaluated for this pair"
    else:
        ob.status = BOUNDED_OK
        ob.detail = f"{acc.n} cases ({acc.unspecified} with no documented outcome: run, not judged){note}"


NESTED = [
    # (inner source text, inner type, outer target): time-typed scalars can only be written as a cast of a string
    ("2020-01-15", "Date", "Time_Period"), ("2020-12-31", "Date", "Time_Period"), ("2020-01-15", "Date", "Time"),
    ("2020-01-15", "Date", "String"), ("2020-D015", "Time_Period", "Date"), ("2020-Q1", "Time_Period", "Date"),
    ("2020-Q1", "Time_Period", "Time"), ("2020-M03", "Time_Period", "String"),
    ("2020-01-01/2020-12-31", "Time", "Time_Period"), ("2024-12-30/2025-01-05", "Time", "Time_Period"),
    ("2020-04-01/2020-06-30", "Time", "Time_Period"), ("2020-01-15/2020-03-20", "Time", "Time_Period"),
    ("2020-01-15/2020-01-15", "Time", "Date"), ("2020-01-01/2020-12-31", "Time", "Date"),
    ("A", "Duration", "String"), ("2020-01-15", "Date", "Integer"), ("A", "Duration", "Time_Period"),
]


def bounded_nested(rules: Dict[str, bool]) -> Tuple[List[Obligation], Dict[str, int]]:
    core.boot(full=True)
    fn = "src/vtlengine/API/__init__.py:run"
    obs: List[Obligation] = []
    stats = {"runs": 0, "cases": 0, "unspecified": 0}
    groups: Dict[Tuple[str, str], Acc] = {}
    for text, src, tgt in NESTED:
        acc = groups.setdefault((src, tgt), Acc())
        inner_v = CS.convert("String", src, text, rules, FMT)
        if inner_v[0] != "value":
            continue
        v = inner_v[1]
        node = cast_node(cast_node(P.const(text, "STRING_CONSTANT"), src), tgt)
        g = run_scalars([node])
        stats["runs"] += 1
        prog = f'sc <- cast(cast("{text}", {src.lower()}), {tgt.lower()})'
        got: Tuple[str, Any] = ("ok", g[1][0][0]) if g[0] == "ok" else g
        if not CD.allowed(src, tgt) and (src, tgt) not in CD.UNSPECIFIED_PAIRS:
            acc.n += 1
            if not (g[0] == "error" and type(g[1]).__name__ == "SemanticError" and ecode(g[1]) == "1-1-5-4"):
                acc.dev.append({"class": "forbidden-pair-accepted", "program": prog, "operand": repr(text), "engine": show(got),
                                "documented": "semantic error (pair not in the conversion tables)"})
            continue
        if g[0] == "error" and type(g[1]).__name__ == "SemanticError" and ecode(g[1]) == "1-1-5-4":
            if CD.allowed(src, tgt):
                acc.n += 1
                acc.dev.append({"class": "allowed-pair-rejected", "program": prog, "operand": repr(text), "engine": show(got),
                                "documented": "accepted"})
            continue
        acc.add(src, tgt, v, got, CS.convert(src, tgt, v, rules, FMT), prog)
    for (src, tgt), acc in groups.items():
        ob = Obligation(f"{fn}::bounded::scalar-nested::{src}->{tgt}", fn,
                        f"[scalar level, operand written as cast(<text>, {src.lower()})] cast({src} -> {tgt}): documented value / "
                        "semantic error / VTL runtime error", bounded=True)
        ob.backend = "bounded-enumeration-real-engine"
        stats["cases"] += acc.n
        stats["unspecified"] += acc.unspecified
        finish(ob, acc, "scalar-nested", src, tgt)
        obs.append(ob)
    return obs, stats


def bounded_mask() -> Tuple[List[Obligation], Dict[str, int]]:
    """Documented: a cast with a mask is not implemented and raises NotImplementedError (never a converted value)."""
    core.boot(full=True)
    fn = "src/vtlengine/API/__init__.py:run"
    ob = Obligation(f"{fn}::bounded::mask-not-implemented", fn, "cast(DS_1, T, \"<mask>\") for the pairs the docs mark as "
                    "'defined in VTL 2.2 but not yet implemented': NotImplementedError, never a result", bounded=True)
    ob.backend = "bounded-enumeration-real-engine"
    bad = []
    n = 0
    for src, cols in CD.mask_table().items():
        for tgt, cell in cols.items():
            if cell != "|p|":
                continue
            n += 1
            v = POOL[src][0]
            g = run_dataset(src, tgt, [v], mask="YYYY-MM-DD")
            if not (g[0] == "error" and isinstance(g[1], NotImplementedError)):
                bad.append({"program": f'DS_r <- cast(DS_1, {tgt.lower()}, "YYYY-MM-DD")  [Me_1 {src} = {v!r}]', "engine": show(g)})
    if bad:
        ob.status, ob.witness = REFUTED, {"deviations": bad[:5]}
        ob.detail = f"{len(bad)} of {n} masked casts do not raise NotImplementedError: {bad[0]}"
        ob.replayed, ob.replay_detail = True, f"observed on the real engine: {bad[0]}"
        ob.finding_key = "bounded::mask::" + bad[0]["program"][:40]
    elif n == 0:
        ob.status, ob.detail = UNDECIDED, "no |p| cell in the docs table"
    else:
        ob.status, ob.detail = BOUNDED_OK, f"{n} masked casts"
    return [ob], {"runs": n, "cases": n, "unspecified": 0}
