"""C29, static pass over src/vtlengine/** OUTSIDE duckdb_transpiler (Interpreter, Model, ViralPropagation, AST, DAG,
Operators, DataTypes, files, API): every case-changing call site (`.lower .upper .casefold .capitalize .title .swapcase`,
`re.*` with IGNORECASE) is one obligation.

The whole-package taint fixpoint of vc.pytaint explodes on the whole tree (field-based flows through AST node fields),
so this pass is LOCAL (one function at a time, flow-insensitive over its local names) and answers two questions:
  receiver  what is being case-changed: file suffix / constant chain (Role.MEASURE.value, TABLE[...], .__name__) / grammar
            token (.text, .type_, *_type, op) / data value / NAME-LIKE (parameter or attribute called name, comp, component,
            target, variable, alias, ds_name, dataset, col, column, identifier, measure, attribute, key, operand ...; `.name`;
            a loop variable over components / datasets / *_rules / .keys() / .items()) / other
  uses      where the result goes inside the function: comparison with literals (CONST), lookup in a module-level constant
            table (TABLE), enum constructor (ENUM), truth test (TRUTH), spliced into text (TEXT), comparison with a
            non-constant (NAMECMP), key of a non-constant container (KEY), handed on (ESCAPE: returned / argument / stored)
and derives a category:
  file-suffix | const-compare | regex-truth-test | keyword-text        -> harmless, mechanically established
  name-comparison | unclassified                                           -> not harmless
A site is DISCHARGED iff its category is harmless AND (it is one of the recorded sites below with exactly that category,
or the category is const-compare / file-suffix).  Any other site - in particular a NEW one that compares or looks up a
case-folded NAME - is refuted; for the viral-propagation registry the refutation is replayed natively (two rules whose
targets differ only in case must stay two rules).
"""
from __future__ import annotations

import ast
import re
import sys
from pathlib import Path
from typing import Any, Dict, List, Optional, Set, Tuple

sys.path.insert(0, str(Path(__file__).resolve().parent.parent))
from vc import core  # noqa: E402
from vc.core import DISCHARGED, REFUTED, UNDECIDED, Check  # noqa: E402
from vc.pysrc import all_modules, enclosing_function, module_ast, qualname_of  # noqa: E402

CASE = {"lower", "upper", "casefold", "capitalize", "title", "swapcase"}
PRESERVING = {"strip", "lstrip", "rstrip", "replace", "removeprefix", "removesuffix", "group", "encode", "decode"}
NAMEISH = re.compile(r"(^|_)(name|names|comp|comps|component|components|target|targets|variable|variables|var|alias|aliases|"
                     r"ds_name|dataset|datasets|col|cols|column|columns|identifier|identifiers|measure|measures|attribute|"
                     r"attributes|key|keys|operand|operands|ds|rule|rules)(_|$)", re.I)
TOKENISH = re.compile(r"(^|_)(text|type|type_|op|token|kind|mode|format|output_type|ruleset_type|signature_type)(_|$)|_type$")
HARMLESS = {"file-suffix", "const-compare", "regex-truth-test", "keyword-text", "data-value-normalisation"}
AUTO = {"file-suffix", "const-compare"}

#: recorded justifications (my reading of the sites, now checked mechanically on every run): (module, function, receiver) -> category
RECORDED: Dict[Tuple[str, str, str], str] = {
    # external-routine SQL is scanned for the keywords INSTALL / LOAD / FROM 'http': truth test only, pattern from a literal list
    ("Operators/General.py", "Eval._execute_query", "f'\\\\b{forbidden}\\\\b'"): "regex-truth-test",
    ("Operators/General.py", "Eval._execute_query", "\"FROM\\\\s+'https?://\""): "regex-truth-test",
    # display text 'Datapoint ruleset <name>' of generate_sdmx: the ruleset KIND is capitalised, the name is spliced verbatim
    ("API/_InternalApi.py", "__generate_ruleset", "ruleset_type"): "keyword-text",
    # a Duration VALUE ('p1y' -> 'P1Y') is normalised, looked up in the constant ISO table / validated, and returned
    ("DataTypes/__init__.py", "Duration.explicit_cast", "str(value).strip()"): "data-value-normalisation",
    ("AST/ASTString.py", "_format_dataset_eval.__format_component", "component.role.value"): "keyword-text",
    ("AST/ASTString.py", "_format_dataset_eval.__format_component", "SCALAR_TYPES_CLASS_REVERSE[component.data_type]"): "keyword-text",
    ("AST/ASTString.py", "ASTString.visit_Assignment", "role.value"): "keyword-text",
    ("AST/ASTConstructorModules/Terminals.py", "Terminals.visitComponentRole", "text[0]"): "keyword-text",
    ("AST/ASTConstructorModules/Terminals.py", "Terminals.visitComponentRole", "text[1:]"): "keyword-text",
    ("AST/ASTConstructorModules/Terminals.py", "Terminals.visitPartitionByClause", "ctx_list[1].text"): "keyword-text",
    ("AST/ASTConstructorModules/Expr.py", "Expr.visitCalcClauseItem", "Role.MEASURE.value"): "keyword-text",
    ("AST/ASTConstructorModules/Expr.py", "Expr.visitCalcClauseItem", "role.value"): "keyword-text",
    ("AST/ASTString.py", "ASTString.visit_Argument", "node.type_.__name__"): "keyword-text",
    ("AST/ASTString.py", "ASTString.visit_Operator", "node.output_type"): "keyword-text",
    ("AST/ASTString.py", "ASTString.visit_ParamOp", "SCALAR_TYPES_CLASS_REVERSE[node.children[1]]"): "keyword-text",
}


class Site:
    def __init__(self, rel: str, fn: Optional[ast.AST], call: ast.Call, receiver: ast.AST, kind: str) -> None:
        self.rel, self.fn, self.call, self.receiver, self.kind = rel, fn, call, receiver, kind
        self.function = qualname_of(call) if fn is not None else "<module>"
        self.rtext = ast.unparse(receiver)
        self.uses: Set[str] = set()
        self.use_desc: List[str] = []
        self.rkind = ""
        self.category = ""


def find_sites(rel: str) -> List[Site]:
    out = []
    tree = module_ast(rel)
    for n in ast.walk(tree):
        if not isinstance(n, ast.Call) or not isinstance(n.func, ast.Attribute):
            continue
        f = n.func
        if f.attr in CASE and not n.args and not n.keywords:
            out.append(Site(rel, enclosing_function(n), n, f.value, "method"))
        elif isinstance(f.value, ast.Name) and f.value.id in ("re", "regex") and n.args and (
                any(isinstance(x, ast.Attribute) and x.attr in ("IGNORECASE", "I") for a in list(n.args[1:]) + [k.value for k in n.keywords]
                    for x in ast.walk(a)) or (isinstance(n.args[0], ast.Constant) and "(?i" in str(n.args[0].value))):
            out.append(Site(rel, enclosing_function(n), n, n.args[0], "regex"))
    return out


def _is_const(e: ast.AST) -> bool:
    if isinstance(e, ast.Constant):
        return True
    if isinstance(e, (ast.Tuple, ast.List, ast.Set)):
        return all(_is_const(x) for x in e.elts)
    if isinstance(e, ast.Name) and e.id.lstrip("_").isupper():
        return True                     # module-level constant table by convention (checked to be module-level below)
    if isinstance(e, ast.Attribute) and isinstance(e.value, ast.Name) and (e.value.id[:1].isupper() or e.value.id == "tokens"):
        return True                     # Role.MEASURE / tokens.MIN
    return False


def _module_level(rel: str, name: str) -> bool:
    return any(isinstance(st, (ast.Assign, ast.AnnAssign)) and any(isinstance(t, ast.Name) and t.id == name for t in
               (st.targets if isinstance(st, ast.Assign) else [st.target])) for st in module_ast(rel).body) or \
        any(isinstance(st, ast.ImportFrom) and any((a.asname or a.name) == name for a in st.names) for st in module_ast(rel).body)


def collect_uses(site: Site) -> None:
    scope = site.fn if site.fn is not None else module_ast(site.rel)
    seen: Set[int] = set()

    def use(node: ast.AST, is_text: bool) -> None:  # noqa: C901
        if id(node) in seen:
            return
        seen.add(id(node))
        par = getattr(node, "_parent", None)
        if par is None:
            return

        def add(kind: str) -> None:
            site.uses.add("TEXT" if is_text and kind == "ESCAPE" else kind)
            site.use_desc.append(f"{kind}@{getattr(par, 'lineno', 0)}:{ast.unparse(par)[:60]}")
        if isinstance(par, ast.Attribute) and par.value is node:
            call = getattr(par, "_parent", None)
            if isinstance(call, ast.Call) and call.func is par:
                if par.attr in PRESERVING or par.attr in CASE:
                    return use(call, is_text)
                if par.attr in ("startswith", "endswith", "find", "index", "count", "__contains__"):
                    return add("CONST" if all(_is_const(a) for a in call.args) else "NAMECMP")
                if par.attr in ("search", "match", "fullmatch", "findall", "finditer", "sub", "split"):
                    return use(call, is_text)
                if par.attr in ("split", "rsplit", "partition", "join", "format"):
                    return use(call, True if par.attr in ("join", "format") else is_text)
                return add("ESCAPE")
            return use(par, is_text)
        if isinstance(par, ast.Compare):
            others = [x for x in [par.left] + list(par.comparators) if x is not node]
            return add("CONST" if all(_is_const(x) for x in others) else "NAMECMP")
        if isinstance(par, ast.BinOp) and isinstance(par.op, (ast.Add, ast.Mod)):
            other = par.right if par.left is node else par.left
            # capitalisation idiom x[0].upper() + x[1:].lower(): still the same (whole) value
            whole = isinstance(other, ast.Call) and isinstance(other.func, ast.Attribute) and other.func.attr in CASE
            if not whole:
                site.uses.add("TEXT")
            return use(par, is_text or not whole)
        if isinstance(par, ast.FormattedValue):
            site.uses.add("TEXT")
            return use(par, True)
        if isinstance(par, ast.JoinedStr):
            return use(par, True)
        if isinstance(par, (ast.Assign, ast.AnnAssign, ast.AugAssign, ast.NamedExpr)):
            if isinstance(par, ast.AugAssign):
                site.uses.add("TEXT")
            tg = par.targets if isinstance(par, ast.Assign) else [par.target]
            for t in tg:
                if isinstance(t, ast.Name):
                    for ld in ast.walk(scope):
                        if isinstance(ld, ast.Name) and ld.id == t.id and isinstance(ld.ctx, ast.Load):
                            use(ld, is_text)
                elif isinstance(t, ast.Attribute):
                    add("ESCAPE")
                elif isinstance(t, ast.Subscript):
                    add("ESCAPE")
                else:
                    add("ESCAPE")
            return
        if isinstance(par, ast.Subscript):
            if par.slice is node:
                return add("TABLE" if _is_const(par.value) else "KEY")
            return use(par, is_text)
        if isinstance(par, ast.Call):
            fname = par.func.id if isinstance(par.func, ast.Name) else par.func.attr if isinstance(par.func, ast.Attribute) else ""
            if isinstance(par.func, ast.Attribute) and fname in ("get", "pop", "setdefault") and par.args and par.args[0] is node:
                return add("TABLE" if _is_const(par.func.value) else "KEY")
            if fname in ("str", "bool", "len", "repr", "print", "isinstance"):
                return use(par, is_text)
            if fname in ("Role",) or (fname[:1].isupper() and fname in ("TimePeriodRepresentation",)):
                return add("ENUM")
            return add("ESCAPE")
        if isinstance(par, ast.keyword):
            return add("ESCAPE")
        if isinstance(par, (ast.If, ast.While, ast.IfExp)) and getattr(par, "test", None) is node:
            return add("TRUTH")
        if isinstance(par, ast.IfExp):
            return use(par, is_text)
        if isinstance(par, ast.BoolOp):
            gp = getattr(par, "_parent", None)
            if isinstance(gp, (ast.If, ast.While)) or isinstance(gp, ast.UnaryOp):
                return add("TRUTH")
            return use(par, is_text)
        if isinstance(par, ast.UnaryOp) and isinstance(par.op, ast.Not):
            return add("TRUTH")
        if isinstance(par, ast.Return):
            return add("ESCAPE")
        if isinstance(par, ast.Expr):
            return
        if isinstance(par, ast.Dict) and node in par.keys:
            return add("KEY")
        if isinstance(par, (ast.Tuple, ast.List, ast.Set, ast.Dict, ast.Starred, ast.comprehension, ast.ListComp, ast.SetComp,
                            ast.GeneratorExp, ast.DictComp)):
            if isinstance(par, ast.DictComp) and par.key is node:
                return add("KEY")
            return use(par, is_text)
        add("ESCAPE")
    use(site.call, False)


def receiver_kind(site: Site) -> str:  # noqa: C901
    e = site.receiver
    if site.kind == "regex":
        holes = [v.value for v in e.values if isinstance(v, ast.FormattedValue)] if isinstance(e, ast.JoinedStr) else \
            ([] if isinstance(e, ast.Constant) else [e])
        for h in holes:
            if not (isinstance(h, ast.Name) and _loop_over_literal(site, h.id)):
                return "regex-with-runtime-pattern"
        return "regex-constant-pattern"
    while isinstance(e, ast.Call) and isinstance(e.func, ast.Attribute) and e.func.attr in PRESERVING | CASE:
        e = e.func.value
    if isinstance(e, ast.Call) and isinstance(e.func, ast.Name) and e.func.id in ("str", "repr") and e.args:
        e = e.args[0]
    while isinstance(e, ast.Subscript) and not _is_const(e.value):
        e = e.value                                   # text[0] / ctx_list[1] : an element / slice of ...
    if isinstance(e, ast.BoolOp):
        e = e.values[0]
    if isinstance(e, ast.Attribute) and e.attr in ("suffix", "suffixes"):
        return "file-suffix"
    if isinstance(e, ast.Subscript) and _is_const(e.value):
        return "table-value"
    root: ast.AST = e
    chain: List[str] = []
    while isinstance(root, ast.Attribute):
        chain.append(root.attr)
        root = root.value
    if isinstance(root, ast.Call) and isinstance(root.func, ast.Attribute) and root.func.attr in ("getenv", "get") \
            and "environ" in ast.unparse(root.func) + "os.getenv":
        return "environment"
    term = chain[0] if chain else (root.id if isinstance(root, ast.Name) else "")
    if "__name__" in chain:
        return "type-name"
    if isinstance(root, ast.Name) and root.id[:1].isupper() and chain:
        return "constant-chain"                       # Role.MEASURE.value
    if chain and chain[0] in ("value", "_value_") and len(chain) >= 2 and chain[1] == "role":
        return "constant-chain"                       # component.role.value : an enum member's text
    if isinstance(root, ast.Name) and chain == ["value"] and re.search(r"role", root.id, re.I):
        return "constant-chain"
    if term == "name" or NAMEISH.search(term):
        return "name-like"
    if isinstance(root, ast.Name) and not chain:
        src = _loop_source(site, root.id)
        if src and NAMEISH.search(src):
            return "name-like"
    if TOKENISH.search(term):
        return "token"
    if term in ("value", "v", "s", "val", "x"):
        return "data-value"
    return "other:" + (term or type(e).__name__)


def _loop_over_literal(site: Site, name: str) -> bool:
    scope = site.fn if site.fn is not None else module_ast(site.rel)
    for n in ast.walk(scope):
        if isinstance(n, (ast.For, ast.comprehension)) and isinstance(n.target, ast.Name) and n.target.id == name:
            return _is_const(n.iter)
    return False


def _loop_source(site: Site, name: str) -> str:
    """Terminal identifier of what a loop variable iterates over (components / _variable_rules / datasets ...)."""
    scope = site.fn if site.fn is not None else module_ast(site.rel)
    for n in ast.walk(scope):
        if isinstance(n, (ast.For, ast.comprehension)) and any(isinstance(x, ast.Name) and x.id == name for x in ast.walk(n.target)):
            it = n.iter
            if isinstance(it, ast.Call) and isinstance(it.func, ast.Attribute) and it.func.attr in ("items", "keys", "values"):
                it = it.func.value
            if isinstance(it, ast.Attribute):
                return it.attr
            if isinstance(it, ast.Name):
                return it.id
    return ""


def categorise(site: Site) -> None:
    collect_uses(site)
    site.rkind = receiver_kind(site)
    u = site.uses
    if site.rkind == "file-suffix":
        site.category = "file-suffix"
    elif site.rkind == "name-like" and u & {"NAMECMP", "KEY", "ESCAPE"}:
        site.category = "name-comparison"
    elif u and u <= {"CONST", "TABLE", "ENUM"}:
        site.category = "const-compare"
    elif site.kind == "regex" and site.rkind == "regex-constant-pattern" and u <= {"TRUTH"}:
        site.category = "regex-truth-test"
    elif u & {"NAMECMP", "KEY"}:
        site.category = "name-comparison"
    elif site.rkind in ("constant-chain", "table-value", "type-name", "token") and u <= {"TEXT", "ESCAPE", "CONST", "TABLE", "ENUM"}:
        site.category = "keyword-text"
    elif site.rkind == "data-value" and u <= {"TEXT", "ESCAPE", "CONST", "TABLE", "ENUM"}:
        site.category = "data-value-normalisation"
    else:
        site.category = "unclassified"


def replay_viral_registry() -> Tuple[Optional[bool], str]:
    """Two variable rules whose targets differ only in case must resolve separately (real registry)."""
    try:
        core.boot(full=True)
        import importlib
        vp = importlib.import_module("vtlengine.ViralPropagation")
        reg = vp.ViralPropagationRegistry()
        mk = lambda name, target, fn: vp.ViralPropagationRule(name=name, signature_type="variable", target=target,  # noqa: E731
                                                              enumerated_clauses=[], aggregate_function=fn, default_value=None)
        try:
            up, lo = mk("vp_upper", "At_1", "max"), mk("vp_lower", "at_1", "min")
        except TypeError as e:
            return None, f"replay harness: ViralPropagationRule signature changed ({e})"
        reg.register(up)
        reg.register(lo)
        got = {t: getattr(reg.get_rule_for_variable(t), "name", None) for t in ("At_1", "at_1", "AT_1")}
        want = {"At_1": "vp_upper", "at_1": "vp_lower", "AT_1": None}
        return got != want, f"registry with rules vp_upper(At_1, max) and vp_lower(at_1, min): get_rule_for_variable -> {got}; " \
                            f"distinct names require {want}"
    except Exception as e:  # noqa: BLE001
        return None, f"replay harness error {type(e).__name__}: {e}"


def run(chk: Check) -> None:
    mods = [m for m in all_modules() if not m.startswith("duckdb_transpiler/")]
    sites: List[Site] = []
    for rel in mods:
        sites += find_sites(rel)
    seen: Dict[str, int] = {}
    cats: Dict[str, int] = {}
    for s in sites:
        categorise(s)
        cats[s.category] = cats.get(s.category, 0) + 1
        f = f"src/vtlengine/{s.rel}:{s.function}"
        chk.under_contract(f, "contract")
        base = f"{f}::case-change-outside-transpiler::{s.rtext[:40]}"
        seen[base] = seen.get(base, 0) + 1
        oid = base if seen[base] == 1 else f"{base}#{seen[base]}"
        ob = chk.ob(oid, f, f"line {s.call.lineno}: `{ast.unparse(s.call)[:70]}` does not make two names that differ only in letter "
                    "case behave as one (it is file-suffix / literal / keyword / message handling, established mechanically)")
        ob.backend = "ast-local-flow"
        rec = RECORDED.get((s.rel, s.function, s.rtext))
        info = f"receiver {s.rkind}; uses {sorted(s.uses)}; category {s.category}"
        if s.category in HARMLESS and (s.category in AUTO or rec == s.category):
            ob.status, ob.detail = DISCHARGED, info + (" (recorded site)" if rec else "")
            continue
        ob.status = REFUTED
        ob.detail = info + ("; a recorded justification exists but the code no longer matches it" if rec else
                            "; no recorded justification for this site") + " | " + "; ".join(s.use_desc[:4])
        ob.witness = {"site": f"{s.rel}:{s.call.lineno}", "function": s.function, "call": ast.unparse(s.call)[:120],
                      "receiver_kind": s.rkind, "uses": s.use_desc[:6], "category": s.category}
        ob.finding_key = f"outside::{s.rel.split('/')[-1]}::{s.function}::{s.rtext[:40]}"
        if s.rel.startswith("ViralPropagation/"):
            ob.replayed, ob.replay_detail = replay_viral_registry()
        else:
            ob.replayed = None
    chk.extra["outside_transpiler"] = {"modules": len(mods), "case_changing_sites": len(sites), "categories": cats,
                                       "recorded_justifications": len(RECORDED)}
    chk.assume("outside duckdb_transpiler the case-change contract is LOCAL (per function, flow-insensitive): a case-changed "
               "value that is handed on (ESCAPE) is accepted only when its receiver is a constant chain / table value / type "
               "name / grammar token; name-likeness of a receiver is decided by identifier heuristics (name, comp, target, "
               "variable, alias, ds_name, col, key, ... and loop variables over components / datasets / rules)")
