"""C01 proof tier driver.  `build(chk)` adds the solver-discharged obligations to a Check; run as a script it writes them
as JSON (`--out file`) so that checks/C01.py can run this tier in its own process next to the bounded tier."""
from __future__ import annotations

import json
import os
import sys
import time
from pathlib import Path
from typing import Any, Dict, List

sys.path.insert(0, str(Path(__file__).resolve().parent.parent))
sys.path.insert(0, str(Path(__file__).resolve().parent))
from vc import core, smt  # noqa: E402
from vc.core import Check  # noqa: E402

TECHNIQUE = ("contracts on the scalar SQL templates of the element-wise operators (text returned by the real operator registry / "
             "template helpers / visitor scalar paths on every run), evaluated over nullable symbolic operands and discharged by "
             "z3/cvc5 for all operand values; row-level contracts on the SELECT the real pipeline emits for small dataset "
             "programs; counter-models replayed in the real DuckDB; bounded enumeration of programs on the real engine for the "
             "dataset layer as a whole")

ASSUMPTIONS = [
    "DuckDB evaluates scalar SQL as the model of vc/sqlelem.py + vc/sqlvc_ext.py + vc/sqlvc.py says: sampled on every run (every "
    "template under proof is executed in the real DuckDB on a concrete grid of operands incl. NULL and compared with the model; a "
    "mismatch is an engine fault), not proved",
    "Integer = mathematical integers (BIGINT overflow not modelled), Number = exact reals (DOUBLE rounding, inf and nan not modelled: "
    "x / 0 outside vtl_div and DOUBLE % 0 leave the model); Integer -> DOUBLE conversions are exact below 2**53 only",
    "strings: equality / nvl / isnull / in / if / case for ALL strings (opaque codes); operators that look inside a string are proved "
    "for bounded lengths (operands <= 3 characters, patterns 1..2, <= 2 per side for || and the ordering), code points U+0001..U+D7FF, "
    "upper / lower for printable ASCII only",
    "Time_Period operands are canonical texts (YYYYA, YYYY-Sn, YYYY-Qn, YYYY-Mnn, YYYY-Wnn, YYYY-Dnnn) with years 1000..9999 and "
    "period numbers in range - the loader's normalisation is C19's / C21's contract; Duration operands are one of A S Q M W D",
    "VALUE semantics NOT covered: ln, exp, sqrt, power, log, round, trunc, match_characters (only NULL propagation and the domain "
    "errors of ln / log / sqrt), mod on Number operands and for negative operands, instr with start > 1 or occurrence > 1, "
    "ordering of Booleans, NULL elements of an in-collection, several TRUE conditions of a case, NULL-valued substr / instr / round "
    "parameters, the empty replace / instr pattern, upper / lower outside ASCII",
    "row tier: SELECT / INNER JOIN / LEFT JOIN / WHERE have their relational meaning in DuckDB and identifiers are a key of every "
    "dataset (C19 / loader contract); what is proved is a statement about every row (pair) of the sources of the emitted SELECT; the "
    "programs are the listed small ones (one operator, one nesting) - other programs stay with the bounded tier",
    "Constant -> SQL literal rendering is covered only for the integer / string / boolean constants used by the row-tier programs",
    "the mapping of a DuckDB error message to a VTL exception (_map_query_error) is checked natively for the two error texts the "
    "templates raise (2-1-15-6, 2-1-19-19), not proved",
]


def error_mapping(chk: Check) -> None:
    """The error texts the templates raise are turned into the catalogued VTL runtime errors by the real mapper."""
    import importlib
    import duckdb
    fn = "src/vtlengine/duckdb_transpiler/io/_execution.py:_map_query_error"
    from vc import sqlconf
    from vc.e2e import err_code
    ex = importlib.import_module("vtlengine.duckdb_transpiler.io._execution")
    for sql, code in (("SELECT vtl_div(1, 0)", "2-1-15-6"),
                      ("SELECT vtl_period_lt(vtl_period_parse('2020-M01'), vtl_period_parse('2020-Q1'))", "2-1-19-19")):
        ob = chk.ob(f"{fn}::maps {code}", fn, f"the DuckDB error raised by the template's macro surfaces as VTL RunTimeError {code}",
                    bounded=True)
        ob.backend = "native-execution"
        try:
            sqlconf.conn().execute(sql).fetchall()
            ob.status, ob.detail = core.REFUTED, f"{sql} raised nothing"
            ob.finding_key, ob.replayed = f"error mapping::{code}", True
            continue
        except duckdb.Error as e:
            mapped = ex._map_query_error(e, sql)      # noqa: SLF001
        got = err_code(mapped)
        if got == code and type(mapped).__name__ == "RunTimeError":
            ob.status, ob.detail = core.BOUNDED_OK, f"{sql} -> {type(mapped).__name__} {got}"
        else:
            ob.status, ob.detail = core.REFUTED, f"{sql} -> {type(mapped).__name__} {got}"
            ob.finding_key, ob.replayed, ob.replay_detail = f"error mapping::{code}", True, ob.detail


def build(chk: Check) -> Dict[str, Any]:
    import _c01_proof as PF
    import _c01_rows as RW
    import _c01_templates as TT
    from vc import sqlconf
    from vc.sqlelem import ElemEngine
    from vc.sqlvc import SqlOutside
    t0 = time.time()
    core.boot(full=True)
    try:
        eng = ElemEngine(smt.Decls(), PF.MACROS)
    except SqlOutside as e:
        ob = chk.ob(f"{PF.SQL_F}::macros", PF.SQL_F, "the macros the templates call are defined by the SQL library")
        ob.status, ob.detail = core.UNDECIDED, str(e)
        return {}
    sqlconf.conn().execute("SET threads TO 1")
    pv = PF.Prover(chk, eng)
    c = TT.Ctx(eng)
    bad = TT.vtlref_crosscheck(pv, c)
    for b in bad:
        chk.fault(f"specification function disagrees with spec/vtlref.py: {b}")
    report = TT.registry_obligations(pv, c)
    TT.visitor_obligations(pv, c)
    rows = RW.row_obligations(pv)
    PF.discharge_all(pv)
    error_mapping(chk)
    # planted must-fail contract (vacuity guard of the whole pipeline): `a + b` against the specification of `a - b`, and the
    # 3VL `or` table against `and`, must be refuted with a model
    for sql, ops, spec in (('("a" + "b")', [c.o(0, "Integer"), c.o(1, "Integer")], lambda s: PF.sp_arith("-", s[0], s[1])),
                           ('("a" OR "b")', [c.o(0, "Boolean"), c.o(1, "Boolean")], lambda s: PF.sp_bool("and", s[0], s[1]))):
        case = PF.Case("planted", sql, ops, spec)
        pv.prepare(case)
        goals = [q for q in case.queries if q[0] == "goal"]
        r = core.run_smt(smt.query(eng.decls, goals[0][1], get=case.vars()), timeout=20, tag="c01planted") if goals else None
        ok = False
        if r is not None and r.status == "sat":
            rp = pv.replay(case, r.model)
            ok = rp[0] is True
        if not ok:
            chk.fault(f"planted must-fail contract for {sql} was not refuted and replayed ({r.status if r else case.fault or 'no query'})")
    chk.extra.setdefault("proof_tier", {})["planted_must_fail_contracts_refuted"] = 2
    for f in (PF.OPS_F + ":registry (every in-scope entry, typed overrides)", PF.TR_F + ":SQLTranspiler._between_expr",
              PF.TR_F + ":_bool_to_str", PF.TR_F + ":SQLTranspiler._scalar_if_sql", PF.TR_F + ":SQLTranspiler._build_case_when_sql",
              PF.TR_F + ":SQLTranspiler.visit_BinOp/_make_binary_expr (scalar path)", PF.TR_F + ":SQLTranspiler.visit_UnaryOp (scalar path)",
              PF.TR_F + ":SQLTranspiler.visit_ParamOp (scalar path)", PF.TR_F + ":SQLTranspiler.visit_MulOp_between",
              PF.SQL_F + ":vtl_div, vtl_instr, vtl_period_parse, vtl_period_lt/le/gt/ge, vtl_period_check_indicator",
              "src/vtlengine/duckdb_transpiler/sql/time_operators.sql:vtl_duration_to_int"):
        chk.under_contract(f, "contract")
    for f in ("SQLTranspiler._apply_measures", "SQLTranspiler._build_ds_scalar_binary", "SQLTranspiler._build_ds_ds_binary",
              "SQLTranspiler._build_dataset_if"):
        chk.under_contract(f"{PF.TR_F}:{f}", "contract (row level, listed programs) + bounded")
    for a in ASSUMPTIONS:
        chk.assume(a)
    chk.trust("sqlglot parses the emitted SQL text as DuckDB does (unary plus is dropped by the parser: `+x` is compared with x on the grid)")
    chk.trust("vc/sqlelem.py, vc/sqlvc_ext.py, vc/sqlvc.py (SQL semantics model), vc/smt.py, z3 5.1 / cvc5 1.0.3")
    chk.trust("spec functions of checks/_c01_proof.py (compared with spec/vtlref.py and Python's str methods on a grid on every run)")
    chk.extra.setdefault("proof_tier", {}).update({"registry": report, "row_programs": rows, "tier_wall_s": round(time.time() - t0, 1),
                                                   "tier_cpu_s": round(time.process_time(), 1)})
    return report


def main() -> None:
    out = None
    if "--out" in sys.argv:
        out = sys.argv[sys.argv.index("--out") + 1]
    chk = Check("C01", "proof", TECHNIQUE, min_obligations=1)
    try:
        build(chk)
        crashed = ""
    except BaseException as e:  # noqa: BLE001
        import traceback
        crashed = f"{type(e).__name__}: {e}\n{traceback.format_exc()[-1500:]}"
    payload = {"obligations": [o.to_json() for o in chk.obs], "assumptions": chk.assumptions, "trusted": chk.trusted,
               "functions": chk.functions, "faults": chk.faults + ([f"proof tier crashed: {crashed}"] if crashed else []),
               "extra": chk.extra, "notes": chk.notes}
    if out:
        Path(out).write_text(json.dumps(payload, default=str))
    else:
        from collections import Counter
        print(Counter(o.status for o in chk.obs), "faults", chk.faults[:3], crashed)
        for o in chk.obs:
            if o.status not in (core.DISCHARGED, core.BOUNDED_OK):
                print(o.status, o.oid, "|", o.detail[:300], "|", o.replayed, o.replay_detail[:400])
        print(json.dumps(chk.extra.get("proof_tier"), default=str)[:1500])


if __name__ == "__main__":
    main()
