"""C01 proof tier, dataset layer (row level).

For small programs (one operator applied to datasets / a dataset and a constant; one nesting) the SELECT statement is
obtained from the REAL pipeline (DAGAnalyzer -> InterpreterAnalyzer -> SQLTranspiler.transpile, `transpile_ast`).  The
statement is parsed (sqlglot) and
  * its SHAPE is checked statically: one SELECT without WHERE / GROUP BY / HAVING / QUALIFY / DISTINCT / LIMIT / ORDER BY
    (dataset if-then-else: exactly the LEFT JOINs and the WHERE analysed below), sources are the operand datasets in
    operand order, INNER JOIN for two dataset operands;
  * every output column is evaluated by `vc.sqlelem` over ONE symbolic row per source (identifiers not NULL, measures
    nullable) and proved equal to: the identifier of the source row (pass-through) / the VTL operator applied to the
    measures of that row (specification functions of checks/_c01_proof.py);
  * the ON condition is proved TRUE exactly when all common identifiers are equal;
  * dataset if-then-else: per datapoint r of the condition dataset and its (at most one, identifiers are a key) partner in
    the then / else dataset: the row is kept iff the selected operand (then when the condition is TRUE, else when FALSE or
    NULL) has a partner, and every measure is the selected operand's measure.
Row-level statements + the relational reading of SELECT / INNER JOIN / LEFT JOIN / WHERE (assumed of DuckDB) + uniqueness of
identifiers give the dataset-level postcondition "result = { k -> op(l(k), r(k)) | k in keys(l) join keys(r) }".
A counter-model is replayed by executing the WHOLE emitted statement in the real DuckDB on one-row tables.
"""
from __future__ import annotations

import sys
from dataclasses import dataclass, field
from pathlib import Path
from typing import Any, Callable, Dict, List, Optional, Sequence, Tuple

import sqlglot
from sqlglot import exp

sys.path.insert(0, str(Path(__file__).resolve().parent.parent))
sys.path.insert(0, str(Path(__file__).resolve().parent))
import _c01_proof as PF  # noqa: E402
from _c01_proof import (TR_F, Case, Prover, Spec, nany, nl, sp_arith, sp_between, sp_bool, sp_case_map, sp_cmp,  # noqa: E402
                        sp_concat, sp_div, sp_if, sp_in, sp_isnull, sp_length, sp_mod_value, sp_not, sp_nvl, sp_trim,
                        sp_unary_num, val)
from vc import core, smt  # noqa: E402
from vc import pipeline as P  # noqa: E402
from vc.smt import And, Eq, Iff, Implies, Not, Or, is_sym  # noqa: E402
from vc.sqlelem import ElemEngine, Operand  # noqa: E402
from vc.sqlvc import NULL, SV, CStr, SqlOutside  # noqa: E402

D = lambda n: ("ds", n)  # noqa: E731
C = lambda v: ("const", v)  # noqa: E731


@dataclass
class Struct:
    ids: List[Tuple[str, str]]
    meas: List[Tuple[str, str]]

    def json(self, name: str) -> Dict[str, Any]:
        comps = [{"name": n, "type": t, "role": "Identifier", "nullable": False} for n, t in self.ids]
        comps += [{"name": n, "type": t, "role": "Measure", "nullable": True} for n, t in self.meas]
        return {"name": name, "DataStructure": comps}


IDS2 = [("Id_1", "Integer"), ("Id_2", "String")]
IDS1 = [("Id_1", "Integer")]
NUM2 = [("Me_1", "Number"), ("Me_2", "Number")]
TABLES: Dict[str, Struct] = {
    "DS_1": Struct(IDS2, NUM2), "DS_2": Struct(IDS2, NUM2), "DS_3": Struct(IDS1, NUM2),
    "DS_c": Struct(IDS2, NUM2), "DS_t": Struct(IDS2, NUM2), "DS_e": Struct(IDS2, NUM2),
    "DM_1": Struct(IDS1, [("Me_1", "Number")]), "DM_2": Struct(IDS1, [("Me_1", "Number")]),
    "DI_1": Struct(IDS1, [("Me_1", "Integer")]), "DI_2": Struct(IDS1, [("Me_1", "Integer")]),
    "DB_1": Struct(IDS1, [("Me_1", "Boolean")]), "DB_2": Struct(IDS1, [("Me_1", "Boolean")]),
    "DS_s": Struct(IDS1, [("Me_1", "String")]), "DS_u": Struct(IDS1, [("Me_1", "String")]),
}
CHAR_OPS = {"length", "upper", "lower", "trim", "||"}


def programs() -> List[Tuple[str, Any]]:
    out: List[Tuple[str, Any]] = []
    for op in "+-*/":
        out.append((f"ds {op} ds (same identifiers)", ("bin", op, D("DS_1"), D("DS_2"))))
        out.append((f"ds {op} ds (identifiers of the right operand are a subset)", ("bin", op, D("DS_1"), D("DS_3"))))
        out.append((f"ds {op} ds (identifiers of the left operand are a subset)", ("bin", op, D("DS_3"), D("DS_1"))))
        out.append((f"ds {op} constant", ("bin", op, D("DS_1"), C(2))))
        out.append((f"constant {op} ds", ("bin", op, C(2), D("DS_1"))))
    out.append(("ds mod constant", ("bin", "mod", D("DI_1"), C(3))))
    out.append(("ds mod ds", ("bin", "mod", D("DI_1"), D("DI_2"))))
    out.append(("nested: (ds * ds) + ds", ("bin", "+", ("bin", "*", D("DS_1"), D("DS_2")), D("DS_3"))))
    out.append(("nested: (ds + ds) * constant", ("bin", "*", ("bin", "+", D("DS_1"), D("DS_2")), C(3))))
    out.append(("nested: abs(ds - ds)", ("un", "abs", ("bin", "-", D("DS_1"), D("DS_2")))))
    for op in ("-", "abs"):
        out.append((f"{op}(ds)", ("un", op, D("DS_1"))))
    for op in ("=", "<>", "<", "<=", ">", ">="):
        out.append((f"ds {op} ds", ("bin", op, D("DM_1"), D("DM_2"))))
        out.append((f"ds {op} constant", ("bin", op, D("DM_1"), C(0))))
        out.append((f"constant {op} ds", ("bin", op, C(1), D("DM_2"))))
    for op in ("and", "or", "xor"):
        out.append((f"ds {op} ds", ("bin", op, D("DB_1"), D("DB_2"))))
        out.append((f"ds {op} constant", ("bin", op, D("DB_1"), C(True))))
    out.append(("not(ds)", ("un", "not", D("DB_1"))))
    for op in ("length", "upper", "lower", "trim"):
        out.append((f"{op}(ds)", ("un", op, D("DS_s"))))
    out.append(("ds || constant", ("bin", "||", D("DS_s"), C("!"))))
    out.append(("ds || ds", ("bin", "||", D("DS_s"), D("DS_u"))))
    for neg in (False, True):
        out.append((f"ds {'not_in' if neg else 'in'} {{numbers}}", ("in", D("DI_1"), [1, 0], neg)))
        out.append((f"ds {'not_in' if neg else 'in'} {{strings}}", ("in", D("DS_s"), ["x", "y"], neg)))
    out.append(("between(ds, constants)", ("between", D("DI_1"), C(0), C(1))))
    out.append(("isnull(ds)", ("un", "isnull", D("DM_1"))))
    out.append(("nvl(ds, constant)", ("bin", "nvl", D("DI_1"), C(0))))
    out.append(("nvl(ds, ds)", ("bin", "nvl", D("DI_1"), D("DI_2"))))
    cond = ("bin", ">", ("memb", D("DS_c"), "Me_1"), C(0))
    out.append(("if ds#m > 0 then ds else ds", ("if", cond, D("DS_t"), D("DS_e"))))
    out.append(("if ds#m > 0 then ds else constant", ("if", cond, D("DS_t"), C(0))))
    out.append(("if ds#m > 0 then constant else ds", ("if", cond, C(-1), D("DS_e"))))
    return out


# ----------------------------------------------------------------------------------------------------------------------
def const_sv(eng: ElemEngine, v: Any, chars: bool) -> SV:
    if v is None:
        return NULL
    if isinstance(v, bool):
        return SV("bool", v, False)
    if isinstance(v, int):
        return SV("int", v, False)
    if isinstance(v, float):
        from fractions import Fraction
        return SV("num", Fraction(str(v)), False)
    return SV("str", CStr.lit(v), False) if chars else SV("atom", eng.code(v), False)


def op_spec(eng: ElemEngine, op: str, args: List[SV]) -> Spec:
    if op in ("+", "-", "*") and len(args) == 2:
        return sp_arith(op, *args)
    if op == "/":
        return sp_div(*args)
    if op == "mod":
        return sp_mod_value(*args)
    if op in ("=", "<>", "<", "<=", ">", ">="):
        return sp_cmp(op, *args)
    if op in ("and", "or", "xor"):
        return sp_bool(op, *args)
    if op == "nvl":
        return sp_nvl(*args)
    if op == "||":
        return sp_concat(*args)
    if op == "not":
        return sp_not(args[0])
    if op in ("-", "abs"):
        return sp_unary_num(op, args[0])
    if op == "isnull":
        return sp_isnull(args[0])
    if op == "length":
        return sp_length(args[0])
    if op in ("upper", "lower"):
        return sp_case_map(args[0], op == "upper")
    if op == "trim":
        return sp_trim(args[0], True, True)
    raise SqlOutside(f"no row-level specification for {op}")


@dataclass
class Source:
    alias: str                    # '' for an unaliased single source
    table: str                    # name of the relation the native replay fills (base table or __src_<alias>)
    struct: Struct
    ops: Dict[str, Operand]       # column -> operand


class RowTier:
    def __init__(self, pv: Prover) -> None:
        self.pv, self.eng = pv, pv.eng
        core.boot(full=True)
        from _valprograms import transpile_ast
        self.transpile = transpile_ast
        self.n_sql = 0
        self.cur = None

    # -- sources ----------------------------------------------------------------------------------------------------
    def operand(self, alias: str, col: str, kind: str, ident: bool, chars: bool, may_be_unmatched: bool = False) -> Operand:
        nm = f"{alias or 'r'}_{col}"
        null = None if (not ident or may_be_unmatched) else False
        if kind == "String":
            if chars and not ident:
                return Operand(nm, "String", self.eng, reading="cstr", length=2, null=null, ascii_only=True)
            return Operand(nm, "String", self.eng, reading="atom", null=null)
        return Operand(nm, kind, self.eng, null=null)

    def source(self, alias: str, table: str, st: Struct, chars: bool, unmatched: bool = False) -> Source:
        ops = {n: self.operand(alias, n, k, True, chars, unmatched) for n, k in st.ids}
        ops.update({n: self.operand(alias, n, k, False, chars) for n, k in st.meas})
        return Source(alias, table, st, ops)

    # -- native execution of a whole statement on one-row tables -----------------------------------------------------------
    def native_rows(self, sql: str, sources: Sequence[Source], values: Dict[str, Any], absent: Sequence[str] = ()) -> Tuple[str, Any]:
        from vc import sqlconf
        con = sqlconf.conn()
        try:
            for s in sources:
                cols = ", ".join(f'{o.sql_literal(values[o.name])} AS "{c}"' for c, o in s.ops.items())
                where = " WHERE FALSE" if s.alias in absent else ""
                con.execute(f'CREATE OR REPLACE TEMP TABLE "{s.table}" AS SELECT {cols}{where}')
            cur = con.execute(sql)
            names = [d[0] for d in cur.description]
            rows = cur.fetchall()
            self.n_sql += 1
        except Exception as e:  # noqa: BLE001
            return ("error", str(e).split("\n")[0])
        finally:
            for s in sources:
                try:
                    con.execute(f'DROP TABLE IF EXISTS "{s.table}"')
                except Exception:  # noqa: BLE001
                    pass
        return ("rows", [dict(zip(names, r)) for r in rows])


def from_items(sel: exp.Select) -> Tuple[Any, List[Any]]:
    frm = sel.args.get("from") or sel.args.get("from_")
    return (frm.this if frm is not None else None), list(sel.args.get("joins") or [])


def shape_problems(sel: exp.Select, allow_where: bool = False) -> List[str]:
    bad = []
    for k in ("group", "having", "qualify", "distinct", "limit", "order", "windows", "with", "with_", "offset", "sample"):
        if sel.args.get(k):
            bad.append(f"unexpected {k.upper()} clause")
    if sel.args.get("where") and not allow_where:
        bad.append("unexpected WHERE clause (datapoints would be filtered)")
    return bad


class Program:
    """Verification of one emitted statement against its IR term (recursively for FROM-subqueries)."""

    def __init__(self, rt: RowTier, label: str, term: Any, sql: str) -> None:
        self.rt, self.eng, self.label, self.term, self.sql = rt, rt.eng, label, term, sql
        self.cases: List[Case] = []
        self.static: List[str] = []
        self.level = 0

    # ---------------------------------------------------------------------------------------------------------------
    def struct_of_source(self, term: Any, item: Any, alias_expected: Optional[str], chars: bool) -> Tuple[Optional[Source], Optional[str]]:
        """The FROM / JOIN item must be the table of a dataset operand or the subquery of a nested dataset expression."""
        if term[0] == "ds":
            if not isinstance(item, exp.Table) or item.name != term[1]:
                return None, f"source of operand {term[1]} is {item.sql(dialect='duckdb')[:60]}"
            alias = item.alias or ""
            if alias_expected is not None and alias != alias_expected:
                return None, f"operand {term[1]} has alias {alias!r}, expected {alias_expected!r}"
            return self.rt.source(alias, term[1], TABLES[term[1]], chars), None
        if not isinstance(item, exp.Subquery) or not isinstance(item.this, exp.Select):
            return None, f"source of a nested operand is {item.sql(dialect='duckdb')[:60]}"
        alias = item.alias or ""
        if alias_expected is not None and alias != alias_expected:
            return None, f"nested operand has alias {alias!r}, expected {alias_expected!r}"
        self.level += 1
        st = self.verify(term, item.this, f"{self.label} / nested operand")
        if st is None:
            return None, "nested operand could not be verified"
        return self.rt.source(alias, f"__src_{alias or 'r'}", st, chars), None

    @staticmethod
    def is_ds(t: Any) -> bool:
        if t[0] == "ds":
            return True
        if t[0] in ("const", "sc"):
            return False
        return any(isinstance(x, tuple) and Program.is_ds(x) for x in t[1:])

    def statement_for(self, sel: exp.Select, sources: Sequence[Source]) -> str:
        """Text executed by the native replay: the emitted statement itself; for a level whose sources are subqueries the
        sub-select re-rendered with the subqueries replaced by tables holding their (one-row) results."""
        if sel is self.top and all(not s.table.startswith("__src_") for s in sources):
            return self.sql
        t = sel.copy()
        for sub in list(t.find_all(exp.Subquery)):
            if sub.parent is not None and isinstance(sub.parent, (exp.From, exp.Join)):
                al = sub.alias or ""
                tab = exp.Table(this=exp.to_identifier(f"__src_{al or 'r'}", quoted=True))
                sub.replace(exp.alias_(tab, al, table=True) if al else tab)
        return t.sql(dialect="duckdb")

    # ---------------------------------------------------------------------------------------------------------------
    def verify(self, term: Any, sel: exp.Select, where: str) -> Optional[Struct]:  # noqa: C901
        k = term[0]
        if k == "if":
            return self.verify_if(term, sel, where)
        probs = shape_problems(sel)
        if probs:
            self.static += [f"{where}: {p}" for p in probs]
            return None
        frm, joins = from_items(sel)
        chars = (term[1] in CHAR_OPS) if k in ("bin", "un") else False
        operands: List[Any]
        if k == "bin":
            op, operands = term[1], [term[2], term[3]]
        elif k == "un":
            op, operands = term[1], [term[2]]
        elif k == "in":
            op, operands = "not_in" if term[3] else "in", [term[1]]
        elif k == "between":
            op, operands = "between", [term[1], term[2], term[3]]
        else:
            self.static.append(f"{where}: no row-level contract for IR node {k}")
            return None
        ds_pos = [i for i, t in enumerate(operands) if self.is_ds(t)]
        if len(ds_pos) == 2:
            return self.verify_join(op, operands, sel, frm, joins, where, chars)
        if len(ds_pos) != 1 or joins:
            self.static.append(f"{where}: {len(ds_pos)} dataset operands with {len(joins)} joins")
            return None
        src, prob = self.struct_of_source(operands[ds_pos[0]], frm, None, chars)
        if src is None:
            self.static.append(f"{where}: {prob}")
            return None
        st = src.struct
        projs = list(sel.expressions)
        if len(projs) != len(st.ids) + len(st.meas):
            self.static.append(f"{where}: {len(projs)} output columns for {len(st.ids)} identifiers + {len(st.meas)} measures")
            return None
        stmt = self.statement_for(sel, [src])
        out_meas: List[Tuple[str, str]] = []
        for (name, kind), p in zip(st.ids, projs[:len(st.ids)]):
            if not (isinstance(p, exp.Column) and p.name == name and not isinstance(p.this, exp.Star)):
                self.static.append(f"{where}: identifier {name} is not passed through ({p.sql(dialect='duckdb')[:50]})")
                return None
        for (name, kind), p in zip(st.meas, projs[len(st.ids):]):
            if not isinstance(p, exp.Alias):
                self.static.append(f"{where}: measure column without alias: {p.sql(dialect='duckdb')[:50]}")
                return None
            o = src.ops[name]

            def spec_fn(svs: List[SV], op: str = op, operands: List[Any] = operands, pos: int = ds_pos[0], term: Any = term) -> Spec:
                args = [svs[0] if i == pos else const_sv(self.eng, t[1], chars) for i, t in enumerate(operands)]
                if op in ("in", "not_in"):
                    return sp_in(svs[0], [const_sv(self.eng, v, chars) for v in term[2]], op == "not_in")
                if op == "between":
                    return sp_between(*args)
                return op_spec(self.eng, op, args)
            self.add_case(f"{where}: column {p.alias} = {op} applied to {name}", p.this, [o], [self.key(src, name)], spec_fn,
                          stmt, [src], p.alias, chars)
            out_meas.append((p.alias, self.result_kind(op, kind)))
        if len({n for n, _ in out_meas}) != len(out_meas):
            self.static.append(f"{where}: duplicate output measure names {out_meas}")
        return Struct(list(st.ids), out_meas)

    @staticmethod
    def result_kind(op: str, kind: str) -> str:
        if op in ("=", "<>", "<", "<=", ">", ">=", "and", "or", "xor", "not", "isnull", "in", "not_in", "between"):
            return "Boolean"
        if op == "/":
            return "Number"
        if op == "length":
            return "Integer"
        return kind

    @staticmethod
    def key(src: Source, col: str) -> str:
        return f"{src.alias}.{col}" if src.alias else col

    def add_case(self, label: str, tree: Any, ops: List[Operand], keys: List[str], spec_fn: Callable[[List[SV]], Spec], stmt: str,
                 sources: Sequence[Source], out_col: Optional[str], chars: bool, pre: Sequence[Any] = (),
                 all_ops: Optional[List[Operand]] = None, as_condition: bool = False,
                 absent_fn: Optional[Callable[[Dict[str, Any]], List[str]]] = None,
                 fix: Optional[Callable[[Dict[str, Any]], None]] = None) -> None:
        """One output column (or condition) of one SELECT level.  The case quantifies over ALL columns of its sources (so
        that the native replay can fill whole rows); `ops` / `keys` are the columns the expression may read."""
        every = all_ops if all_ops is not None else [o for s in sources for o in s.ops.values()]
        keys_all = [self.key(s, c) for s in sources for c in s.ops]
        rt = self.rt
        grid = self.make_grid(every, sources, fix)
        # measures this expression does not read get harmless values in the native run, so that an error raised by ANOTHER
        # output column of the same statement (e.g. a zero divisor there) is not attributed to this one
        reads = {self.eng.col_key(c) for c in tree.find_all(exp.Column)}
        id_ops = {o.name for s in sources for c, o in s.ops.items() if c in dict(s.struct.ids)}
        dflt = {"Integer": 1, "Number": 1, "Boolean": True, "Date": 0}
        benign = {o.name: (dflt.get(o.kind, "x" * max(1, o.length)))
                  for o, k in zip(every, keys_all) if k.lower() not in reads and o.name not in id_ops}

        def native_fn(values: Sequence[Any]) -> Tuple[str, Any]:
            vals = {o.name: v for o, v in zip(every, values)}
            vals.update(benign)
            absent = absent_fn(vals) if absent_fn else []
            r = rt.native_rows(stmt, sources, vals, absent)
            if r[0] == "error":
                return r
            rows = r[1]
            if as_condition:
                return ("value", len(rows) == 1) if len(rows) <= 1 else ("error", f"{len(rows)} rows for one input row")
            if len(rows) != 1:
                return ("norow", None)
            return ("value", rows[0].get(out_col))
        self.cases.append(Case(label, " ".join(stmt.split()), every, spec_fn_wrap(spec_fn, every, ops), list(pre),
                               "cstr" if chars else "atom", grid=grid, tree=tree, env_keys=keys_all, native_fn=native_fn,
                               as_condition=as_condition))

    def make_grid(self, every: List[Operand], sources: Sequence[Source], fix: Optional[Callable[[Dict[str, Any]], None]]
                  ) -> List[Tuple[Any, ...]]:
        """Concrete rows for the model-vs-DuckDB comparison of this case: random picks from the pools, then `fix` makes them
        satisfy the case's precondition (equal identifiers of matched rows, absent branch rows all NULL)."""
        rng = self.rt.pv.rng
        out = []
        for _ in range(ROW_GRID):
            vals = {o.name: rng.choice(PF.pool_for(o)) for o in every}
            if fix is not None:
                fix(vals)
            out.append(tuple(vals[o.name] for o in every))
        return out

    # ---------------------------------------------------------------------------------------------------------------
    def verify_join(self, op: str, operands: List[Any], sel: exp.Select, frm: Any, joins: List[Any], where: str, chars: bool
                    ) -> Optional[Struct]:
        if len(joins) != 1:
            self.static.append(f"{where}: {len(joins)} joins for two dataset operands")
            return None
        j = joins[0]
        la, prob = self.struct_of_source(operands[0], frm, "a", chars)
        if la is None:
            self.static.append(f"{where}: {prob}")
            return None
        rb, prob = self.struct_of_source(operands[1], j.this, "b", chars)
        if rb is None:
            self.static.append(f"{where}: {prob}")
            return None
        common = [n for n, _ in la.struct.ids if n in dict(rb.struct.ids)]
        kind = ((j.side or "") + " " + (j.kind or "")).strip().upper()
        if kind not in ("INNER", "") or (j.args.get("on") is None):
            self.static.append(f"{where}: join kind {kind or 'plain'} / ON missing - two dataset operands are matched by INNER JOIN")
            return None
        stmt = self.statement_for(sel, [la, rb])
        srcs = [la, rb]
        every = [o for s in srcs for o in s.ops.values()]
        ix = {o.name: i for i, o in enumerate(every)}

        def on_spec(svs: List[SV]) -> Spec:
            return Spec.value(SV("bool", And(*[Eq(val(svs[ix[la.ops[n].name]]), val(svs[ix[rb.ops[n].name]])) for n in common]), False))

        def sometimes_equal(vals: Dict[str, Any]) -> None:
            if self.rt.pv.rng.random() < 0.6:
                for n in common:
                    vals[rb.ops[n].name] = vals[la.ops[n].name]

        def equal_ids(vals: Dict[str, Any]) -> None:
            for n in common:
                vals[rb.ops[n].name] = vals[la.ops[n].name]
        self.add_case(f"{where}: datapoints are matched exactly on the common identifiers {common}", j.args["on"],
                      every, [], on_spec, stmt, srcs, None, chars, as_condition=True, all_ops=every, fix=sometimes_equal)
        # output columns
        all_ids = sorted({n for n, _ in la.struct.ids} | {n for n, _ in rb.struct.ids})
        lm, rm = [n for n, _ in la.struct.meas], [n for n, _ in rb.struct.meas]
        paired = [m for m in lm if m in rm]
        if not paired and len(lm) == 1 and len(rm) == 1:
            paired = [lm[0]]
        projs = list(sel.expressions)
        if len(projs) != len(all_ids) + len(paired):
            self.static.append(f"{where}: {len(projs)} output columns for identifiers {all_ids} + measures {paired}")
            return None
        pre_eq = [Eq(la.ops[n].sv.v, rb.ops[n].sv.v) for n in common]
        out_ids: List[Tuple[str, str]] = []
        seen_ids = []
        for p in projs[:len(all_ids)]:
            if not isinstance(p, exp.Column) or p.table not in ("a", "b"):
                self.static.append(f"{where}: identifier column {p.sql(dialect='duckdb')[:40]} is not a pass-through")
                return None
            s = la if p.table == "a" else rb
            if p.name not in s.ops or p.name not in dict(s.struct.ids):
                self.static.append(f"{where}: {p.sql(dialect='duckdb')} is not an identifier of its source")
                return None
            seen_ids.append(p.name)
            out_ids.append((p.name, dict(s.struct.ids)[p.name]))
        if sorted(seen_ids) != all_ids:
            self.static.append(f"{where}: output identifiers {seen_ids}, expected the union {all_ids}")
            return None
        out_meas: List[Tuple[str, str]] = []
        lk, rk = dict(la.struct.meas), dict(rb.struct.meas)
        for m, p in zip(paired, projs[len(all_ids):]):
            if not isinstance(p, exp.Alias):
                self.static.append(f"{where}: measure column without alias")
                return None
            rmn = m if m in rk else rm[0]
            oa, ob = la.ops[m], rb.ops[rmn]

            def spec_fn(svs: List[SV], op: str = op) -> Spec:
                return op_spec(self.eng, op, [svs[0], svs[1]])
            self.add_case(f"{where}: column {p.alias} = a.{m} {op} b.{rmn} on matched datapoints", p.this, [oa, ob], [], spec_fn, stmt,
                          srcs, p.alias, chars, pre=pre_eq, fix=equal_ids)
            out_meas.append((p.alias, self.result_kind(op, lk[m])))
        return Struct(out_ids, out_meas)

    # ---------------------------------------------------------------------------------------------------------------
    def verify_if(self, term: Any, sel: exp.Select, where: str) -> Optional[Struct]:  # noqa: C901
        _k, cond, th, el = term
        probs = shape_problems(sel, allow_where=True)
        if probs:
            self.static += [f"{where}: {p}" for p in probs]
            return None
        if not (cond[0] == "bin" and cond[2][0] == "memb" and cond[2][1][0] == "ds" and cond[3][0] == "const"):
            self.static.append(f"{where}: condition form not handled by the row-level analysis")
            return None
        cop, cds, cme, ck = cond[1], cond[2][1][1], cond[2][2], cond[3][1]
        frm, joins = from_items(sel)
        csrc, prob = self.struct_of_source(D(cds), frm, "cond", False)
        if csrc is None:
            self.static.append(f"{where}: {prob}")
            return None
        branches = [(t, al) for t, al in ((th, "t"), (el, "e")) if t[0] == "ds"]
        if len(joins) != len(branches):
            self.static.append(f"{where}: {len(joins)} joins for {len(branches)} dataset branches")
            return None
        srcs: List[Source] = [csrc]
        bsrc: Dict[str, Source] = {}
        idn = [n for n, _ in csrc.struct.ids]
        for (t, al), j in zip(branches, joins):
            kind = ((j.side or "") + " " + (j.kind or "")).strip().upper()
            if kind != "LEFT" or j.args.get("on") is None or not isinstance(j.this, exp.Table) or j.this.name != t[1] \
                    or (j.this.alias or "") != al:
                self.static.append(f"{where}: branch {al} is joined as {j.sql(dialect='duckdb')[:80]}")
                return None
            s = self.rt.source(al, t[1], TABLES[t[1]], False, unmatched=True)
            if [n for n, _ in s.struct.ids] != idn:
                self.static.append(f"{where}: branch {al} has other identifiers than the condition")
                return None
            bsrc[al] = s
            srcs.append(s)
        stmt = self.sql
        every = [o for s in srcs for o in s.ops.values()]
        ix = {o.name: i for i, o in enumerate(every)}

        def matched(svs: List[SV], al: str) -> Any:
            return Not(nl(svs[ix[bsrc[al].ops[idn[0]].name]]))
        # a branch row is either the partner (identifiers equal, not NULL) or absent (LEFT JOIN: every column NULL)
        pre: List[Any] = []
        for al, s in bsrc.items():
            m = Not(s.ops[idn[0]].sv.null)
            for n in idn:
                pre.append(Iff(Not(s.ops[n].sv.null), m))
                pre.append(Implies(m, Eq(s.ops[n].sv.v, csrc.ops[n].sv.v)))
            for n, _kd in s.struct.meas:
                pre.append(Implies(Not(m), s.ops[n].sv.null))

        def absent_fn(vals: Dict[str, Any]) -> List[str]:
            return [al for al, s in bsrc.items() if vals[s.ops[idn[0]].name] is None]
        # ON conditions: a present branch row is matched exactly on all identifiers
        for (t, al), j in zip(branches, joins):
            s2 = self.rt.source(al, t[1], TABLES[t[1]], False)          # a real (non-NULL identifiers) row of the branch table
            pair = [csrc, s2]
            ev2 = [o for s in pair for o in s.ops.values()]

            ix2 = {o.name: i for i, o in enumerate(ev2)}

            def on_spec(svs: List[SV], s2: Source = s2, ix2: Dict[str, int] = ix2) -> Spec:
                return Spec.value(SV("bool", And(*[Eq(val(svs[ix2[csrc.ops[n].name]]), val(svs[ix2[s2.ops[n].name]])) for n in idn]),
                                     False))

            def sometimes_equal(vals: Dict[str, Any], s2: Source = s2) -> None:
                if self.rt.pv.rng.random() < 0.6:
                    for n in idn:
                        vals[s2.ops[n].name] = vals[csrc.ops[n].name]
            # native: only this branch present, the other absent; a row always exists (LEFT JOIN), so ON is observed through
            # the branch's identifier column being non-NULL in the result - replaced by a direct INNER JOIN statement
            on_sql = f'SELECT 1 AS ok FROM "{cds}" AS cond INNER JOIN "{t[1]}" AS {al} ON {j.args["on"].sql(dialect="duckdb")}'
            self.add_case(f"{where}: branch {al} is matched exactly on the identifiers {idn}", j.args["on"], ev2, [], on_spec, on_sql,
                          pair, None, False, as_condition=True, all_ops=ev2, fix=sometimes_equal)

        def fix_if(vals: Dict[str, Any]) -> None:
            for _al, s in bsrc.items():
                if self.rt.pv.rng.random() < 0.35:
                    for o in s.ops.values():
                        vals[o.name] = None
                else:
                    for n in idn:
                        vals[s.ops[n].name] = vals[csrc.ops[n].name]

        def cval(svs: List[SV]) -> Any:
            c = sp_cmp(cop, svs[ix[csrc.ops[cme].name]], const_sv(self.eng, ck, False)).alts[0][1]
            return And(Not(nl(c)), val(c))          # condition is TRUE

        def chosen(svs: List[SV]) -> Any:
            """The selected operand has a partner (a constant branch always has)."""
            t_ok = matched(svs, "t") if "t" in bsrc else True
            e_ok = matched(svs, "e") if "e" in bsrc else True
            c = cval(svs)
            return Or(And(c, t_ok), And(Not(c), e_ok))
        wh = sel.args.get("where")
        if wh is None:
            self.static.append(f"{where}: no WHERE clause: datapoints without a partner in the selected operand would be kept")
            return None
        self.add_case(f"{where}: a datapoint is kept iff the selected operand (then: condition TRUE; else: FALSE or NULL) has a partner",
                      wh.this, every, [], lambda svs: Spec.value(SV("bool", chosen(svs), False)), stmt, srcs, None, False, pre=pre,
                      all_ops=every, as_condition=True, absent_fn=absent_fn, fix=fix_if)
        projs = list(sel.expressions)
        ref = bsrc.get("t") or bsrc.get("e")
        meas = [n for n, _ in ref.struct.meas]
        if len(projs) != len(idn) + len(meas):
            self.static.append(f"{where}: {len(projs)} output columns")
            return None
        for n, p in zip(idn, projs):
            if not (isinstance(p, exp.Column) and p.table == "cond" and p.name == n):
                self.static.append(f"{where}: identifier {n} is not taken from the condition dataset")
                return None
        for m, p in zip(meas, projs[len(idn):]):
            if not isinstance(p, exp.Alias):
                self.static.append(f"{where}: measure column without alias")
                return None

            def spec_fn(svs: List[SV], m: str = m) -> Spec:
                tv = svs[ix[bsrc["t"].ops[m].name]] if "t" in bsrc else const_sv(self.eng, th[1], False)
                ev = svs[ix[bsrc["e"].ops[m].name]] if "e" in bsrc else const_sv(self.eng, el[1], False)
                c = cval(svs)
                sp = Spec([(c, tv), (Not(c), ev)])
                sp.unspec = Not(chosen(svs))         # rows that are not kept have no value
                return sp
            self.add_case(f"{where}: column {p.alias} = measure {m} of the selected operand", p.this, every, [], spec_fn, stmt, srcs,
                          p.alias, False, pre=pre, all_ops=every, absent_fn=absent_fn, fix=fix_if)
        return Struct(list(csrc.struct.ids), list(ref.struct.meas))


def spec_fn_wrap(spec_fn: Callable[[List[SV]], Spec], every: List[Operand], ops: List[Operand]) -> Callable[[List[SV]], Spec]:
    """The case quantifies over all columns of its sources; the specification reads `ops` (or everything when ops == every)."""
    if ops is every:
        return spec_fn
    pos = {o.name: i for i, o in enumerate(every)}
    idx = [pos[o.name] for o in ops]
    return lambda svs: spec_fn([svs[i] for i in idx])


ROW_GRID = 10


def row_obligations(pv: Prover) -> Dict[str, Any]:
    from spec import vtlref as R
    rt = RowTier(pv)
    structs = [st.json(n) for n, st in TABLES.items()]
    fn_for = {"if": "SQLTranspiler._build_dataset_if"}
    stats = {"programs": 0, "statements_parsed": 0}
    for label, term in programs():
        k = term[0]
        n_ds = sum(1 for x in term[1:] if isinstance(x, tuple) and Program.is_ds(x)) if k != "if" else 0
        meth = fn_for.get(k) or ("SQLTranspiler._build_ds_ds_binary" if n_ds == 2 else
                                 "SQLTranspiler._build_ds_scalar_binary/_apply_measures" if k == "bin" else "SQLTranspiler._apply_measures")
        fn = f"{TR_F}:{meth}"
        oid = f"{fn}::rows::{label}"
        clause = (f"[{label}] the emitted SELECT has the expected shape, passes identifiers through, computes every measure as the VTL "
                  "operator applied to the matched row(s), and keeps / matches datapoints exactly as VTL defines")
        stats["programs"] += 1
        try:
            out = rt.transpile([P.assign("R", R.to_ast(term), True)], structs)
            sql = out[-1][1]
            sel = sqlglot.parse_one(sql, read="duckdb")
        except Exception as e:  # noqa: BLE001
            ob = pv.chk.ob(oid, fn, clause)
            ob.status, ob.detail = core.UNDECIDED, f"no statement obtained from the real pipeline: {type(e).__name__}: {str(e)[:200]}"
            continue
        stats["statements_parsed"] += 1
        if not isinstance(sel, exp.Select):
            ob = pv.chk.ob(oid, fn, clause)
            ob.status, ob.detail = core.UNDECIDED, f"statement is a {type(sel).__name__}"
            continue
        prog = Program(rt, label, term, sql)
        prog.top = sel
        try:
            prog.verify(term, sel, "result")
        except SqlOutside as e:
            prog.static.append(f"outside the row model: {e}")
        if prog.static:
            ob = pv.chk.ob(oid, fn, clause)
            ob.status = core.REFUTED
            ob.backend = "static-shape"
            ob.detail = "; ".join(prog.static)[:600] + " | " + " ".join(sql.split())[:400]
            ob.witness = {"statement": " ".join(sql.split()), "problems": prog.static}
            ob.finding_key = f"rows::{label}"
            ob.replayed = None
            continue
        pv.add(oid, fn, clause, prog.cases, f"rows::{label}")
    return stats
