"""C11 — semantic type rules follow the documented implicit-cast table.

Functions under contract (real source, symbolic execution by vc.pyvc over the finite sort of the 9 scalar type
classes read from DataTypes.SCALAR_TYPES; type_to_check / return_type range over the 9 classes and None):
  DataTypes/__init__.py: binary_implicit_promotion, check_binary_implicit_promotion,
                         unary_implicit_promotion, check_unary_implicit_promotion,
                         IMPLICIT_TYPE_PROMOTION_MAPPING (module table)
  Operators/__init__.py: the dispatchers Operator.validate_type_compatibility / type_validation,
                         Binary.type_validation / validate_type_compatibility, Unary.*  (call-site obligation:
                         they pass cls.type_to_check, cls.return_type unchanged)
Oracle: the implicit-cast list-table of docs/data_types.rst (+ "Null to any type"), parsed every run.

  imp(a,b)            := doc table says a is implicitly cast to b   (Null -> everything)
  accept2(l,r,ttc)    := ttc given ? imp(l,ttc) /\\ imp(r,ttc) : exists t. imp(l,t) /\\ imp(r,t)
  common(l,r)         := the documented common type: r if only imp(l,r); l if only imp(r,l); l if l = r;
                         the supertype if both directions (Integer/Number -> Number); else the unique t /= Null
                         with imp(l,t) /\\ imp(r,t)
  result2(l,r,ttc,rt) := rt given ? rt : (one side promotes to the other ? common(l,r) : (ttc given ? ttc : common(l,r)))
  docsub(a,b)         := a is b or below b in the "Type Hierarchy" tree of docs/data_types.rst (spec/typetree.py)
Obligations: table = doc; class hierarchy = documented tree; accept <=> accept2; result = result2 for the (ttc, rt)
of every operator class; for every operator class with a type_to_check T and NO declared return type (and an operator
token, i.e. not an abstract base): result = Null \\/ docsub(result, T)  (the operation is defined on T; an operand type
that reaches T only through an implicit cast - Boolean under String - is a value conversion and cannot be the result
type, so such an operator has to declare its return type);
check_* <=> promotion does not raise, for ALL (ttc, rt); commutativity for the commutative operator classes.
"""
from __future__ import annotations

import ast
import sys
from pathlib import Path
from typing import Any, Dict, List, Optional, Sequence, Tuple

sys.path.insert(0, str(Path(__file__).resolve().parent.parent))
from spec.docs import DOC_TYPE_TO_CLASS, implicit_cast_table  # noqa: E402
from spec.typetree import subtype_or_equal, type_tree  # noqa: E402
from vc import core, smt  # noqa: E402
from vc.core import DISCHARGED, REFUTED, UNDECIDED, Check, pmap, run_smt  # noqa: E402
from vc.pysrc import module_ast  # noqa: E402
from vc.pyvc import ClassV, Engine, ObjV, PathResult, SymEnum  # noqa: E402
from vc.smt import And, Eq, Iff, Implies, Ite, Not, Or  # noqa: E402

REL = "DataTypes/__init__.py"
COMMUTATIVE_TOKENS = {"PLUS", "MULT", "AND", "OR", "XOR", "EQ", "NEQ", "'+'", "'='"}


class Ctx:
    def __init__(self, chk: Check) -> None:
        self.chk = chk
        self.eng = Engine()
        st = self.eng.lookup_global(REL, "SCALAR_TYPES")
        self.members: List[ClassV] = list(st.values())
        self.names = [m.name for m in self.members]
        self.sort = self.eng.enum_sort("ScalarType", self.members)
        self.l, self.r = self.eng.sym_enum("l", self.sort), self.eng.sym_enum("r", self.sort)
        self.t, self.rt = self.eng.sym_enum("ttc", self.sort), self.eng.sym_enum("rt", self.sort)
        doc = implicit_cast_table()
        self.imp: Dict[Tuple[str, str], bool] = {}
        for a in self.names:
            for b in self.names:
                self.imp[(a, b)] = False
        for ra, cols in doc.items():
            for cb, v in cols.items():
                self.imp[(DOC_TYPE_TO_CLASS[ra], DOC_TYPE_TO_CLASS[cb])] = v
        for b in self.names:
            self.imp[("Null", b)] = True     # "Null to any type: Null is compatible with every type"
        self.idx = {n: i for i, n in enumerate(self.names)}
        # documented hierarchy (docs/data_types.rst "Type Hierarchy" tree), as class names; reflexive + transitive
        tree, self.tree_lines = type_tree()
        self.doc_parent = {DOC_TYPE_TO_CLASS[c]: (DOC_TYPE_TO_CLASS[p] if p else None) for c, p in tree.items()}
        self.docsub = {(DOC_TYPE_TO_CLASS[a], DOC_TYPE_TO_CLASS[b]) for a, b in subtype_or_equal(tree)}

    def docsub_of_const(self, res: Any, sup: str) -> Any:
        """res (Int term) is a documented subtype-or-equal of the type class `sup`."""
        return Or(*[Eq(res, self.idx[a]) for a, b in sorted(self.docsub) if b == sup and a in self.idx])

    # spec relations as SMT terms over sort indices ---------------------------------------------------------
    def imp_t(self, a: SymEnum, b: SymEnum) -> Any:
        return Or(*[And(Eq(a.term, self.idx[x]), Eq(b.term, self.idx[y])) for (x, y), v in self.imp.items() if v])

    def imp_to_const(self, a: SymEnum, y: str) -> Any:
        return Or(*[Eq(a.term, self.idx[x]) for x in self.names if self.imp[(x, y)]])

    def accept2(self, ttc: Optional[SymEnum]) -> Any:
        if ttc is not None:
            return And(self.imp_t(self.l, ttc), self.imp_t(self.r, ttc))
        return Or(*[And(self.imp_to_const(self.l, y), self.imp_to_const(self.r, y)) for y in self.names])

    def subclass_pairs(self) -> List[Tuple[str, str]]:
        return [(a.name, b.name) for a in self.members for b in self.members if a is not b and a.is_subclass_of(b)]

    def common_is(self, res: Any) -> Any:
        """res (Int term) is the documented common type of l and r."""
        l, r = self.l, self.r
        lr, rl = self.imp_t(l, r), self.imp_t(r, l)
        sub = self.subclass_pairs()
        l_sub_r = Or(*[And(Eq(l.term, self.idx[a]), Eq(r.term, self.idx[b])) for a, b in sub])
        r_sub_l = Or(*[And(Eq(r.term, self.idx[a]), Eq(l.term, self.idx[b])) for a, b in sub])
        both = And(lr, rl)
        uniq = []
        for y in self.names:
            if y == "Null":
                continue
            others = [z for z in self.names if z not in (y, "Null")]
            uniq.append(And(Eq(res, self.idx[y]), self.imp_to_const(l, y), self.imp_to_const(r, y),
                            *[Not(And(self.imp_to_const(l, z), self.imp_to_const(r, z))) for z in others]))
        return Or(And(lr, Not(rl), Eq(res, r.term)),
                  And(rl, Not(lr), Eq(res, l.term)),
                  And(both, Eq(l.term, r.term), Eq(res, l.term)),
                  And(both, Not(Eq(l.term, r.term)), l_sub_r, Eq(res, r.term)),
                  And(both, Not(Eq(l.term, r.term)), r_sub_l, Eq(res, l.term)),
                  And(Not(lr), Not(rl), Or(*uniq)))

    def result2_is(self, res: Any, ttc: Optional[SymEnum], rt: Optional[SymEnum]) -> Any:
        if rt is not None:
            return Eq(res, rt.term)
        if ttc is not None:
            one_side = Or(self.imp_t(self.l, self.r), self.imp_t(self.r, self.l))
            return Or(And(one_side, self.common_is(res)), And(Not(one_side), Eq(res, ttc.term)))
        return self.common_is(res)


def accept_formula(paths: Sequence[PathResult]) -> Any:
    return Or(*[And(*p.pc) for p in paths if p.kind == "return"])


def value_term(v: Any, sort: Any) -> Any:
    if isinstance(v, SymEnum):
        return v.term
    i = sort.index(v)
    if i is None:
        raise ValueError(f"result {v!r} is not a scalar type")
    return i


def solve(ctx: Ctx, asserts: List[Any], tag: str, get: Sequence[str] = ("l", "r", "ttc", "rt")) -> Any:
    return run_smt(smt.query(ctx.eng.decls, list(ctx.eng.axioms) + asserts, get=list(get)), timeout=30, tag=tag)


def name_of(ctx: Ctx, model: Dict[str, str], k: str) -> Optional[str]:
    return ctx.names[core.smt_int(model[k])] if k in model else None


def native(ctx: Ctx, fn: str, *names: Optional[str]) -> str:
    core.boot(full=True)
    import importlib
    dt = importlib.import_module("vtlengine.DataTypes")
    args = [getattr(dt, n) if n else None for n in names]
    try:
        r = getattr(dt, fn)(*args)
        return r.__name__ if isinstance(r, type) else repr(r)
    except Exception as e:  # noqa: BLE001
        return f"raises {type(e).__name__}({e.args[1] if len(e.args) > 1 else e})"


def native_operator(qual: str, operands: Sequence[Optional[str]]) -> str:
    """Result type of the REAL operator class (`<module>.<Class>` below vtlengine.Operators) validated on scalar
    operands of the given type classes."""
    core.boot(full=True)
    import importlib
    mod, cls = qual.split(".", 1)
    try:
        c = getattr(importlib.import_module(f"vtlengine.Operators.{mod}"), cls)
        dt = importlib.import_module("vtlengine.DataTypes")
        model = importlib.import_module("vtlengine.Model")
        args = [model.Scalar(name=f"sc_{i}", data_type=getattr(dt, n), value=None) for i, n in enumerate(operands)]
        r = c.validate(*args)
        t = getattr(r, "data_type", None)
        return t.__name__ if isinstance(t, type) else repr(r)
    except Exception as e:  # noqa: BLE001
        return f"raises {type(e).__name__}({e.args[1] if len(e.args) > 1 else e})"


def main() -> None:  # noqa: C901
    chk = Check("C11", "proof", "symbolic execution of the real promotion functions over the finite sort of scalar "
                "type classes; equivalence with the documented implicit-cast table decided by z3/cvc5 for all "
                "operand type pairs and the (type_to_check, return_type) of every operator class", min_obligations=20)
    ctx = Ctx(chk)
    eng = ctx.eng

    # ---- O1: the module table equals the documented table --------------------------------------------------
    f_tab = f"src/vtlengine/{REL}:IMPLICIT_TYPE_PROMOTION_MAPPING"
    chk.under_contract(f_tab)
    table = eng.lookup_global(REL, "IMPLICIT_TYPE_PROMOTION_MAPPING")
    o = chk.ob(f"{f_tab}::equals-documented-table", f_tab,
               "for all 9x9 (a,b): b in IMPLICIT_TYPE_PROMOTION_MAPPING[a]  <=>  docs implicit table says a -> b "
               "(Null -> everything)")
    o.backend = "ast+finite-relation"
    bad = []
    for a in ctx.members:
        row = table.get(a) if isinstance(table, dict) else None
        for b in ctx.members:
            got = row is not None and b in row
            if got != ctx.imp[(a.name, b.name)]:
                bad.append((a.name, b.name, got))
    if not isinstance(table, dict):
        o.status, o.detail = UNDECIDED, "table is not a literal dict"
    elif bad:
        o.status, o.witness = REFUTED, {"cells": bad[:10]}
        o.detail = f"{len(bad)} cell(s) differ from docs/data_types.rst: (from, to, code says) {bad[:6]}"
        o.finding_key = "IMPLICIT_TYPE_PROMOTION_MAPPING::" + ",".join(f"{a}->{b}" for a, b, _ in bad[:6])
        a, b, got = bad[0]
        o.replayed = True
        o.replay_detail = f"check_binary_implicit_promotion({a},{a},type_to_check={b}) = " \
                          f"{native(ctx, 'check_binary_implicit_promotion', a, a, b)} while the documented table " \
                          f"says implicit {a}->{b} is {'allowed' if not got else 'not allowed'}"
    else:
        o.status, o.detail = DISCHARGED, "81 cells equal"

    # ---- O1b: the subclass relation among the scalar type classes is the documented type hierarchy ---------
    f_h = f"src/vtlengine/{REL}:ScalarType"
    chk.under_contract(f_h)
    o = chk.ob(f"{f_h}::class-hierarchy-equals-documented-tree", f_h,
               f"for all scalar type classes a /= b: issubclass(a, b)  <=>  a is below b in the Type Hierarchy tree of "
               f"docs/data_types.rst (lines {ctx.tree_lines[0]}-{ctx.tree_lines[1]}; Null is outside the tree and "
               f"related to no class)")
    o.backend = "ast+finite-relation"
    code_sub = set(ctx.subclass_pairs())
    doc_sub = {(a, b) for a, b in ctx.docsub if a != b}
    if code_sub == doc_sub:
        o.status, o.detail = DISCHARGED, f"{len(code_sub)} strict subtype pairs: {sorted(code_sub)}"
    else:
        diff = sorted(code_sub ^ doc_sub)
        a, b = diff[0]
        core.boot(full=True)
        dtm = __import__("importlib").import_module("vtlengine.DataTypes")
        real = issubclass(getattr(dtm, a), getattr(dtm, b))
        o.status, o.witness = REFUTED, {"pairs": diff[:10]}
        o.detail = f"(sub, super) pairs in exactly one of code / docs: {diff[:8]}"
        o.replayed = real != ((a, b) in doc_sub)
        o.replay_detail = f"issubclass({a}, {b}) = {real}; documented tree says {(a, b) in doc_sub}"
        o.finding_key = "ScalarType-hierarchy::" + ",".join(f"{x}<{y}" for x, y in diff[:6])

    # ---- explore the four functions under the four None/given cases ---------------------------------------
    cases = {"ttc+rt": (ctx.t, ctx.rt), "ttc": (ctx.t, None), "rt": (None, ctx.rt), "none": (None, None)}
    paths: Dict[Tuple[str, str], List[PathResult]] = {}
    for fname, binary in (("binary_implicit_promotion", True), ("check_binary_implicit_promotion", True),
                          ("unary_implicit_promotion", False), ("check_unary_implicit_promotion", False)):
        chk.under_contract(f"src/vtlengine/{REL}:{fname}")
        for cname, (t, rt) in cases.items():
            args = [ctx.l, ctx.r, t, rt] if binary else [ctx.l, t, rt]
            paths[(fname, cname)] = eng.explore(eng.func(REL, fname), args)

    def aborted(ps: Sequence[PathResult]) -> Optional[str]:
        a = [p for p in ps if p.kind == "abort"]
        return a[0].abort_reason if a else None

    def site_obligations(ob: Any, ps: Sequence[PathResult], tag: str) -> bool:
        for p in ps:
            for pc, cond, desc in p.obligations:
                r = solve(ctx, list(pc) + [Not(cond)], tag)
                if r.status != "unsat":
                    ob.status = REFUTED if r.status == "sat" else UNDECIDED
                    ob.detail = f"call-site obligation fails: {desc}; model {r.model}"
                    ob.witness = {"model": r.model, "obligation": desc}
                    ob.finding_key = f"{tag}::{desc[:60]}"
                    return False
        return True

    # ---- O2: check_* <=> promotion does not raise, ALL (ttc, rt) ------------------------------------------
    for fam, binary in (("binary", True), ("unary", False)):
        pf, cf = f"{fam}_implicit_promotion", f"check_{fam}_implicit_promotion"
        for cname, (t, rt) in cases.items():
            f = f"src/vtlengine/{REL}:{cf}"
            ob = chk.ob(f"{f}::agrees-with-{pf}::{cname}", f,
                        f"forall operand types, type_to_check, return_type ({cname} given): {cf}(...) = True  <=>  "
                        f"{pf}(...) does not raise")
            ps, cs = paths[(pf, cname)], paths[(cf, cname)]
            ab = aborted(ps) or aborted(cs)
            if ab:
                ob.status, ob.detail = UNDECIDED, ab
                continue
            if any(p.kind == "raise" for p in cs):
                raised = Or(*[And(*p.pc) for p in cs if p.kind == "raise"])
            else:
                raised = False
            fr = __import__("vc.pyvc", fromlist=["Frame"]).Frame(eng, REL, {}, None)
            chk_true = Or(*[And(And(*p.pc), fr.truth(p.value)) for p in cs if p.kind == "return"])
            goal = And(Not(raised), Iff(chk_true, accept_formula(ps)))
            r = solve(ctx, [Not(goal)], f"O2-{fam}-{cname}")
            ob.backend, ob.seconds = r.backend, r.seconds
            if r.status == "unsat":
                if site_obligations(ob, list(ps) + list(cs), f"O2-{fam}-{cname}"):
                    ob.status, ob.detail = DISCHARGED, f"{len(ps)}+{len(cs)} paths"
            elif r.status == "sat":
                m = r.model
                a = [name_of(ctx, m, "l")] + ([name_of(ctx, m, "r")] if binary else []) + \
                    [name_of(ctx, m, "ttc") if t is not None else None, name_of(ctx, m, "rt") if rt is not None else None]
                rp, rc = native(ctx, pf, *a), native(ctx, cf, *a)
                ob.status, ob.witness = REFUTED, {"args": a, pf: rp, cf: rc}
                ob.detail = f"counter-model {m}"
                ob.replayed = (rc == "True") != (not rp.startswith("raises"))
                ob.replay_detail = f"{cf}{tuple(a)} = {rc} but {pf}{tuple(a)} -> {rp}"
                ob.finding_key = f"{cf}::disagrees::{a}"
            else:
                ob.status, ob.detail = UNDECIDED, r.raw[:200]

    # ---- operator classes and their (type_to_check, return_type) ------------------------------------------
    ops = operator_classes(eng, ctx)
    chk.extra["operator_classes"] = len(ops)
    configs: Dict[Tuple[bool, Optional[str], Optional[str]], List[str]] = {}
    tokens: Dict[str, Optional[str]] = {}
    for name, binary, tok, ttc, rt in ops:
        configs.setdefault((binary, ttc, rt), []).append(name)
        tokens[name] = tok if tok not in (None, "None") else None
    latent: Dict[str, str] = {}
    chk.extra["distinct_type_configurations"] = {f"{'binary' if b else 'unary'} ttc={t} rt={r}": v[:8]
                                                 for (b, t, r), v in sorted(configs.items(), key=str)}

    # ---- O3/O4: acceptance and result type against the documented table, per configuration ---------------
    for (binary, ttc_n, rt_n), users in sorted(configs.items(), key=str):
        fam = "binary" if binary else "unary"
        pf = f"{fam}_implicit_promotion"
        f = f"src/vtlengine/{REL}:{pf}"
        cname = {(True, True): "ttc+rt", (True, False): "ttc", (False, True): "rt", (False, False): "none"}[
            (ttc_n is not None, rt_n is not None)]
        ps = paths[(pf, cname)]
        fix = []
        if ttc_n is not None:
            fix.append(Eq(ctx.t.term, ctx.idx[ttc_n]))
        if rt_n is not None:
            fix.append(Eq(ctx.rt.term, ctx.idx[rt_n]))
        t = ctx.t if ttc_n is not None else None
        rt = ctx.rt if rt_n is not None else None
        label = f"ttc={ttc_n},rt={rt_n}"
        ob = chk.ob(f"{f}::accepts-iff-documented::{label}", f,
                    f"[{fam}; used by {', '.join(users[:5])}{'...' if len(users) > 5 else ''}] accepts the operand "
                    f"type(s) <=> the documented table gives them a common type admitted by type_to_check={ttc_n}")
        ob2 = chk.ob(f"{f}::result-is-documented-type::{label}", f,
                     f"[{fam}] when accepted the result is return_type={rt_n} if declared, else the documented common type")
        # operators that declare a type_to_check T but no return type: the result must be a type on which the
        # operation (defined on T) can be carried out without a value conversion
        concrete = [u for u in users if tokens.get(u)]
        ob3 = None
        if ttc_n is not None and rt_n is None and concrete:
            ob3 = chk.ob(f"{f}::result-needs-no-conversion::{label}", f,
                         f"[{fam}; operator classes {', '.join(concrete[:6])}{'...' if len(concrete) > 6 else ''} check "
                         f"their operands against {ttc_n} and declare no return type] when accepted the result type is "
                         f"Null or a subtype-or-equal of {ttc_n} in the documented Type Hierarchy (an operand type that "
                         f"reaches {ttc_n} only through an implicit cast of the table is a value conversion, so it "
                         f"cannot be the type of the result)")
        ab = aborted(ps)
        if ab:
            ob.status = ob2.status = UNDECIDED
            ob.detail = ob2.detail = ab
            if ob3 is not None:
                ob3.status, ob3.detail = UNDECIDED, ab
            continue
        if binary:
            spec_acc = ctx.accept2(t)
        else:
            spec_acc = ctx.imp_t(ctx.l, t) if t is not None else True
        r = solve(ctx, fix + [Not(Iff(accept_formula(ps), spec_acc))], f"O3-{label}")
        ob.backend, ob.seconds = r.backend, r.seconds
        arg_names = lambda m: [name_of(ctx, m, "l")] + ([name_of(ctx, m, "r")] if binary else []) + [ttc_n, rt_n]  # noqa: E731
        if r.status == "unsat":
            ob.status = DISCHARGED
        elif r.status == "sat":
            a = arg_names(r.model)
            real = native(ctx, pf, *a)
            doc_accepts = spec_eval_accept(ctx, binary, a)
            ob.status, ob.witness = REFUTED, {"args": a, "real": real, "documented_accept": doc_accepts}
            ob.detail = f"counter-model {r.model}"
            ob.replayed = (not real.startswith("raises")) != doc_accepts
            ob.replay_detail = f"{pf}{tuple(a)} -> {real}; documented table: {'accept' if doc_accepts else 'reject'}"
            ob.finding_key = f"{pf}::accept::{a}"
        else:
            ob.status, ob.detail = UNDECIDED, r.raw[:200]
        # result type
        bad_res = []
        for p in ps:
            if p.kind != "return":
                continue
            try:
                res = value_term(p.value, ctx.sort)
            except ValueError as e:
                bad_res.append(And(*p.pc))
                continue
            if binary:
                okres = ctx.result2_is(res, t, rt)
            else:
                okres = unary_result_is(ctx, res, t, rt)
            bad_res.append(And(And(*p.pc), Not(okres)))
        r2 = solve(ctx, fix + [Or(*bad_res)], f"O4-{label}")
        ob2.backend, ob2.seconds = r2.backend, r2.seconds
        if r2.status == "unsat":
            ob2.status = DISCHARGED
        elif r2.status == "sat":
            a = arg_names(r2.model)
            real = native(ctx, pf, *a)
            want = spec_eval_result(ctx, binary, a)
            ob2.status, ob2.witness = REFUTED, {"args": a, "real": real, "documented_result": want}
            ob2.detail = f"counter-model {r2.model}"
            ob2.replayed = real != want
            ob2.replay_detail = f"{pf}{tuple(a)} -> {real}; documented result type: {want}"
            ob2.finding_key = f"{pf}::result::{a}"
        else:
            ob2.status, ob2.detail = UNDECIDED, r2.raw[:200]
        # no value conversion hidden in the result type (only when a type_to_check but no return type is declared)
        if ttc_n is None or rt_n is not None:
            continue
        conv = []
        for p in ps:
            if p.kind != "return":
                continue
            try:
                res = value_term(p.value, ctx.sort)
            except ValueError:
                conv.append(And(*p.pc))
                continue
            conv.append(And(And(*p.pc), Not(Or(Eq(res, ctx.idx["Null"]), ctx.docsub_of_const(res, ttc_n)))))
        r3 = solve(ctx, fix + [Or(*conv)], f"O4b-{label}")
        if ob3 is None:
            # only abstract bases (no operator token, not reachable from any VTL operator) have this configuration:
            # no operator to hold the clause against; recorded so that a concrete subclass inheriting it is expected
            if r3.status == "sat":
                a = arg_names(r3.model)
                latent[f"{fam} {label} ({', '.join(users)})"] = \
                    f"{pf}{tuple(a)} -> {native(ctx, pf, *a)}: a concrete operator inheriting this configuration " \
                    f"without declaring return_type would fail result-needs-no-conversion"
            continue
        ob3.backend, ob3.seconds = r3.backend, r3.seconds
        if r3.status == "unsat":
            ob3.status = DISCHARGED
        elif r3.status == "sat":
            a = arg_names(r3.model)
            real = native(ctx, pf, *a)
            operands = a[:2] if binary else a[:1]
            via_ops = {u: native_operator(u, operands) for u in concrete[:3]}
            ob3.status = REFUTED
            ob3.witness = {"args": a, "real": real, "operator_validate": via_ops,
                           "documented_subtypes_of_type_to_check": sorted(x for x, y in ctx.docsub if y == ttc_n)}
            ob3.detail = f"counter-model {r3.model}"
            ob3.replayed = (not real.startswith("raises")) and real != "Null" and (real, ttc_n) not in ctx.docsub
            ob3.replay_detail = f"{pf}{tuple(a)} -> {real}, which is neither Null nor a documented subtype of {ttc_n} " \
                                f"(the operation runs on {ttc_n} values, the operand is converted, the result is not a " \
                                f"{real}); real operator classes on scalar operands {operands}: " + \
                                ", ".join(f"{u}.validate -> {v}" for u, v in via_ops.items())
            ob3.finding_key = f"{concrete[0]}::result-needs-conversion::ttc={ttc_n}"
        else:
            ob3.status, ob3.detail = UNDECIDED, r3.raw[:200]
    if latent:
        chk.extra["abstract_operator_bases_outside_no_conversion_clause"] = latent

    # ---- O5: operand-order independence for commutative operator classes -----------------------------------
    swap_paths: Dict[str, List[PathResult]] = {}
    for name, binary, tok, ttc_n, rt_n in ops:
        if not binary or tok not in COMMUTATIVE_TOKENS:
            continue
        cname = {(True, True): "ttc+rt", (True, False): "ttc", (False, True): "rt", (False, False): "none"}[
            (ttc_n is not None, rt_n is not None)]
        f = f"src/vtlengine/{REL}:binary_implicit_promotion"
        ob = chk.ob(f"{f}::commutative::{name}", f,
                    f"operator class {name} (token {tok}, ttc={ttc_n}, rt={rt_n}): promotion(l,r) and promotion(r,l) "
                    f"either both raise or give the same type")
        ps = paths[("binary_implicit_promotion", cname)]
        if cname not in swap_paths:
            t = ctx.t if ttc_n is not None else None
            rt = ctx.rt if rt_n is not None else None
            swap_paths[cname] = eng.explore(eng.func(REL, "binary_implicit_promotion"), [ctx.r, ctx.l, t, rt])
        qs = swap_paths[cname]
        fix = ([Eq(ctx.t.term, ctx.idx[ttc_n])] if ttc_n else []) + ([Eq(ctx.rt.term, ctx.idx[rt_n])] if rt_n else [])
        res = eng.decls.const("res_lr", smt.INT)
        res2 = eng.decls.const("res_rl", smt.INT)
        def_lr = Or(*[And(And(*p.pc), Eq(res, value_term(p.value, ctx.sort))) for p in ps if p.kind == "return"],
                    And(Not(accept_formula(ps)), Eq(res, -1)))
        def_rl = Or(*[And(And(*p.pc), Eq(res2, value_term(p.value, ctx.sort))) for p in qs if p.kind == "return"],
                    And(Not(accept_formula(qs)), Eq(res2, -1)))
        r = solve(ctx, fix + [def_lr, def_rl, Not(Eq(res, res2))], f"O5-{name}")
        ob.backend, ob.seconds = r.backend, r.seconds
        if r.status == "unsat":
            ob.status = DISCHARGED
        elif r.status == "sat":
            l, rr = name_of(ctx, r.model, "l"), name_of(ctx, r.model, "r")
            a1, a2 = native(ctx, "binary_implicit_promotion", l, rr, ttc_n, rt_n), \
                native(ctx, "binary_implicit_promotion", rr, l, ttc_n, rt_n)
            ob.status, ob.witness = REFUTED, {"l": l, "r": rr, "ttc": ttc_n, "rt": rt_n, "lr": a1, "rl": a2}
            ob.detail = f"counter-model {r.model}"
            ob.replayed = a1 != a2
            ob.replay_detail = f"binary_implicit_promotion({l},{rr},{ttc_n},{rt_n}) -> {a1} but swapped -> {a2}"
            ob.finding_key = f"commutative::{name}::{l},{rr}"
        else:
            ob.status, ob.detail = UNDECIDED, r.raw[:200]

    # ---- O6: dispatchers pass cls.type_to_check / cls.return_type unchanged --------------------------------
    dispatcher_obligations(chk)

    chk.assume("the 9 scalar type classes are exactly the values of DataTypes.SCALAR_TYPES (read from source)")
    chk.assume("commutative operators are those whose class token is one of " + ", ".join(sorted(COMMUTATIVE_TOKENS)))
    chk.assume("'documented common type' when neither operand promotes to the other and no type_to_check is given is "
               "the unique non-Null type both promote to (docs give no rule for several candidates; none exist today)")
    chk.assume("result-needs-no-conversion is held against operator classes that carry an operator token (`op = ...` in "
               "the class or a base); abstract bases without a token (Numeric.Binary, String.Binary, ...) are not VTL "
               "operators and are only listed in abstract_operator_bases_outside_no_conversion_clause")
    chk.assume("dataset/component-level validation reaches the promotion functions only through the dispatchers "
               "checked in O6 (per-measure loops of Operators.Binary/Unary are not themselves under contract)")
    chk.trust("vc.pyvc semantics for sets/classmethods/issubclass over the class hierarchy read from source")
    chk.extra["functions_inlined"] = sorted(eng.inlined)
    chk.finish()


def unary_result_is(ctx: Ctx, res: Any, t: Optional[SymEnum], rt: Optional[SymEnum]) -> Any:
    """Documented unary result: return_type if declared; operand type when it already is (a subtype of / supertype
    of) the operator type, else the operator type it was promoted to."""
    if rt is not None:
        return Eq(res, rt.term)
    if t is None:
        return Eq(res, ctx.l.term)
    sub = ctx.subclass_pairs() + [(n, n) for n in ctx.names]
    related = Or(*[And(Eq(ctx.l.term, ctx.idx[a]), Eq(t.term, ctx.idx[b])) for a, b in sub],
                 *[And(Eq(t.term, ctx.idx[a]), Eq(ctx.l.term, ctx.idx[b])) for a, b in sub])
    return Or(And(related, Eq(res, ctx.l.term)), And(Not(related), Eq(res, t.term)))


def spec_eval_accept(ctx: Ctx, binary: bool, a: List[Optional[str]]) -> bool:
    if binary:
        l, r, t, _ = a
        if t:
            return ctx.imp[(l, t)] and ctx.imp[(r, t)]
        return any(ctx.imp[(l, y)] and ctx.imp[(r, y)] for y in ctx.names)
    l, t, _ = a
    return ctx.imp[(l, t)] if t else True


def spec_eval_result(ctx: Ctx, binary: bool, a: List[Optional[str]]) -> str:
    subs = set(ctx.subclass_pairs())
    if not spec_eval_accept(ctx, binary, a):
        return "raises"
    if not binary:
        l, t, rt = a
        if rt:
            return rt
        if not t or l == t or (l, t) in subs or (t, l) in subs:
            return l  # type: ignore[return-value]
        return t
    l, r, t, rt = a
    if rt:
        return rt
    lr, rl = ctx.imp[(l, r)], ctx.imp[(r, l)]
    if lr and not rl:
        return r  # type: ignore[return-value]
    if rl and not lr:
        return l  # type: ignore[return-value]
    if lr and rl:
        if l == r:
            return l  # type: ignore[return-value]
        return r if (l, r) in subs else l  # type: ignore[return-value]
    if t:
        return t
    c = [y for y in ctx.names if y != "Null" and ctx.imp[(l, y)] and ctx.imp[(r, y)]]
    return c[0] if len(c) == 1 else "ambiguous"


def operator_classes(eng: Engine, ctx: Ctx) -> List[Tuple[str, bool, Optional[str], Optional[str], Optional[str]]]:
    """(qualified class name, is binary, token name, type_to_check, return_type) of every Operator subclass."""
    out = []
    base_rel = "Operators/__init__.py"
    op_base = eng.lookup_global(base_rel, "Operator")
    bin_base = eng.lookup_global(base_rel, "Binary")
    for p in sorted((core.SRC / "Operators").glob("*.py")):
        rel = f"Operators/{p.name}"
        tree = module_ast(rel)
        for st in tree.body:
            if not isinstance(st, ast.ClassDef):
                continue
            cv = eng.lookup_global(rel, st.name)
            if not isinstance(cv, ClassV) or not cv.is_subclass_of(op_base):
                continue
            vals = {}
            for attr in ("type_to_check", "return_type"):
                ok, v = eng.class_attr(cv, attr)
                vals[attr] = v.name if ok and isinstance(v, ClassV) else None
            tok = None
            for c in cv.mro():
                if c.node is None:
                    continue
                for b in c.node.body:
                    if isinstance(b, ast.Assign) and any(isinstance(t, ast.Name) and t.id == "op" for t in b.targets):
                        tok = ast.unparse(b.value)
                        break
                if tok:
                    break
            out.append((f"{p.stem}.{st.name}", cv.is_subclass_of(bin_base), tok, vals["type_to_check"], vals["return_type"]))
    return out


def dispatcher_obligations(chk: Check) -> None:
    """Every call of a promotion function inside Operators/__init__.py passes cls.type_to_check, cls.return_type."""
    rel = "Operators/__init__.py"
    tree = module_ast(rel)
    targets = {"binary_implicit_promotion", "check_binary_implicit_promotion", "unary_implicit_promotion",
               "check_unary_implicit_promotion"}
    from vc.pysrc import qualname_of
    n = 0
    for node in ast.walk(tree):
        if isinstance(node, ast.Call) and isinstance(node.func, ast.Name) and node.func.id in targets:
            n += 1
            where = f"src/vtlengine/{rel}:{qualname_of(node)}"
            chk.under_contract(where)
            ob = chk.ob(f"{where}::passes-class-types::{node.func.id}", where,
                        f"call of {node.func.id} passes cls.type_to_check and cls.return_type unchanged")
            ob.backend = "ast-callsite"
            k = 2 if "binary" in node.func.id else 1
            args = [ast.unparse(a) for a in node.args] + [f"{kw.arg}={ast.unparse(kw.value)}" for kw in node.keywords]
            rest = [ast.unparse(a) for a in node.args[k:]]
            kws = {kw.arg: ast.unparse(kw.value) for kw in node.keywords}
            ttc = rest[0] if len(rest) > 0 else kws.get("type_to_check")
            rt = rest[1] if len(rest) > 1 else kws.get("return_type")
            if ttc == "cls.type_to_check" and rt == "cls.return_type":
                ob.status = DISCHARGED
            else:
                ob.status, ob.detail = REFUTED, f"line {node.lineno}: called with ({', '.join(args)})"
                ob.witness = {"site": f"{rel}:{node.lineno}", "call": ast.unparse(node)}
                ob.finding_key = f"{qualname_of(node)}::{node.func.id}::{ttc},{rt}"
    if n < 4:
        chk.fault(f"only {n} dispatcher call sites found in Operators/__init__.py")


if __name__ == "__main__":
    core.main_guard("C11", main)
