"""C07, solver tier: the SQL text the REAL transpiler emits for datapoint rules, check(), check_hierarchy rules and
single hierarchy rules is evaluated row-wise over symbolic nullable values (vc.sqlrow on top of vc.sqlvc) and compared
with the VTL rule semantics evaluated symbolically by the independent little evaluator below.

The SQL comes from `SQLTranspiler.transpile` on hand-built ASTs (-> visit_DPValidation/_build_dp_rule_sql,
visit_Validation, visit_HROperation/_build_check_hr_rule_select/_build_hierarchy_rule_cte), after the real DAG and
semantic passes: nothing of the generator is modelled.  Counter-models are replayed by running the same program with
the model's datapoint on the real engine and comparing with spec/vtlref_validation.py.
"""
from __future__ import annotations

import sys
from pathlib import Path
from typing import Any, Callable, Dict, List, Optional, Sequence, Tuple

sys.path.insert(0, str(Path(__file__).resolve().parent.parent))
sys.path.insert(0, str(Path(__file__).resolve().parent))
import _valprograms as VP  # noqa: E402
from spec import vtlref_validation as RV  # noqa: E402
from vc import core, smt, sqlrow  # noqa: E402
from vc import pipeline as P  # noqa: E402
from vc.core import UNDECIDED, Check  # noqa: E402
from vc.e2e import Table  # noqa: E402
from vc.smt import Add, And, Eq, Ge, Gt, Iff, Implies, Ite, Le, Lt, Ne, Not, Or, Sub  # noqa: E402
from vc.smt import is_sym  # noqa: E402
from vc.sqlvc import SV, CStr, SqlOutside, SqlPath  # noqa: E402

TR = "src/vtlengine/duckdb_transpiler/Transpiler/__init__.py"
CMP = {"=": Eq, "<>": Ne, "<": Lt, "<=": Le, ">": Gt, ">=": Ge}


class Batch:
    """Obligations over the paths of a row-level evaluation, discharged with ONE solver query each (the disjunction over
    the paths of  pc /\\ not post ), all obligations in parallel; counter-models are located per path and replayed
    afterwards, sequentially (the replay drives the real engine)."""

    def __init__(self) -> None:
        self.jobs: List[Dict[str, Any]] = []

    def add(self, chk: Check, eng: sqlrow.RowEngine, function: str, clause_id: str, clause_text: str,
            paths: Sequence[SqlPath], pre: Sequence[Any], post: Callable[[SqlPath], Any], model_vars: Sequence[str] = (),
            replay: Optional[Callable[[Dict[str, str], SqlPath], Tuple[Optional[bool], str, Any]]] = None,
            finding_key: Optional[Callable[[Dict[str, str], SqlPath], str]] = None, timeout: float = 30.0) -> None:
        ob = chk.ob(f"{function}::{clause_id}", function, clause_text)
        # the VCs are built NOW (the contract closures refer to loop variables of the caller); only solving is deferred
        cases: List[Tuple[SqlPath, Any]] = []
        try:
            for p in paths:
                if p.kind == "abort":
                    cases.append((p, And(*p.pc)))              # leaving the SQL model must be infeasible
                    continue
                goal = post(p)
                if not is_sym(goal) and goal:
                    continue
                cases.append((p, And(*p.pc, Not(goal))))
        except Exception as e:  # noqa: BLE001
            ob.status, ob.detail = UNDECIDED, f"postcondition not evaluable: {type(e).__name__}: {e}"
            return
        self.jobs.append(dict(ob=ob, eng=eng, paths=list(paths), pre=list(pre), cases=cases, mv=list(model_vars), replay=replay,
                              fkey=finding_key, timeout=timeout))

    @staticmethod
    def _solve(j: Dict[str, Any]) -> None:
        import time
        ob, eng = j["ob"], j["eng"]
        t0 = time.time()
        cases: List[Tuple[SqlPath, Any]] = j["cases"]
        if not j["paths"]:
            ob.status, ob.detail = UNDECIDED, "no path explored"
            return
        if not cases:
            ob.status, ob.backend, ob.detail = core.DISCHARGED, "const-fold", f"{len(j['paths'])} paths, every VC folds to true"
            return
        base = list(eng.axioms) + j["pre"]
        r = core.run_smt(smt.query(eng.decls, base + [Or(*[c for _, c in cases])]), timeout=j["timeout"], tag="c07")
        ob.backend, ob.seconds = r.backend, time.time() - t0
        if r.status == "unsat":
            ob.status = core.DISCHARGED
            ob.detail = f"{len(j['paths'])} paths, {len(cases)} non-trivial VCs, one merged query, unsat"
            return
        if r.status == "unknown":
            ob.status, ob.detail = UNDECIDED, f"solver unknown: {r.raw[:160]}"
            return
        for p, c in cases:
            r2 = core.run_smt(smt.query(eng.decls, base + [c], get=j["mv"]), timeout=j["timeout"], tag="c07p")
            if r2.status != "sat":
                continue
            if p.kind == "abort":
                ob.status, ob.detail = UNDECIDED, f"a path leaves the SQL model and is feasible: {p.value}"
                return
            ob.status, ob.backend = core.REFUTED, r2.backend
            ob.detail = f"counter-model {r2.model}; outcome {p.kind}"
            ob.witness = {"model": r2.model}
            j["hit"] = (r2.model, p)
            return
        ob.status, ob.detail = UNDECIDED, "merged query sat but no single path reproduces it (solver disagreement)"

    def run(self) -> None:
        core.pmap(self._solve, self.jobs, jobs=min(8, core.NCPU))
        for j in self.jobs:
            if "hit" not in j:
                continue
            ob = j["ob"]
            model, p = j["hit"]
            if j["fkey"]:
                ob.finding_key = j["fkey"](model, p)
            if j["replay"]:
                try:
                    ok, detail, wit = j["replay"](model, p)
                    ob.replayed, ob.replay_detail = ok, detail
                    if wit is not None:
                        ob.witness = wit
                except Exception as e:  # noqa: BLE001
                    ob.replayed, ob.replay_detail = None, f"replay harness error: {type(e).__name__}: {e}"
        self.jobs = []


BATCH = Batch()


# ---- symbolic VTL values: (null, v) -------------------------------------------------------------------------------------------
def s_operand(x: Any, env: Dict[str, Tuple[Any, Any]]) -> Tuple[Any, Any]:
    if x[0] == "col":
        return env[x[1]]
    if x[0] == "const":
        return (x[1] is None), x[1]
    return s_cond(x, env)


def s_cond(c: Any, env: Dict[str, Tuple[Any, Any]]) -> Tuple[Any, Any]:
    """VTL three-valued value of a condition as (is-null, value-when-not-null)."""
    k = c[0]
    if k == "col":
        return env[c[1]]
    if k == "const":
        return (c[1] is None), c[1]
    if k == "cmp":
        (an, av), (bn, bv) = s_operand(c[2], env), s_operand(c[3], env)
        return Or(an, bn), CMP[c[1]](av, bv)
    if k in ("and", "or"):
        (an, av), (bn, bv) = s_cond(c[1], env), s_cond(c[2], env)
        at, af = And(Not(an), av), And(Not(an), Not(av))
        bt, bf = And(Not(bn), bv), And(Not(bn), Not(bv))
        t, f = (And(at, bt), Or(af, bf)) if k == "and" else (Or(at, bt), And(af, bf))
        return And(Not(t), Not(f)), t
    if k == "not":
        n, v = s_cond(c[1], env)
        return n, Not(v)
    if k == "isnull":
        n, _ = s_operand(c[1], env)
        return False, n
    raise ValueError(c)


def tfn(nv: Tuple[Any, Any]) -> Tuple[Any, Any, Any]:
    n, v = nv
    return And(Not(n), v), And(Not(n), Not(v)), n


def rule_tfno(rule: Dict[str, Any], env: Dict[str, Tuple[Any, Any]]) -> Tuple[Any, Any, Any, Any]:
    """(TRUE, FALSE, NULL, open) of a datapoint rule over a symbolic datapoint with nullable components.  `when A then C`:
    C where A is TRUE, TRUE where A is FALSE, NULL where A is NULL (spec/vtlref_validation.NULL_ANTECEDENT_SOURCES);
    nothing is left open any more (4th component kept for the callers' signature)."""
    tt, tf, tn = tfn(s_cond(rule["then"], env))
    if rule.get("when") is None:
        return tt, tf, tn, False
    wt, wf, wn = tfn(s_cond(rule["when"], env))
    return Or(wf, And(wt, tt)), And(wt, tf), Or(And(wt, tn), wn), False


# ---- SV helpers ----------------------------------------------------------------------------------------------------------------
def sv_is(x: SV, value: Any) -> Any:
    """SQL value x equals the Python value (None = NULL)."""
    if value is None:
        return True if x.sort == "null" else x.null
    if x.sort == "null":
        return False
    if isinstance(value, bool):
        return And(Not(x.null), x.v if value else Not(x.v)) if x.sort == "bool" else False
    if isinstance(value, int):
        return And(Not(x.null), Eq(x.v, value)) if x.sort == "int" else False
    if isinstance(value, str):
        return And(Not(x.null), x.v.eq(CStr.lit(value))) if x.sort == "str" else False
    raise TypeError(value)


def sv_same(a: SV, b: SV) -> Any:
    if a is b:
        return True
    if a.sort != b.sort:
        return False
    eq = a.v.eq(b.v) if a.sort == "str" else (Iff(a.v, b.v) if a.sort == "bool" else Eq(a.v, b.v))
    return And(Iff(a.null, b.null), Implies(Not(a.null), eq))


def sv_tfn(x: SV) -> Tuple[Any, Any, Any]:
    if x.sort == "null":
        return False, False, True
    if x.sort != "bool":
        raise SqlOutside(f"boolean column of sort {x.sort}")
    return And(Not(x.null), x.v), And(Not(x.null), Not(x.v)), x.null


def sv_num_is(x: SV, null: Any, v: Any) -> Any:
    """numeric SQL value x is (null ? NULL : v)."""
    if x.sort == "null":
        return null
    if x.sort != "int":
        raise SqlOutside(f"numeric column of sort {x.sort}")
    return And(Iff(x.null, null), Implies(Not(null), Eq(x.v, v)))


class Rows:
    """Symbolic row sources with named model variables."""

    def __init__(self, eng: sqlrow.RowEngine) -> None:
        self.eng = eng
        self.vars: List[str] = []

    def col(self, name: str, sort: str, nullable: bool = True) -> SV:
        d = self.eng.decls
        v = d.const(f"{name}.v", smt.INT if sort == "int" else smt.BOOL)
        self.vars.append(f"{name}.v")
        n: Any = False
        if nullable:
            n = d.const(f"{name}.null", smt.BOOL)
            self.vars.append(f"{name}.null")
        return SV(sort, v, n)


def model_value(model: Dict[str, str], name: str, sort: str) -> Any:
    if core.smt_bool(model.get(f"{name}.null", "false")):
        return None
    raw = model[f"{name}.v"]
    return core.smt_int(raw) if sort == "int" else core.smt_bool(raw)


def branches_of(sql: str) -> Tuple[List[Any], Dict[str, Any]]:
    e, ctes = sqlrow.main_query(sqlrow.parse(sql))
    return sqlrow.union_branches(e), ctes


def paths_of(eng: sqlrow.RowEngine, branch: Any, sources: Dict[str, SV]) -> List[SqlPath]:
    return eng.explore(lambda: sqlrow.eval_select(eng, branch, sources))


def on_value(f: Callable[[Any, Dict[str, SV]], Any]) -> Callable[[SqlPath], Any]:
    def post(p: SqlPath) -> Any:
        if p.kind != "value":
            return False
        sel, cols = p.value
        return f(sel, cols)
    return post


# ---- P1: datapoint rules ----------------------------------------------------------------------------------------------------------
def dp_shapes() -> List[Tuple[str, str, List[Dict[str, Any]]]]:
    c = lambda n: ("col", n)  # noqa: E731
    k = lambda v: ("const", v)  # noqa: E731
    return [
        ("int-comparisons", "int", [
            dict(name="r1", when=("cmp", ">", c("Me_1"), c("Me_2")), then=("cmp", "<", c("Me_3"), c("Me_4")), erCode="E1", erLevel=2),
            dict(name="r2", when=None, then=("cmp", "<=", c("Me_1"), k(3)), erCode=None, erLevel=None)]),
        ("boolean-columns", "bool", [
            dict(name=None, when=c("Me_1"), then=c("Me_2"), erCode="EB", erLevel=None),
            dict(name=None, when=None, then=c("Me_3"), erCode=None, erLevel=7)]),
        ("compound-conditions", "int", [
            dict(name="rc", when=("or", ("cmp", "=", c("Me_1"), k(0)), ("isnull", c("Me_2"))),
                 then=("and", ("cmp", ">=", c("Me_3"), c("Me_1")), ("not", ("cmp", "=", c("Me_4"), c("Me_2")))), erCode="EC", erLevel=1)]),
    ]


def dp_program(rules: Sequence[Dict[str, Any]], sort: str, output: Optional[str]) -> Tuple[List[Any], Table]:
    t = Table("DS_1", [("Id_1", "Integer")], [(f"Me_{i}", "Integer" if sort == "int" else "Boolean") for i in range(1, 5)], [])
    stmts = [VP.dp_ruleset_ast("dpr1", [f"Me_{i}" for i in range(1, 5)], rules),
             P.assign("DS_r", VP.check_datapoint_ast("DS_1", "dpr1", output), True)]
    return stmts, t


def p_datapoint_rules(chk: Check) -> None:
    f = f"{TR}:SQLTranspiler._build_dp_rule_sql"
    chk.under_contract(f)
    chk.under_contract(f"{TR}:SQLTranspiler.visit_DPValidation")
    for shape, sort, rules in dp_shapes():
        for output in ("invalid", "all", "all_measures"):
            stmts, t = dp_program(rules, sort, output)
            tag = f"{shape}/{output}"
            try:
                sql = VP.transpile_ast(stmts, [t.structure()])[-1][1]
                brs, _ = branches_of(sql)
            except Exception as e:  # noqa: BLE001
                o = chk.ob(f"{f}::{tag}::sql", f, "the transpiler emits one row-level SELECT per rule, UNION ALL")
                o.status, o.detail = UNDECIDED, f"{type(e).__name__}: {e}"
                continue
            o = chk.ob(f"{f}::{tag}::one-branch-per-rule", f, "visit_DPValidation emits exactly one SELECT per rule of the "
                       "ruleset, combined by UNION ALL (every rule is evaluated on every datapoint, nothing else is added)")
            o.backend = "sql-structure"
            if len(brs) == len(rules):
                o.status, o.detail = core.DISCHARGED, f"{len(brs)} branches"
            else:
                o.status, o.detail, o.replayed = core.REFUTED, f"{len(brs)} UNION ALL branches for {len(rules)} rules: {sql[:300]}", None
                o.finding_key = f"dp::{tag}::branches"
                continue
            for idx, (rid, rule, br) in enumerate(zip(RV.rule_ids(rules), rules, brs)):
                eng = sqlrow.RowEngine(macros={})
                rows = Rows(eng)
                src = {"id_1": rows.col("Id_1", "int", nullable=False)}
                for i in range(1, 5):
                    src[f"me_{i}"] = rows.col(f"Me_{i}", sort)
                r = sqlrow.row(src)
                env = {n: (src[n.lower()].null, src[n.lower()].v) for n in ["Id_1"] + [f"Me_{i}" for i in range(1, 5)]}
                T_, F_, N_, O_ = rule_tfno(rule, env)
                try:
                    paths = paths_of(eng, br, {"ds_1": r})
                except Exception as e:  # noqa: BLE001
                    o = chk.ob(f"{f}::{tag}::rule{idx + 1}", f, "row-level evaluation of the generated SELECT")
                    o.status, o.detail = UNDECIDED, f"{type(e).__name__}: {e}"
                    continue

                def replay(model: Dict[str, str], p: SqlPath, rules: Any = rules, sort: str = sort, output: str = output
                           ) -> Tuple[Optional[bool], str, Any]:
                    return replay_dp(model, rules, sort, output)

                def fkey(model: Dict[str, str], p: SqlPath, tag: str = tag, idx: int = idx) -> str:
                    return f"dp::{tag}::rule{idx + 1}"
                base = f"{tag}::rule{idx + 1}({VP.show_dp_rule(rule)})"
                if output == "invalid":
                    BATCH.add(chk, eng,f, f"{base}::invalid-selects-exactly-false",
                                  "invalid mode returns the datapoint for this rule <=> the rule evaluates to FALSE "
                                  "(antecedent TRUE and consequent FALSE; a NULL or TRUE outcome is not reported)",
                                  paths, [], on_value(lambda sel, cols, F_=F_: Iff(sel, F_)), rows.vars, replay, fkey)
                else:
                    BATCH.add(chk, eng,f, f"{base}::{output}-keeps-every-datapoint",
                                  f"{output} mode returns every datapoint for this rule", paths, [],
                                  on_value(lambda sel, cols: sel), rows.vars, replay, fkey)
                    BATCH.add(chk, eng,f, f"{base}::bool_var-is-rule-value",
                                  "bool_var = VTL value of the rule: consequent when the antecedent is TRUE, TRUE when it is "
                                  "FALSE, NULL when it is NULL (symbolic nullable antecedent)", paths, [],
                                  on_value(lambda sel, cols, T_=T_, F_=F_, N_=N_, O_=O_: Implies(sel, bool_var_ok(cols, T_, F_, N_, O_))),
                                  rows.vars, replay, fkey)
                for col, val in (("errorcode", rule.get("erCode")), ("errorlevel", rule.get("erLevel"))):
                    BATCH.add(chk, eng,f, f"{base}::{col}-exactly-where-false",
                                  f"{col} = {val!r} where the rule is FALSE and NULL everywhere else", paths, [],
                                  on_value(lambda sel, cols, F_=F_, col=col, val=val:
                                           Implies(sel, And(Implies(F_, sv_is(need(cols, col), val)),
                                                            Implies(Not(F_), sv_is(need(cols, col), None))))),
                                  rows.vars, replay, fkey)
                keep = ["id_1"] + ([f"me_{i}" for i in range(1, 5)] if output != "all" else [])
                BATCH.add(chk, eng,f, f"{base}::ruleid-and-passthrough",
                              f"ruleid = {rid!r}; identifiers{'' if output == 'all' else ' and measures'} are the datapoint's own",
                              paths, [], on_value(lambda sel, cols, rid=rid, keep=keep, src=src:
                                                  Implies(sel, And(sv_is(need(cols, "ruleid"), rid),
                                                                   *[sv_same(need(cols, k), src[k]) for k in keep]))),
                              rows.vars, replay, fkey)


def need(cols: Dict[str, SV], name: str) -> SV:
    if name not in cols:
        raise SqlOutside(f"generated SELECT has no column {name}")
    return cols[name]


def bool_var_ok(cols: Dict[str, SV], T_: Any, F_: Any, N_: Any, O_: Any) -> Any:
    bt, bf, bn = sv_tfn(need(cols, "bool_var"))
    return And(Implies(T_, bt), Implies(F_, bf), Implies(N_, bn), Implies(O_, Not(bf)))


def replay_dp(model: Dict[str, str], rules: Sequence[Dict[str, Any]], sort: str, output: str) -> Tuple[Optional[bool], str, Any]:
    rec: Dict[str, Any] = {"Id_1": core.smt_int(model.get("Id_1.v", "1"))}
    for i in range(1, 5):
        rec[f"Me_{i}"] = model_value(model, f"Me_{i}", sort)
    stmts, t = dp_program(rules, sort, output)
    t.rows = [rec]
    kind, res = VP.run_ast(stmts, [t])
    wit = {"program": VP.show_dpr("dpr1", [f"Me_{i}" for i in range(1, 5)], rules) + f"; DS_r <- check_datapoint(DS_1, dpr1 {output})",
           "data": {"DS_1": [rec]}}
    if kind != "ok":
        return None, f"run() raised {res[0]}: {str(res[1])[:160]}", wit
    ref = RV.check_datapoint(["Id_1"], [f"Me_{i}" for i in range(1, 5)], [rec], rules, output)
    d = RV.compare(res["DS_r"].data, ref)
    wit["engine_result"] = res["DS_r"].data.to_dict("records")
    return (d is not None), (f"real engine on DS_1 = {rec}: {d}" if d else f"real engine agrees with VTL on {rec}"), wit


# ---- P2: check() ----------------------------------------------------------------------------------------------------------------------
def check_program(op: str, invalid: bool, ec: Optional[str], el: Optional[int], with_imbalance: bool) -> Tuple[List[Any], List[Table]]:
    ta = Table("DS_a", [("Id_1", "Integer")], [("Me_1", "Integer")], [])
    tb = Table("DS_b", [("Id_1", "Integer")], [("Me_1", "Integer")], [])
    imb = P.binop(P.var("DS_a"), "-", P.var("DS_b")) if with_imbalance else None
    return [P.assign("DS_r", VP.check_ast(P.binop(P.var("DS_a"), op, P.var("DS_b")), ec, el, imb, invalid), True)], [ta, tb]


def p_check(chk: Check) -> None:
    f = f"{TR}:SQLTranspiler.visit_Validation"
    chk.under_contract(f)
    for op, invalid, ec, el, wimb in ((">=", False, "E", 1, True), ("=", True, "E", 1, True), ("<", False, None, None, True),
                                      (">", True, "X", None, False)):
        tag = f"check({op},{'invalid' if invalid else 'all'},{ec},{el},{'imbalance' if wimb else 'no-imbalance'})"
        stmts, tabs = check_program(op, invalid, ec, el, wimb)
        try:
            sql = VP.transpile_ast(stmts, [t.structure() for t in tabs])[-1][1]
            brs, _ = branches_of(sql)
            assert len(brs) == 1, "one SELECT expected"
            eng = sqlrow.RowEngine(macros={})
            rows = Rows(eng)
            a = {"id_1": rows.col("a.Id_1", "int", False), "me_1": rows.col("a.Me_1", "int")}
            b = {"id_1": rows.col("b.Id_1", "int", False), "me_1": rows.col("b.Me_1", "int")}
            paths = paths_of(eng, brs[0], {"ds_a": sqlrow.row(a), "ds_b": sqlrow.row(b)})
        except Exception as e:  # noqa: BLE001
            o = chk.ob(f"{f}::{tag}::sql", f, "row-level evaluation of the generated SELECT")
            o.status, o.detail = UNDECIDED, f"{type(e).__name__}: {e}"
            continue
        same_key = Eq(a["id_1"].v, b["id_1"].v)
        bn, bv = Or(a["me_1"].null, b["me_1"].null), CMP[op](a["me_1"].v, b["me_1"].v)
        bF = And(Not(bn), Not(bv))

        def replay(model: Dict[str, str], p: SqlPath, args: Any = (op, invalid, ec, el, wimb)) -> Tuple[Optional[bool], str, Any]:
            return replay_check(model, *args)

        def fkey(model: Dict[str, str], p: SqlPath, tag: str = tag) -> str:
            return f"check::{tag}"
        BATCH.add(chk, eng,f, f"{tag}::selection",
                      "a datapoint pair with equal identifiers is returned <=> (all) always / (invalid) the comparison is FALSE",
                      paths, [], on_value(lambda sel, cols: Iff(sel, And(same_key, bF) if invalid else same_key)),
                      rows.vars, replay, fkey)
        if not invalid:
            BATCH.add(chk, eng,f, f"{tag}::bool_var", "bool_var = three-valued result of the comparison of the two measures",
                          paths, [], on_value(lambda sel, cols: Implies(sel, And(Iff(need(cols, "bool_var").null, bn) if need(cols, "bool_var").sort == "bool" else False,
                                                                               Implies(Not(bn), Iff(need(cols, "bool_var").v, bv))))),
                          rows.vars, replay, fkey)
        BATCH.add(chk, eng,f, f"{tag}::imbalance",
                      "imbalance = measure of the imbalance operand for the same identifiers (here left - right, NULL if either "
                      "is NULL); NULL when no imbalance operand is given", paths, [],
                      on_value(lambda sel, cols: Implies(sel, sv_num_is(need(cols, "imbalance"), bn if wimb else True,
                                                                        Sub(a["me_1"].v, b["me_1"].v)))),
                      rows.vars, replay, fkey)
        for col, val in (("errorcode", ec), ("errorlevel", el)):
            BATCH.add(chk, eng,f, f"{tag}::{col}-exactly-where-false",
                          f"{col} = {val!r} where bool_var is FALSE, NULL everywhere else", paths, [],
                          on_value(lambda sel, cols, col=col, val=val: Implies(sel, And(Implies(bF, sv_is(need(cols, col), val)),
                                                                                      Implies(Not(bF), sv_is(need(cols, col), None))))),
                          rows.vars, replay, fkey)


def replay_check(model: Dict[str, str], op: str, invalid: bool, ec: Optional[str], el: Optional[int], wimb: bool
                 ) -> Tuple[Optional[bool], str, Any]:
    ra = {"Id_1": core.smt_int(model["a.Id_1.v"]), "Me_1": model_value(model, "a.Me_1", "int")}
    rb = {"Id_1": core.smt_int(model["b.Id_1.v"]), "Me_1": model_value(model, "b.Me_1", "int")}
    stmts, tabs = check_program(op, invalid, ec, el, wimb)
    tabs[0].rows, tabs[1].rows = [ra], [rb]
    kind, res = VP.run_ast(stmts, tabs)
    wit = {"program": f"DS_r <- check(DS_a {op} DS_b errorcode {ec!r} errorlevel {el!r}"
                      f"{' imbalance DS_a - DS_b' if wimb else ''} {'invalid' if invalid else 'all'})", "data": {"DS_a": [ra], "DS_b": [rb]}}
    if kind != "ok":
        return None, f"run() raised {res[0]}: {str(res[1])[:160]}", wit
    joined = []
    if ra["Id_1"] == rb["Id_1"]:
        x, y = ra["Me_1"], rb["Me_1"]
        bv = None if x is None or y is None else {"=": x == y, "<": x < y, ">": x > y, ">=": x >= y, "<=": x <= y, "<>": x != y}[op]
        joined = [{"Id_1": ra["Id_1"], "b": bv, "i": None if x is None or y is None else x - y}]
    ref = RV.check(["Id_1"], joined, "b", joined if wimb else None, "i" if wimb else None, ec, el, invalid)
    d = RV.compare(res["DS_r"].data, ref)
    wit["engine_result"] = res["DS_r"].data.to_dict("records")
    return (d is not None), (f"real engine: {d}" if d else "real engine agrees with VTL on the model's datapoints"), wit


# ---- P3/P4: check_hierarchy and hierarchy rule templates -----------------------------------------------------------------------------
def hr_rule_shapes() -> List[Dict[str, Any]]:
    return [dict(name="R1", left="A", op="=", right=[("+", "B"), ("+", "C")], erCode="EH", erLevel=3),
            dict(name="R2", left="A", op=">=", right=[("+", "B"), ("-", "C")], erCode=None, erLevel=None),
            dict(name="R3", left="B", op="<", right=[("+", "C")], erCode="EL", erLevel=None)]


def hr_program(op: str, rule: Dict[str, Any], mode: str, output: str) -> Tuple[List[Any], Table]:
    t = Table("DS_1", [("Id_1", "Integer"), ("Id_2", "String")], [("Me_1", "Integer")], [])
    return [VP.hr_ruleset_ast("hr1", "Id_2", [rule]),
            P.assign("DS_r", VP.hr_op_ast(op, "DS_1", "hr1", "Id_2", mode, None, output), True)], t


def pivot_row(rows: Rows, items: Sequence[str]) -> Tuple[SV, Dict[str, Tuple[Any, Any, Any]], List[Any]]:
    """Symbolic row of the _pivot CTE: per code item (_val_X, _has_X); invariant has in {0,1}, has = 0 => val NULL."""
    d = rows.eng.decls
    cols: Dict[str, SV] = {"id_1": rows.col("Id_1", "int", False)}
    view: Dict[str, Tuple[Any, Any, Any]] = {}
    pre: List[Any] = []
    for it in items:
        val = rows.col(f"val_{it}", "int")
        has = d.const(f"has_{it}", smt.BOOL)
        rows.vars.append(f"has_{it}")
        cols[f"_val_{it.lower()}"] = val
        cols[f"_has_{it.lower()}"] = SV("int", Ite(has, 1, 0), False)
        pre.append(Implies(Not(has), val.null))
        view[it] = (has, val.null, val.v)
    return sqlrow.row(cols), view, pre


def s_subst(view: Tuple[Any, Any, Any], mode: str) -> Tuple[Any, Any]:
    has, null, v = view
    if mode in RV.ZERO_MODES:
        return And(has, null), Ite(has, v, 0)
    return Or(Not(has), null), v


def s_total(rule: Dict[str, Any], view: Dict[str, Tuple[Any, Any, Any]], mode: str) -> Tuple[Any, Any]:
    null: Any = False
    tot: Any = 0
    for sg, it in rule["right"]:
        n, v = s_subst(view[it], mode)
        null = Or(null, n)
        tot = Add(tot, v) if sg == "+" else Sub(tot, v)
    return null, tot


def s_decide(mode: str, involved: Sequence[Tuple[Any, Any, Any]], zero_result: Any) -> Tuple[Any, Any]:
    """(certainly produced, certainly absent) - symbolic twin of spec.vtlref_validation._decide."""
    anyp = Or(*[h for h, _, _ in involved])
    nn = [And(h, Not(n)) for h, n, _ in involved]
    if mode == "non_null":
        allp = And(*nn)
        return allp, Not(allp)
    if mode in ("partial_null", "partial_zero"):
        return Or(*nn), Not(Or(*nn))
    if mode in ("always_null", "always_zero"):
        return anyp, False
    nonzero = Or(*[And(h, Not(n), Ne(v, 0)) for h, n, v in involved])
    all_zero = And(*[Implies(h, And(Not(n), Eq(v, 0))) for h, n, v in involved])
    return And(nonzero, Not(zero_result)), Or(Not(anyp), all_zero)


def p_hierarchy_rules(chk: Check, modes: Sequence[str]) -> None:
    fch = f"{TR}:SQLTranspiler._build_check_hr_rule_select"
    fh = f"{TR}:SQLTranspiler._build_hierarchy_rule_cte"
    chk.under_contract(fch)
    chk.under_contract(fh)
    chk.under_contract(f"{TR}:SQLTranspiler._build_hr_mode_filter", "inlined")
    chk.under_contract(f"{TR}:SQLTranspiler._build_hr_pivot", "assumed")
    shapes = hr_rule_shapes()
    if chk.tier != "thorough":
        shapes = shapes[:2]           # the third shape (single-item right side, errorcode without errorlevel) in thorough only
    for rule in shapes:
        items = [rule["left"]] + [it for _, it in rule["right"]]
        for mode in modes:
            for output in ("invalid", "all", "all_measures"):
                tag = f"{VP.show_hr_rule(rule)}/{mode}/{output}"
                stmts, t = hr_program("check_hierarchy", rule, mode, output)
                try:
                    sql = VP.transpile_ast(stmts, [t.structure()])[-1][1]
                    brs, ctes = branches_of(sql)
                    assert len(brs) == 1 and "_pivot" in ctes, "one rule SELECT over the _pivot CTE expected"
                    eng = sqlrow.RowEngine(macros={})
                    rows = Rows(eng)
                    prow, view, pre = pivot_row(rows, items)
                    paths = paths_of(eng, brs[0], {"_pivot": prow})
                except Exception as e:  # noqa: BLE001
                    o = chk.ob(f"{fch}::{tag}::sql", fch, "row-level evaluation of the generated rule SELECT")
                    o.status, o.detail = UNDECIDED, f"{type(e).__name__}: {e}"
                    continue
                ln, lv = s_subst(view[rule["left"]], mode)
                rn, rv = s_total(rule, view, mode)
                bn = Or(ln, rn)
                bv = {"=": Eq, ">=": Ge, "<": Lt, ">": Gt, "<=": Le}[rule["op"]](lv, rv)
                bF = And(Not(bn), Not(bv))
                prod, absent = s_decide(mode, [view[i] for i in items], And(Not(ln), Not(rn), Eq(lv, 0), Eq(rv, 0)))
                if output == "invalid":
                    prod, absent = And(prod, bF), Or(absent, Not(bF))

                def replay(model: Dict[str, str], p: SqlPath, args: Any = (rule, mode, output, items)) -> Tuple[Optional[bool], str, Any]:
                    return replay_hr("check_hierarchy", model, *args)

                def fkey(model: Dict[str, str], p: SqlPath, tag: str = tag) -> str:
                    return f"check_hierarchy::{tag}"
                BATCH.add(chk, eng,fch, f"{tag}::selection",
                              "the result datapoint of the rule is returned where the validation mode prescribes it and not "
                              "returned where it forbids it (cases the manual leaves open are not constrained); invalid: "
                              "only where the comparison is FALSE", paths, pre,
                              on_value(lambda sel, cols, prod=prod, absent=absent: And(Implies(prod, sel), Implies(absent, Not(sel)))),
                              rows.vars, replay, fkey)
                BATCH.add(chk, eng,fch, f"{tag}::imbalance-is-left-minus-right",
                              "imbalance = left - right over the mode-substituted values (NULL if either side is NULL)",
                              paths, pre, on_value(lambda sel, cols, bn=bn, lv=lv, rv=rv:
                                                   Implies(sel, sv_num_is(need(cols, "imbalance"), bn, Sub(lv, rv)))),
                              rows.vars, replay, fkey)
                if output != "invalid":
                    BATCH.add(chk, eng,fch, f"{tag}::bool_var", "bool_var = left <op> right, NULL if either side is NULL",
                                  paths, pre, on_value(lambda sel, cols, bn=bn, bv=bv: Implies(sel, bool_is(need(cols, "bool_var"), bn, bv))),
                                  rows.vars, replay, fkey)
                for col, val in (("errorcode", rule.get("erCode")), ("errorlevel", rule.get("erLevel"))):
                    BATCH.add(chk, eng,fch, f"{tag}::{col}-exactly-where-false",
                                  f"{col} = {val!r} where the rule is FALSE, NULL everywhere else", paths, pre,
                                  on_value(lambda sel, cols, bF=bF, col=col, val=val:
                                           Implies(sel, And(Implies(bF, sv_is(need(cols, col), val)), Implies(Not(bF), sv_is(need(cols, col), None))))),
                                  rows.vars, replay, fkey)
                BATCH.add(chk, eng,fch, f"{tag}::code-item-and-ruleid",
                              f"rule component = left code item {rule['left']!r}, ruleid = {rule['name']!r}, other identifiers unchanged",
                              paths, pre, on_value(lambda sel, cols, prow=prow: Implies(sel, And(
                                  sv_is(need(cols, "id_2"), rule["left"]), sv_is(need(cols, "ruleid"), rule["name"]),
                                  sv_same(need(cols, "id_1"), prow.v["id_1"])))), rows.vars, replay, fkey)
        if rule["op"] != "=":
            continue
        for mode in modes:
            tag = f"{VP.show_hr_rule(rule)}/{mode}"
            stmts, t = hr_program("hierarchy", rule, mode, "computed")
            try:
                sql = VP.transpile_ast(stmts, [t.structure()])[-1][1]
                brs, ctes = branches_of(sql)
                assert len(brs) == 1 and "_pivot" in ctes and "_rule_0" in ctes, "SELECT over _rule_0 over _pivot expected"
                eng = sqlrow.RowEngine(macros={})
                rows = Rows(eng)
                prow, view, pre = pivot_row(rows, items)

                def run() -> Any:
                    sel0, cols0 = sqlrow.eval_select(eng, ctes["_rule_0"], {"_pivot": prow})
                    sel1, cols1 = sqlrow.eval_select(eng, brs[0], {"_rule_0": sqlrow.row(cols0)})
                    return And(sel0, sel1), cols1
                paths = eng.explore(run)
            except Exception as e:  # noqa: BLE001
                o = chk.ob(f"{fh}::{tag}::sql", fh, "row-level evaluation of the generated rule CTE")
                o.status, o.detail = UNDECIDED, f"{type(e).__name__}: {e}"
                continue
            rn, rv = s_total(rule, view, mode)
            prod, absent = s_decide(mode, [view[i] for _, i in rule["right"]], And(Not(rn), Eq(rv, 0)))

            def replay2(model: Dict[str, str], p: SqlPath, args: Any = (rule, mode, "computed", items)) -> Tuple[Optional[bool], str, Any]:
                return replay_hr("hierarchy", model, *args)

            def fkey2(model: Dict[str, str], p: SqlPath, tag: str = tag) -> str:
                return f"hierarchy::{tag}"
            BATCH.add(chk, eng,fh, f"{tag}::produced-per-mode",
                          "the aggregated datapoint is produced where the mode prescribes it and not produced where it forbids it",
                          paths, pre, on_value(lambda sel, cols, prod=prod, absent=absent: And(Implies(prod, sel), Implies(absent, Not(sel)))),
                          rows.vars, replay2, fkey2)
            BATCH.add(chk, eng,fh, f"{tag}::value-is-signed-sum",
                          "measure = signed sum of the component items over the mode-substituted values (NULL if any is NULL); "
                          "rule component = the left code item", paths, pre,
                          on_value(lambda sel, cols, rn=rn, rv=rv, prow=prow: Implies(sel, And(
                              sv_num_is(need(cols, "me_1"), rn, rv), sv_is(need(cols, "id_2"), rule["left"]),
                              sv_same(need(cols, "id_1"), prow.v["id_1"])))), rows.vars, replay2, fkey2)


def bool_is(x: SV, null: Any, v: Any) -> Any:
    if x.sort == "null":
        return null
    if x.sort != "bool":
        raise SqlOutside(f"boolean column of sort {x.sort}")
    return And(Iff(x.null, null), Implies(Not(null), Iff(x.v, v)))


def replay_hr(op: str, model: Dict[str, str], rule: Dict[str, Any], mode: str, output: str, items: Sequence[str]
              ) -> Tuple[Optional[bool], str, Any]:
    gid = core.smt_int(model.get("Id_1.v", "1"))
    data = []
    for it in items:
        if core.smt_bool(model.get(f"has_{it}", "false")):
            data.append({"Id_1": gid, "Id_2": it, "Me_1": model_value(model, f"val_{it}", "int")})
    stmts, t = hr_program(op, rule, mode, output)
    t.rows = data
    kind, res = VP.run_ast(stmts, [t])
    wit = {"program": VP.show_hr("hr1", "Id_2", [rule]) + f"; DS_r <- {op}(DS_1, hr1 rule Id_2 {mode} {output})", "data": {"DS_1": data}}
    if kind != "ok":
        return None, f"run() raised {res[0]}: {str(res[1])[:160]}", wit
    if op == "hierarchy":
        ref = RV.hierarchy(["Id_1", "Id_2"], "Id_2", "Me_1", data, [rule], mode, "rule", output)
    else:
        ref = RV.check_hierarchy(["Id_1", "Id_2"], "Id_2", "Me_1", data, [rule], mode, output)
    assert ref is not None
    d = RV.compare(res["DS_r"].data, ref)
    wit["engine_result"] = res["DS_r"].data.to_dict("records")
    return (d is not None), (f"real engine on {data}: {d}" if d else f"real engine agrees with VTL on {data}"), wit
