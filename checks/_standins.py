"""Stand-ins for externals shared by C14 / C29 (assumed contracts, listed in the evidence of the checks that use them)."""
from __future__ import annotations

from typing import Any, List, Tuple


class FetchConn:
    """Recording stand-in for the DuckDB connection used by _build_dataset_fetch_select: the `LIMIT 0` schema probe
    returns the given (name, type) description, the EXISTS probe for time parts returns the given booleans.  Usable both
    natively (real function) and symbolically (vc.pyvc, names may be SMT terms)."""

    def __init__(self, desc: List[Tuple[Any, str]], flags: List[bool]) -> None:
        self.desc, self.flags, self.sql = desc, flags, []

    def execute(self, sql: Any, *a: Any) -> "FetchConn":
        self.sql.append(sql)
        return self

    @property
    def description(self) -> List[Tuple[Any, str]]:
        return self.desc

    def fetchone(self) -> Tuple[bool, ...]:
        return tuple(self.flags)

    def _pyvc_getattr(self, eng: Any, name: str) -> Any:
        me = self
        if name == "execute":
            def run(e: Any, sql: Any, *a: Any) -> Any:
                me.sql.append(sql)
                return me
            run._pyvc_native = True  # type: ignore[attr-defined]
            return run
        if name == "description":
            return [(n, t) for n, t in me.desc]
        if name == "fetchone":
            def fo(e: Any) -> Any:
                return tuple(me.flags)
            fo._pyvc_native = True  # type: ignore[attr-defined]
            return fo
        raise AttributeError(name)
