"""C33 — results depend only on the SET of input datapoints (row permutation and column reordering invariance).

P tier (unbounded; static analyses / solver, re-generated from the real source on every run)
  1. order-insensitivity contract on EVERY SQL template (checks/_ordercheck.py + vc/sqltemplates.py, shared with C15):
     one obligation per occurrence of an order-sensitive construct, keyed  template::<file>::<function>::<construct>;
     discharged by (i) PARTITION BY ∪ ORDER BY ⊇ identifiers of the ranked dataset (dataflow of the key list),
     (ii) fold lambda proved commutative + left-commutative (vc.sqlvc -> z3/cvc5), (iii) the picked row reaches only an
     exception text, (iv) structural lemmas stated in the obligation; refuted ones are replayed on the real engine by
     PERMUTING THE INPUT ROWS;
  2. contract of SQLTranspiler._build_over_clause (analytic windows): emitted keys ⊇ VTL partitioning ∪ ordering;
  3. provenance: every text handed to DuckDB is built from the scanned templates;
  4. loaders materialise no row position (rowid / ROW_NUMBER / pandas index) - per loader function;
  5. column order: the loader helpers use the input's column list only through membership / by-name selection
     (use-site analysis of every occurrence of the parameter), except the positional DATAFLOW-first rule (stated exception,
     shown harmless by 6).
B tier (bounded, never counted as proved)
  6. the real loader helpers on every permutation of every list of <= 4 column names from a representative pool;
  7. the program families of checks/_programs.py on the real engine: sampled (thorough: exhaustive <= 6 rows) row
     permutations x shuffled column orders x DataFrame/CSV form, results compared as sets of datapoints.
"""
from __future__ import annotations

import ast
import itertools
import re
import sys
from pathlib import Path
from typing import Any, Dict, List, Optional, Sequence, Set, Tuple

sys.path.insert(0, str(Path(__file__).resolve().parent.parent))
sys.path.insert(0, str(Path(__file__).resolve().parent))
import _colorder as CO  # noqa: E402
import _ordercheck as OC  # noqa: E402
from vc import core  # noqa: E402
from vc import sqltemplates as ST  # noqa: E402
from vc.core import BOUNDED_OK, DISCHARGED, REFUTED, UNDECIDED, Check  # noqa: E402

IO = "duckdb_transpiler/io/_io.py"
VAL = "duckdb_transpiler/io/_validation.py"
LOADERS = [(IO, "load_datapoints_duckdb"), (IO, "register_dataframes"), (IO, "_load_parquet"), (IO, "_create_empty_table"),
           (IO, "_validate_loaded_table"), (IO, "_normalize_time_period_columns"), (IO, "_read_parquet_columns"),
           (IO, "_detect_csv_format"), (VAL, "validate_no_duplicates"), (VAL, "validate_temporal_columns"),
           (VAL, "build_create_table_sql")]
ROW_POSITION = re.compile(r"(?i)\browid\b|ROW_NUMBER\s*\(|\bgenerate_series\s*\(|\brange\s*\(\s*\d|\bgenerate_subscripts\b|\bfile_row_number\b|"
                          r"\bunion_by_name\s*=\s*false")
PY_POSITION = {"index", "reset_index", "iterrows", "itertuples", "iloc", "iat", "RangeIndex", "cumcount", "rank"}


def find_fn(rel: str, name: str) -> Optional[ast.FunctionDef]:
    for n in ast.walk(ST.tree_of(rel)):
        if isinstance(n, ast.FunctionDef) and n.name == name:
            return n
    return None


# ----------------------------------------------------------------------------------------------------------------
# 4. loaders do not materialise row position
# ----------------------------------------------------------------------------------------------------------------
def loader_obligations(chk: Check) -> None:
    frs = ST.python_fragments([IO, VAL])
    for rel, name in LOADERS:
        f = f"src/vtlengine/{rel}:{name}"
        ob = chk.ob(f"{f}::no-row-position", f, "the loader materialises no row position: no rowid / ROW_NUMBER / generated row "
                                                 "counter in its SQL, no pandas index / enumerate over rows in its Python")
        ob.backend = "ast+template-scan"
        fn = find_fn(rel, name)
        if fn is None:
            ob.status, ob.detail = UNDECIDED, "function not found (moved?)"
            continue
        chk.under_contract(f, "contract")
        bad: List[str] = []
        mine = [fr for fr in frs if fr.rel == rel and (fr.qualname == name or fr.qualname.startswith(name + "."))]
        for fr in mine:
            m = ROW_POSITION.search(fr.text)
            if m and OC.ST.looks_like_sql(fr.text):
                bad.append(f"SQL template `{OC.show(fr.text[max(0, m.start() - 30):m.end() + 30], 80)}`")
        for n in ast.walk(fn):
            if isinstance(n, ast.Attribute) and n.attr in PY_POSITION:
                bad.append(f"python `{ast.unparse(n)[:50]}` (line offset {n.lineno - fn.lineno})")
            if isinstance(n, ast.Call) and isinstance(n.func, ast.Name) and n.func.id == "enumerate":
                arg = ast.unparse(n.args[0]) if n.args else ""
                if re.search(r"df|row|data|fetch", arg):
                    bad.append(f"python `enumerate({arg[:30]})`")
        if bad:
            ob.status, ob.detail = REFUTED, "; ".join(bad[:4])
            ob.finding_key = f"loader-row-position::{rel}::{name}"
            ob.witness = {"function": name, "sites": bad[:6]}
            ob.replayed = None
        else:
            ob.status, ob.detail = DISCHARGED, f"{len(mine)} string templates and the body of {name}() scanned"


_COLREPLAY: Optional[Tuple[Optional[bool], str]] = None


def replay_columns() -> Tuple[Optional[bool], str]:
    """The same CSV / DataFrame with its columns in two orders through the real engine."""
    global _COLREPLAY
    if _COLREPLAY is not None:
        return _COLREPLAY
    import tempfile
    import pandas as pd
    from vc import pipeline as P
    try:
        core.boot(full=True)
        st = [OC.struct("DS_1", [("Id_1", "Integer", "Identifier"), ("Id_2", "String", "Identifier"), ("Me_1", "Number", "Measure"),
                                 ("Me_2", "String", "Measure")])]
        df = pd.DataFrame({"Id_1": [1, 2, 3], "Id_2": ["A", "B", "C"], "Me_1": [1.5, None, 3.0], "Me_2": ["x", "y", None]})
        prog = [P.assign("DS_r", P.var("DS_1"), True)]
        outs: Dict[Any, str] = {}
        with tempfile.TemporaryDirectory(prefix="verif_c33_") as d:
            for order in itertools.permutations(list(df.columns)):
                for form in ("frame", "csv"):
                    x = df[list(order)]
                    data: Any = x
                    if form == "csv":
                        sub = Path(d) / ("_".join(order))
                        sub.mkdir(exist_ok=True)
                        x.to_csv(sub / "DS_1.csv", index=False)
                        data = sub / "DS_1.csv"
                    try:
                        res = OC.run_ast(prog, st, {"DS_1": data})
                        k: Any = OC.canon(res["DS_r"].data)
                    except Exception as e:  # noqa: BLE001
                        k = ("error", type(e).__name__, str(e)[:80])
                    outs.setdefault(k, f"{form} columns {list(order)}")
        if len(outs) > 1:
            (r1, o1), (r2, o2) = list(outs.items())[:2]
            _COLREPLAY = (True, f"real engine DS_r <- DS_1: {o1} -> {str(r1)[:160]}  BUT  {o2} -> {str(r2)[:160]}")
        else:
            _COLREPLAY = (None, "48 column orders x forms of a 4-column input gave the same result")
    except Exception as e:  # noqa: BLE001
        _COLREPLAY = (None, f"replay harness error {type(e).__name__}: {e}")
    return _COLREPLAY


# ----------------------------------------------------------------------------------------------------------------
# 6. bounded: the real helpers on every permutation of every list of <= 4 names of a representative pool
# ----------------------------------------------------------------------------------------------------------------
def helper_permutations(chk: Check) -> None:
    f = f"src/vtlengine/{VAL}:build_select_columns"
    ob = chk.ob(f"src/vtlengine/{IO}:load_datapoints_duckdb::loader-helpers-permutations", f"src/vtlengine/{IO}:load_datapoints_duckdb",
                "for every list of <= 4 distinct column names from the pool {identifier, measure, attribute, DATAFLOW, STRUCTURE, "
                "STRUCTURE_ID, ACTION, unknown} and every permutation of it, the real helpers give: the same SELECT list "
                "(build_select_columns ∘ handle_sdmx_columns ∘ build_csv_column_types), the same DataFrame SELECT list, the "
                "same missing-identifier verdict, the same type mapping", bounded=True)
    ob.backend = "real-functions-enumeration"
    try:
        core.boot(full=True)
        import importlib
        val = importlib.import_module("vtlengine.duckdb_transpiler.io._validation")
        io = importlib.import_module("vtlengine.duckdb_transpiler.io._io")
        model = importlib.import_module("vtlengine.Model")
        dts = importlib.import_module("vtlengine.DataTypes")
        R = model.Role
        comp_sets = []
        for tys in (("Integer", "Number", "String"), ("String", "Boolean", "Date"), ("Time_Period", "Integer", "Duration")):
            def ty(n: str) -> Any:
                return getattr(dts, {"Time_Period": "TimePeriod"}.get(n, n))
            comp_sets.append({"Id_1": model.Component("Id_1", ty(tys[0]), R.IDENTIFIER, False),
                              "Me_1": model.Component("Me_1", ty(tys[1]), R.MEASURE, True),
                              "At_1": model.Component("At_1", ty(tys[2]), R.ATTRIBUTE, True)})
        comp_sets.append({"Id_1": model.Component("Id_1", dts.Integer, R.IDENTIFIER, False),
                          "DATAFLOW": model.Component("DATAFLOW", dts.String, R.MEASURE, True),
                          "ACTION": model.Component("ACTION", dts.String, R.ATTRIBUTE, True)})
        pool = ["Id_1", "Me_1", "At_1", "DATAFLOW", "STRUCTURE", "STRUCTURE_ID", "ACTION", "Zz_9"]
        n = 0
        for comps in comp_sets:
            ids = [k for k, c in comps.items() if c.role == R.IDENTIFIER]
            for k in range(1, 5):
                for subset in itertools.combinations(pool, k):
                    outs = {}
                    for perm in itertools.permutations(subset):
                        cols = list(perm)
                        n += 1

                        def pipeline() -> Any:
                            keep = val.handle_sdmx_columns(cols, comps)
                            try:
                                val.check_missing_identifiers(ids, keep, Path("x.csv"))
                                miss = None
                            except Exception as e:  # noqa: BLE001
                                miss = type(e).__name__
                            dt = val.build_csv_column_types(comps, keep)
                            try:
                                sel: Any = val.build_select_columns(comps, keep, dt, "DS_1")
                            except Exception as e:  # noqa: BLE001
                                sel = ("raises", type(e).__name__, str(e)[:60])
                            dsel = io._build_dataframe_select_columns(comps, cols, None, {c: "VARCHAR" for c in cols})
                            return (miss, sorted(dt.items()), sel, dsel)
                        r = pipeline()
                        outs.setdefault(repr(r), cols)
                    if len(outs) > 1:
                        (r1, c1), (r2, c2) = list(outs.items())[:2]
                        ob.status = REFUTED
                        ob.detail = f"components {list(comps)}: columns {c1} -> {r1[:200]}  BUT  columns {c2} -> {r2[:200]}"
                        ob.witness = {"components": list(comps), "columns_1": c1, "columns_2": c2}
                        ob.replayed, ob.replay_detail = True, "real helper functions called with both column orders: " + ob.detail[:300]
                        ob.finding_key = "column-order::loader-helpers"
                        return
        ob.status, ob.detail = BOUNDED_OK, f"{n} (component set, column list) cases"
    except Exception as e:  # noqa: BLE001
        ob.status, ob.detail = UNDECIDED, f"{type(e).__name__}: {e}"


# ----------------------------------------------------------------------------------------------------------------
# 7. the one positional hand-over of the CSV path: read_csv(header=true, columns={…}) names the file's columns BY POSITION
# ----------------------------------------------------------------------------------------------------------------
def csv_columns_map_contract(chk: Check) -> None:
    """Postcondition of load_datapoints_duckdb (CSV branch), checked on the statement the REAL function emits to a recording
    connection: the keys of the `columns={…}` map are exactly the file's header, in the header's order; and the same header in
    every order, loaded by the real function into a real DuckDB table, gives the same set of datapoints."""
    f = f"src/vtlengine/{IO}:load_datapoints_duckdb"
    ob = chk.ob(f"{f}::read_csv-columns-map-is-the-header", f,
                "for every header made of <= 5 distinct names of the pool {identifier, measure, attribute, DATAFLOW, STRUCTURE, "
                "STRUCTURE_ID, ACTION, unknown} in every order: the statement the real loader emits reads the file with "
                "read_csv(header=true, columns={…}) whose keys are the header's names in the header's order (DuckDB binds these "
                "names to the file's columns by position)", bounded=True)
    ob.backend = "real-function-recording-connection"
    ob2 = chk.ob(f"{f}::csv-column-order-native", f,
                 "a CSV file with an SDMX special column (ACTION with a deleted row, STRUCTURE, STRUCTURE_ID) in every position "
                 "among the structure's columns, in every column order, loads the same set of datapoints (real loader, real DuckDB)",
                 bounded=True)
    ob2.backend = "real-function-real-duckdb"
    try:
        core.boot(full=True)
        import importlib
        from vc import loadvc
        model = importlib.import_module("vtlengine.Model")
        dts = importlib.import_module("vtlengine.DataTypes")
        io = importlib.import_module("vtlengine.duckdb_transpiler.io._io")
        R = model.Role
        comps = {"Id_1": model.Component("Id_1", dts.Integer, R.IDENTIFIER, False),
                 "Me_1": model.Component("Me_1", dts.String, R.MEASURE, True),
                 "At_1": model.Component("At_1", dts.String, R.ATTRIBUTE, True)}
        pool = ["Id_1", "Me_1", "At_1", "DATAFLOW", "STRUCTURE", "STRUCTURE_ID", "ACTION", "Zz_9"]
        n = 0
        for k in range(1, 6):
            for subset in itertools.combinations(pool, k):
                if "Id_1" not in subset:
                    continue
                for perm in itertools.permutations(subset):
                    header = list(perm)
                    prog = loadvc.extract_program("csv", comps, {c: "VARCHAR" for c in header})
                    if prog.error is not None:
                        continue                    # the loader's own verdict on this header (nothing is read)
                    reads = [s for s in prog.statements if "read_csv" in s and "INSERT" in s.upper()]
                    if not reads:
                        continue
                    n += 1
                    m = re.search(r"columns\s*=\s*\{(.*?)\}", reads[0], re.S)
                    keys = re.findall(r"'((?:[^']|'')*)'\s*:", m.group(1)) if m else None
                    hdr = bool(re.search(r"header\s*=\s*true", reads[0]))
                    if keys != header or not hdr:
                        ob.status = REFUTED
                        ob.detail = f"header {header}: the emitted read_csv names the columns {keys} (header=true: {hdr})"
                        ob.witness = {"header": header, "columns_map_keys": keys, "statement": " ".join(reads[0].split())[:400]}
                        ob.finding_key = "column-order::read_csv-columns-map"
                        break
                if ob.status == REFUTED:
                    break
            if ob.status == REFUTED:
                break
        if ob.status != REFUTED:
            if n == 0:
                ob.status, ob.detail = UNDECIDED, "no header reached the read_csv statement (loader changed shape?)"
            else:
                ob.status, ob.detail = BOUNDED_OK, f"{n} headers"
        # native: same content, every column order
        import tempfile
        import duckdb
        rows = {"Id_1": ["1", "2", "3"], "Me_1": ["D", "y", "c"], "At_1": ["x", "R", "D"]}
        cases = [("ACTION", ["I", "D", "R"]), ("STRUCTURE", ["dataflow", "dataflow", "dataflow"]),
                 ("STRUCTURE_ID", ["A:B(1.0)", "A:B(1.0)", "A:B(1.0)"])]
        m2 = 0
        with tempfile.TemporaryDirectory(prefix="verif_c33_csv_") as d:
            for special, vals in cases:
                table = dict(rows)
                table[special] = vals
                outs: Dict[Any, Any] = {}
                for order in itertools.permutations(list(table)):
                    p = Path(d) / "DS_1.csv"
                    with open(p, "w", newline="") as fh:
                        import csv as _csv
                        w = _csv.writer(fh)
                        w.writerow(order)
                        for i in range(3):
                            w.writerow([table[c][i] for c in order])
                    conn = duckdb.connect()
                    try:
                        io.load_datapoints_duckdb(conn, comps, "DS_1", p)
                        got: Any = frozenset(conn.execute('SELECT "Id_1", "Me_1", "At_1" FROM "DS_1"').fetchall())
                    except Exception as e:  # noqa: BLE001
                        got = ("error", type(e).__name__, str(e)[:100])
                    finally:
                        conn.close()
                    m2 += 1
                    outs.setdefault(got, list(order))
                if len(outs) > 1:
                    (r1, c1), (r2, c2) = list(outs.items())[:2]
                    show = lambda r: sorted(r) if isinstance(r, frozenset) else r  # noqa: E731
                    ob2.status = REFUTED
                    ob2.detail = f"columns {c1} -> {show(r1)}  BUT  columns {c2} -> {show(r2)}"
                    ob2.witness = {"columns_1": c1, "columns_2": c2, "rows": table, "result_1": str(show(r1)), "result_2": str(show(r2))}
                    ob2.replayed, ob2.replay_detail = True, "real load_datapoints_duckdb on a real DuckDB connection: " + ob2.detail[:300]
                    ob2.finding_key = "column-order::csv-special-column-position"
                    if ob.status == REFUTED:
                        ob.replayed, ob.replay_detail = True, ob2.replay_detail
                    break
        if ob2.status != REFUTED:
            ob2.status, ob2.detail = BOUNDED_OK, f"{m2} files"
        if ob.status == REFUTED and ob.replayed is None and ob2.status == BOUNDED_OK:
            ob.replay_detail = "the emitted statement is order-dependent but no loaded table differed on the native files tried"
    except Exception as e:  # noqa: BLE001
        for o in (ob, ob2):
            if o.status not in (REFUTED, BOUNDED_OK):
                o.status, o.detail = UNDECIDED, f"{type(e).__name__}: {e}"


def main() -> None:
    chk = Check("C33", "proof", "order-insensitivity contract on every SQL template extracted from the real source on each run "
                "(window / aggregate / fold / LIMIT constructs; key-list dataflow, fold lambdas to z3 via vc.sqlvc, native replay "
                "by row permutation), contract of the analytic OVER-clause builder, SQL-text provenance, loader and column-list "
                "use-site analysis; bounded tier: permutations x column orders x input forms on the real engine",
                min_obligations=60)
    core.boot(full=True)
    OC._TIER[0] = chk.tier
    known, _ = chk._known()
    # bounded tier first: its worker processes are forked before this process opens any DuckDB connection
    collect_bounded = None
    if os_flag("VERIF_SKIP_BOUNDED"):
        chk.notes.append("bounded tier skipped (VERIF_SKIP_BOUNDED)")
    else:
        collect_bounded = OC.run_bounded(chk, "C33", list(known))       # worker processes; the P tier is decided meanwhile
    helper_permutations(chk)
    csv_columns_map_contract(chk)
    tpl = OC.Templates()
    if tpl.gen_problems:
        chk.notes.append("generator calls that failed: " + "; ".join(tpl.gen_problems[:5]))
    OC.site_obligations(chk, "C33", tpl)
    OC.over_clause_contract(chk, "C33")
    OC.provenance_obligations(chk)
    loader_obligations(chk)
    CO.column_use_obligations(chk, replay_columns)
    if collect_bounded is not None:
        collect_bounded()
    chk.extra.update(OC.scanned_summary(tpl))
    chk.extra["registry_calls_without_fixed_operand"] = ST.registry_call_arity()
    common_assumptions(chk)
    chk.assume("row position of the INPUT is not observable through DuckDB's read_csv / read_parquet / pandas scan other than by the "
               "constructs scanned for (rowid, ROW_NUMBER, file_row_number, generate_series)")
    chk.assume("analytic invocations whose explicit partition by + order by do not determine a total order (ties) are excluded by "
               "the property itself")
    chk.finish()


def os_flag(name: str) -> bool:
    import os
    return os.environ.get(name, "") not in ("", "0")


def common_assumptions(chk: Check) -> None:
    chk.assume("A (DuckDB): a statement that contains none of the order-sensitive constructs, or only discharged ones, returns the "
               "same multiset of rows for every physical row order, thread count, storage mode and memory limit; floating-point "
               "aggregation order (SUM/AVG over DOUBLE) is not modelled - Number columns are DECIMAL")
    chk.assume("the list of order-sensitive constructs in vc/sqltemplates.py (window functions, ordered aggregates, folds, LIMIT/OFFSET, "
               "DISTINCT ON, rowid, sampling, random/uuid/clock functions) is complete for the SQL the engine emits")
    chk.assume("holes of the templates are filled with quoted identifiers, literals and nested templates of the scanned files; helper "
               "functions outside the scanned files that are called inside holes return names / literals, not SQL clauses")
    chk.assume("the Dataset structure object used to build a key list describes the relation it is ranked over (StructureVisitor "
               "bookkeeping is not verified here); identifiers are a key of every dataset-valued relation (C10)")
    chk.assume("Time_Period columns hold canonical period texts at rest (loaders normalise; C19/C21), which makes vtl_period_parse "
               "injective on them (ARG_MIN/ARG_MAX discharge)")
    chk.assume("registry.sql is never called with zero operands (the call sites that pass only starred lists are listed under "
               "coverage.registry_calls_without_fixed_operand)")
    chk.assume("VTL semantics of an omitted analytic order by / partition by: the identifiers not named by the other clause (as "
               "Interpreter.visit_Analytic computes for the partition and as the repository's own expected results "
               "tests/ViralAttributes 3-1 require for the ordering)")
    chk.trust("z3 5.1 / cvc5 1.0.3; vc.sqlvc DuckDB scalar semantics (CASE / IN / 3VL; LEAST/GREATEST validated against DuckDB on each run)")
    chk.trust("sqlglot parser; python ast; the regular-expression scanner of vc/sqltemplates.py")


if __name__ == "__main__":
    core.main_guard("C33", main)
