"""Bounded tier of C14 (labelled bounded, never counted as proved).

For every program of a small family (rich-typed hand-written programs + a sample of the C01-C05 families) the real
engine (API.run extracted below the parser, real DuckDB) is run
    in memory                       (output_folder None)
    with an output folder           (output_format csv and parquet)
for BOTH return_only_persistent settings, and
  K  the returned keys are the same with and without folder,
  N  with a folder every returned Dataset has .data None,
  F  the folder contains exactly <name>.<format> per returned dataset (+ _scalars.csv iff a Scalar is returned),
  D  each file, read back, holds exactly the in-memory datapoints: same header (names, order), same multiset of rows,
     cell by cell typed by the returned structure (NULL vs empty string kept apart, booleans, integers, numbers
     compared as numbers, dates / time periods / strings as text),
  S  _scalars.csv holds exactly (name, '' if value is None else str(value)) of the returned Scalars, sorted, and the
     returned Scalars have the values of the in-memory run.
Readers: CSV is parsed by an independent RFC-4180 reader written here that keeps track of quoting (an unquoted empty
field is NULL, a quoted empty field is the empty string - the convention of DuckDB's writer); Parquet is read with
DuckDB's read_parquet.
"""
from __future__ import annotations

import csv
import math
import os
import random
import shutil
import sys
import tempfile
from pathlib import Path
from typing import Any, Dict, Iterator, List, Optional, Sequence, Tuple

sys.path.insert(0, str(Path(__file__).resolve().parent.parent))
sys.path.insert(0, str(Path(__file__).resolve().parent))
import _programs as PG  # noqa: E402
from vc import core  # noqa: E402
from vc import pipeline as P  # noqa: E402
from vc.core import BOUNDED_OK, REFUTED, UNDECIDED, Check  # noqa: E402
from vc.e2e import Table  # noqa: E402

RUN = "src/vtlengine/API/__init__.py:run"
N = None
D = lambda n: ("ds", n)  # noqa: E731
C = lambda v: ("const", v)  # noqa: E731
cm = lambda n: ("comp", n)  # noqa: E731
Prog = Tuple[str, str, List[Tuple[str, Any, bool]], List[Table], Dict[str, Any], str]


# ---------------------------------------------------------------------------------------------------------------------
# programs
# ---------------------------------------------------------------------------------------------------------------------
def rich_tables() -> List[Table]:
    ids = [("Id_1", "Integer"), ("Id_2", "String")]
    me = [("Me_1", "Number"), ("Me_2", "String"), ("Me_3", "Boolean"), ("Me_4", "Date"), ("Me_5", "Time_Period"), ("Me_6", "Integer")]
    rows = [
        dict(Id_1=1, Id_2="A", Me_1=1.5, Me_2="a,b", Me_3=True, Me_4="2020-01-15", Me_5="2020-Q1", Me_6=3),
        dict(Id_1=2, Id_2='B,"q"', Me_1=N, Me_2="", Me_3=N, Me_4=N, Me_5=N, Me_6=N),
        dict(Id_1=3, Id_2="C c", Me_1=-0.1, Me_2=N, Me_3=False, Me_4="1999-12-31", Me_5="2021-M02", Me_6=-7),
        dict(Id_1=4, Id_2=" D ", Me_1=1e10, Me_2='say "hi"\nsecond line', Me_3=False, Me_4="2000-02-29", Me_5="2020-A1", Me_6=0),
        dict(Id_1=5, Id_2="É'x", Me_1=123456789.123456789, Me_2=" lead", Me_3=True, Me_4="2024-12-01", Me_5="2020-D366", Me_6=9007199254740993),
        dict(Id_1=6, Id_2="NULL", Me_1=1e-7, Me_2="NULL", Me_3=True, Me_4="0001-01-01", Me_5="2020-S2", Me_6=1),
        dict(Id_1=7, Id_2="t", Me_1=0.0, Me_2="true", Me_3=N, Me_4="9999-12-31", Me_5="2020-W53", Me_6=-1),
    ]
    t2 = Table("DS_2", [("Id_1", "Integer")], [("Me_1", "Number"), ("Me_7", "String")],
               [dict(Id_1=1, Me_1=3.0, Me_7="x"), dict(Id_1=2, Me_1=N, Me_7=N), dict(Id_1=9, Me_1=0.25, Me_7="")])
    tdt = Table("DS_t", [("Id_1", "Integer")], [("Me_1", "Date")],
                [dict(Id_1=1, Me_1="2020-01-15 10:30:00"), dict(Id_1=2, Me_1="2020-01-16"), dict(Id_1=3, Me_1=N)])
    tp = Table("DS_p", [("Id_1", "Integer")], [("Me_1", "Time_Period")],
               [dict(Id_1=1, Me_1="2020-A1"), dict(Id_1=2, Me_1="2020-M03"), dict(Id_1=3, Me_1="2020-D060"), dict(Id_1=4, Me_1=N)])
    tq = Table("DS_q", [("Id_1", "Integer")], [("Me_1", "Time_Period")],
               [dict(Id_1=1, Me_1="2020-Q4"), dict(Id_1=2, Me_1="2020-S1"), dict(Id_1=3, Me_1="2021-W01"), dict(Id_1=4, Me_1="2019")])
    return [Table("DS_1", ids, me, rows), t2, tdt, tp, tq]


#: numeric-only DS_2 for programs that do arithmetic on the whole dataset
NUM = Table("DS_2", [("Id_1", "Integer")], [("Me_1", "Number")], [dict(Id_1=1, Me_1=3.0), dict(Id_1=2, Me_1=N), dict(Id_1=9, Me_1=0.25)])


def rich_programs() -> Iterator[Prog]:
    T = {t.name: t for t in rich_tables()}
    one = [T["DS_1"]]
    yield "types", "identity, persistent + temporary copy", [("R", D("DS_1"), True), ("T", ("clause", "filter", D("DS_1"), ("bin", ">", cm("Id_1"), C(1))), False)], one, {}, "vtl"
    yield "types", "calc numbers / integers", [("R", ("clause", "calc", D("DS_1"), [("Me_7", ("bin", "*", cm("Me_1"), C(2))), ("Me_8", ("bin", "+", cm("Me_6"), C(1))),
                                                                                     ("Me_9", ("bin", "/", cm("Me_1"), C(3)))]), True)], one, {}, "vtl"
    yield "types", "string concatenation with separators", [("R", ("clause", "calc", D("DS_1"), [("Me_9", ("bin", "||", cm("Me_2"), C('x,"y"')))]), True)], one, {}, "vtl"
    yield "types", "booleans from comparison", [("R", ("bin", ">", ("memb", D("DS_1"), "Me_1"), C(0)), True)], one, {}, "vtl"
    yield "types", "isnull / nvl", [("R", ("un", "isnull", ("memb", D("DS_1"), "Me_2")), True), ("R2", ("bin", "nvl", ("memb", D("DS_1"), "Me_2"), C("")), True)], one, {}, "vtl"
    yield "types", "keep / drop / rename", [("R", ("clause", "rename", ("clause", "keep", D("DS_1"), ["Me_2", "Me_3", "Me_4"]), [("Me_2", "Text,1")]), True),
                                            ("R2", ("clause", "drop", D("DS_1"), ["Me_1", "Me_6"]), False)], one, {}, "vtl"
    yield "types", "empty result", [("R", ("clause", "filter", D("DS_1"), ("bin", ">", cm("Id_1"), C(100))), True)], one, {}, "vtl"
    yield "types", "aggregation", [("R", ("agg", "sum", ("clause", "keep", D("DS_1"), ["Me_1", "Me_6"]), "group by", ["Id_1"], None), True),
                                   ("R2", ("clause", "aggr", D("DS_1"), ([("n", "count", None), ("mx", "max", "Me_2")], "group by", ["Id_2"], None)), True)], one, {}, "vtl"
    yield "types", "join", [("R", ("join", "left_join", [(("clause", "keep", D("DS_1"), ["Me_2", "Me_3"]), None), (D("DS_2"), None)], ["Id_1"], []), True)], [T["DS_1"], T["DS_2"]], {}, "vtl"
    yield "types", "date with time part", [("R", D("DS_t"), True), ("R2", ("clause", "filter", D("DS_t"), ("bin", ">", cm("Id_1"), C(1))), True)], [T["DS_t"]], {}, "vtl"
    yield "types", "only temporary results", [("T1", ("bin", "*", D("DS_2"), C(2)), False), ("T2", ("bin", "+", D("T1"), C(1)), False)], [NUM], {}, "vtl"
    for rep in ("vtl", "sdmx_reporting", "natural"):
        yield "time-period", f"time periods, representation {rep}", [("R", D("DS_1"), True), ("R2", D("DS_q"), True)], [T["DS_1"], T["DS_q"]], {}, rep
    for rep in ("vtl", "sdmx_reporting", "sdmx_gregorian", "natural"):
        yield "time-period", f"A/M/D periods, representation {rep}", [("R", D("DS_p"), True)], [T["DS_p"]], {}, rep
    # result names that stress the file-name construction: dots are legal in VTL identifiers ([A-Za-z][A-Za-z0-9_.]*),
    # SDMX-style names carry a version such as (1.0); two results differing only after the last dot must not share a file
    two = [NUM]
    yield "result-names", "two results differing only after the last dot", \
        [("DS.a", ("bin", "+", D("DS_2"), C(1)), True), ("DS.b", ("bin", "*", D("DS_2"), C(2)), True), ("DS_r", ("bin", "-", D("DS_2"), C(1)), True)], two, {}, "vtl"
    yield "result-names", "dotted names, one of them temporary", \
        [("DS.a", ("bin", "+", D("DS_2"), C(1)), True), ("DS.b", ("bin", "*", D("DS_2"), C(2)), False), ("DS.a.b", ("bin", "-", D("DS_2"), C(1)), True)], two, {}, "vtl"
    yield "result-names", "name ending in a version (1.0)", \
        [("BIS:DF(1.0)", ("bin", "+", D("DS_2"), C(1)), True), ("BIS:DF(1.1)", ("bin", "+", D("DS_2"), C(2)), False)], two, {}, "vtl"
    yield "result-names", "names that look like file names", \
        [("R.csv", ("bin", "+", D("DS_2"), C(1)), True), ("R.parquet", ("bin", "+", D("DS_2"), C(2)), True), ("R", ("bin", "+", D("DS_2"), C(3)), False)], two, {}, "vtl"
    sc = {"sc_i": 3, "sc_n": 2.5, "sc_s": 'q,"r"'}
    yield "scalars", "scalar results only", [("x", ("bin", "+", C(1), C(2)), True), ("y", ("bin", "||", C("a,b"), C('"c"')), True),
                                             ("z", C(N), True), ("w", ("bin", "*", C(1.5), C(2)), False), ("b", ("bin", "and", C(True), C(False)), True)], [T["DS_2"]], {}, "vtl"
    yield "scalars", "scalars and datasets", [("R", ("bin", "*", D("DS_2"), ("sc", "sc_n")), True), ("x", ("bin", "+", ("sc", "sc_i"), C(10)), True),
                                              ("s", ("bin", "||", ("sc", "sc_s"), C("!")), True), ("t", ("bin", "/", ("sc", "sc_n"), C(3)), False)], [NUM], sc, "vtl"
    yield "scalars", "temporary scalar, persistent dataset", [("k", ("bin", "+", C(1), C(1)), False), ("R", ("bin", "+", D("DS_2"), C(1)), True)], [NUM], {}, "vtl"


def family_programs(rng: random.Random, per_family: int) -> Iterator[Prog]:
    from _e2echeck import show_ir
    for fam, gen in PG.FAMILIES.items():
        progs = list(gen(random.Random(0), False))
        rng.shuffle(progs)
        for label, stmts, tables, scalars in progs[:per_family]:
            text = "; ".join(f"{n} <- {show_ir(t)}" for n, t, _p in stmts)
            tabs = [t for t in tables if t.name in text] or list(tables)
            yield f"family-{fam}", label, stmts, tabs, scalars, "vtl"


# ---------------------------------------------------------------------------------------------------------------------
# running and reading back
# ---------------------------------------------------------------------------------------------------------------------
def engine(stmts: Sequence[Tuple[str, Any, bool]], tables: Sequence[Table], scalars: Dict[str, Any], rop: bool, rep: str,
           folder: Optional[str], fmt: str) -> Tuple[str, Any]:
    from spec.vtlref import to_ast
    run = P.api_from_ast("run")
    ast = P.start([P.assign(n, to_ast(t), p) for n, t, p in stmts])
    ds = P.structures([t.structure() for t in tables],
                      [{"name": k, "type": "Integer" if isinstance(v, int) else "Number" if isinstance(v, float)
                        else "Boolean" if isinstance(v, bool) else "String"} for k, v in scalars.items()])
    kw: Dict[str, Any] = dict(scalar_values=dict(scalars) or None, return_only_persistent=rop, time_period_output_format=rep)
    if folder is not None:
        kw.update(output_folder=folder, output_format=fmt)
    try:
        return "ok", run(ast, ds, {t.name: t.frame() for t in tables}, **kw)
    except Exception as e:  # noqa: BLE001
        code = e.args[1] if len(getattr(e, "args", ())) > 1 and isinstance(e.args[1], str) else type(e).__name__
        return "error", (code, f"{type(e).__name__}: {str(e)[:140]}")


def parse_csv(text: str) -> List[List[Tuple[str, bool]]]:
    """RFC 4180 reader that remembers whether a field was quoted."""
    rows: List[List[Tuple[str, bool]]] = []
    row: List[Tuple[str, bool]] = []
    field: List[str] = []
    quoted = inq = False
    i, n = 0, len(text)
    pending = False
    while i < n:
        c = text[i]
        if inq:
            if c == '"':
                if text[i + 1:i + 2] == '"':
                    field.append('"')
                    i += 2
                    continue
                inq = False
            else:
                field.append(c)
            i += 1
            continue
        if c == '"' and not field and not quoted:
            inq = quoted = pending = True
        elif c == ",":
            row.append(("".join(field), quoted))
            field, quoted, pending = [], False, True
        elif c in "\r\n":
            if c == "\r" and text[i + 1:i + 2] == "\n":
                i += 1
            row.append(("".join(field), quoted))
            rows.append(row)
            row, field, quoted, pending = [], [], False, False
        else:
            field.append(c)
            pending = True
        i += 1
    if pending or field or row:
        row.append(("".join(field), quoted))
        rows.append(row)
    return rows


def canon(v: Any, ty: str) -> Any:
    """Canonical typed cell; None for NULL."""
    import pandas as pd
    if v is None or (not isinstance(v, (str, bool)) and pd.isna(v)):
        return None
    if hasattr(v, "item"):
        v = v.item()
    if ty == "Boolean":
        if isinstance(v, str):
            return {"true": True, "false": False}.get(v, f"?{v}")
        return bool(v)
    if ty == "Integer":
        try:
            return int(v) if not isinstance(v, float) or v == int(v) else v
        except ValueError:
            return f"?{v}"
    if ty == "Number":
        try:
            x = float(v)
        except ValueError:
            return f"?{v}"
        return 0.0 if x == 0 else x
    return str(v)


def rows_of_frame(df: Any, types: Dict[str, str]) -> List[Tuple[Any, ...]]:
    cols = list(df.columns)
    return sorted((tuple(canon(rec[c], types.get(c, "String")) for c in cols) for rec in df.to_dict("records")), key=repr)


def read_back(path: Path, fmt: str, types: Dict[str, str]) -> Tuple[List[str], List[Tuple[Any, ...]]]:
    if fmt == "parquet":
        import duckdb
        con = duckdb.connect()
        try:
            df = con.execute(f"SELECT * FROM read_parquet('{path}')").fetchdf()
        finally:
            con.close()
        return list(df.columns), rows_of_frame(df, types)
    rows = parse_csv(path.read_text(encoding="utf-8"))
    if not rows:
        return [], []
    header = [t for t, _q in rows[0]]
    out = []
    for r in rows[1:]:
        cells = [None if (t == "" and not q) else t for t, q in r]
        out.append(tuple(canon(v, types.get(c, "String")) for c, v in zip(header, cells)) + tuple(cells[len(header):]))
    return header, sorted(out, key=repr)


def same_rows(a: List[Tuple[Any, ...]], b: List[Tuple[Any, ...]]) -> Optional[str]:
    if len(a) != len(b):
        return f"{len(b)} rows in the file, {len(a)} in memory"
    for ra, rb in zip(a, b):
        if len(ra) != len(rb):
            return f"row widths differ: memory {ra}, file {rb}"
        for x, y in zip(ra, rb):
            if isinstance(x, float) and isinstance(y, float):
                if not (x == y or (math.isnan(x) and math.isnan(y))):
                    return f"memory row {ra} vs file row {rb}"
            elif x != y or type(x) is not type(y) and not (isinstance(x, (int, float)) and isinstance(y, (int, float)) and not isinstance(x, bool)):
                return f"memory row {ra} vs file row {rb}"
    return None


def job(prog: Prog) -> List[Tuple[str, str]]:
    """All comparisons for one program; returns (clause, detail) problems.  Runs in a worker process."""
    _cls, _label, stmts, tables, scalars, rep = prog
    problems: List[Tuple[str, str]] = []
    # return_only_persistent only matters when some statement is not persistent
    for rop in ((True, False) if any(not pers for _n, _t, pers in stmts) else (False,)):
        km, mem = engine(stmts, tables, scalars, rop, rep, None, "csv")
        if km == "error":
            problems.append(("E", f"[return_only_persistent={rop}] the in-memory run raises {mem}"))   # vacuity guard
        for fmt in ("csv", "parquet"):
            d = tempfile.mkdtemp(prefix="c14_out_")
            try:
                kf, fil = engine(stmts, tables, scalars, rop, rep, d, fmt)
                tag = f"[return_only_persistent={rop}, {fmt}]"
                if km != kf:
                    problems.append(("K", f"{tag} in memory -> {km} {mem if km == 'error' else ''}; with folder -> {kf} {fil if kf == 'error' else ''}"))
                    continue
                if km == "error":
                    if mem[0] != fil[0]:
                        problems.append(("K", f"{tag} error in memory {mem}, with folder {fil}"))
                    continue
                if sorted(mem) != sorted(fil):
                    problems.append(("K", f"{tag} returned keys {sorted(fil)} with folder, {sorted(mem)} in memory"))
                    continue
                want_files = set()
                got_scalars = {}
                for n, v in fil.items():
                    if hasattr(v, "components"):
                        want_files.add(f"{n}.{fmt}")
                        if v.data is not None:
                            problems.append(("N", f"{tag} returned dataset {n} carries in-memory data although an output folder is set"))
                    else:
                        got_scalars[n] = v.value
                if got_scalars:
                    want_files.add("_scalars.csv")
                have = {p.name for p in Path(d).iterdir()}
                if have != want_files:
                    problems.append(("F", f"{tag} folder holds {sorted(have)}, expected {sorted(want_files)}"))
                for n, v in fil.items():
                    if not hasattr(v, "components") or f"{n}.{fmt}" not in have:
                        continue
                    m = mem[n]
                    types = {c: _tyname(cc.data_type) for c, cc in v.components.items()}
                    header, frows = read_back(Path(d) / f"{n}.{fmt}", fmt, types)
                    if m.data is None:
                        problems.append(("D", f"{tag} in-memory run returned no data for {n}"))
                        continue
                    if header != list(m.data.columns):
                        problems.append(("D", f"{tag} {n}: file header {header}, in-memory columns {list(m.data.columns)}"))
                        continue
                    dd = same_rows(rows_of_frame(m.data, types), frows)
                    if dd:
                        problems.append(("D", f"{tag} {n}: {dd}"))
                if got_scalars:
                    p = Path(d) / "_scalars.csv"
                    if p.exists():
                        with open(p, newline="", encoding="utf-8") as fh:
                            rows = list(csv.reader(fh))
                        want = [["name", "value"]] + [[n, "" if v is None else str(v)] for n, v in sorted(got_scalars.items())]
                        if rows != want:
                            problems.append(("S", f"{tag} _scalars.csv holds {rows}, returned scalars give {want}"))
                for n, v in got_scalars.items():
                    mv = mem[n].value
                    if not (mv == v or (mv is None and v is None)) or type(mv) is not type(v):
                        problems.append(("S", f"{tag} scalar {n} = {v!r} with folder, {mv!r} in memory"))
            finally:
                shutil.rmtree(d, ignore_errors=True)
    return problems


def _tyname(t: Any) -> str:
    n = getattr(t, "__name__", str(t))
    return {"TimePeriod": "Time_Period", "TimeInterval": "Time"}.get(n, n)


def _worker_init() -> None:
    core.boot(full=True)


def run(chk: Check) -> None:
    core.boot(full=True)
    rng = random.Random(chk.seed)
    thorough = chk.tier == "thorough"
    progs = list(rich_programs()) + list(family_programs(rng, 12 if thorough else 2))
    workers = int(os.environ.get("VERIF_C14_WORKERS", "0")) or min(8, max(2, core.NCPU // 2))
    if workers > 1:
        import multiprocessing as mp
        with mp.get_context("spawn").Pool(processes=workers, initializer=_worker_init) as pool:
            results = pool.map(job, progs, chunksize=1)
    else:
        results = [job(p) for p in progs]
    from _e2echeck import show_ir
    clauses = {"K": "the same results are returned with and without output folder",
               "N": "with an output folder every returned Dataset has no in-memory data",
               "F": "the folder holds exactly <name>.<format> per returned dataset (+ _scalars.csv iff a Scalar is returned)",
               "D": "each file read back holds exactly the in-memory datapoints (header, multiset of rows, typed cell by cell; "
                    "NULL vs empty string kept apart)",
               "S": "_scalars.csv holds exactly (name, '' if None else str(value)) of the returned Scalars, sorted; the returned "
                    "Scalars equal those of the in-memory run"}
    classes = sorted({p[0] for p in progs})
    n_runs = sum(3 * (2 if any(not pers for _n, _t, pers in p[2]) else 1) for p in progs)
    for cls in classes:
        mine = [(p, r) for p, r in zip(progs, results) if p[0] == cls]
        for key, clause in clauses.items():
            ob = chk.ob(f"{RUN}::{cls}::{key}", RUN, f"[{cls}] {clause} ({len(mine)} programs x csv / parquet; both "
                        "return_only_persistent settings for the programs with a non-persistent statement)", bounded=True)
            ob.backend = "bounded-real-engine-files-read-back"
            bad = [(p, d) for p, r in mine for k, d in r if k == key]
            not_run = [(p, d) for p, r in mine for k, d in r if k == "E"]
            compared = len(mine) - len({id(p) for p, _d in not_run})
            if not bad and (compared == 0 or (not_run and not cls.startswith("family-"))):
                # vacuity guard: a hand-written program that does not even run in memory compares nothing
                p, d = not_run[0]
                ob.status, ob.detail = UNDECIDED, f"[{p[1]}] not compared: {d}"
                continue
            if bad:
                p, d = bad[0]
                text = "; ".join(f"{n} {'<-' if pers else ':='} {show_ir(t)}" for n, t, pers in p[2])
                ob.status, ob.detail = REFUTED, f"[{p[1]}] {text}  ==>  {d}"
                ob.witness = {"program": text, "label": p[1], "time_period_output_format": p[5], "problem": d,
                              "tables": {t.name: t.rows[:4] for t in p[3]}, "scalars": p[4]}
                ob.replayed, ob.replay_detail = True, "observed on the real engine (extracted API.run, real DuckDB, files read back): " + d
                ob.finding_key = f"{cls}::{key}::{p[1]}"
            else:
                ob.status, ob.detail = BOUNDED_OK, f"{compared} programs compared ({len(mine) - compared} raise the same VTL error in " \
                                                   "memory and with folder)"
    chk.under_contract(RUN, "bounded")
    chk.extra["bounded"] = {"programs": len(progs), "engine_runs": n_runs, "classes": classes,
                            "extraction_drops": P.EXTRACTION_DROPS}
    chk.assume("BOUNDED tier: enumerated programs over fixed small tables; nothing is proved for other programs or data")
    chk.assume("bounded tier readers: CSV = own RFC-4180 reader (unquoted empty field = NULL, quoted empty field = empty "
               "string); Parquet = DuckDB read_parquet; numbers are compared as IEEE doubles (decimal text -> float)")
