"""C17 — concurrent API calls behave like sequential ones (SUFFICIENT CONDITION only; level `other`).

This technique has no model of threads.  What it decides is the classical sufficient condition for every interleaving
of two API calls to be equivalent to a sequential order: frame contracts over PROCESS-SHARED state.

For each public entry point (run, semantic_analysis, prettify, create_ast, validate_dataset, generate_sdmx, run_sdmx in
API/__init__.py) vc.pyshared computes from the real source, on every run, the transitive WRITE frame and READ frame over
module globals, class attributes, memo tables, os.environ and the C++ parser state, and the set of locks certainly held
at each access (must-hold lockset; dynamic dispatch resolved conservatively, see vc/pyshared.py).

Obligation per shared location L that some entry point may write:
    (L written by a call) /\\ (L read by a possibly concurrent call) /\\ (no lock common to all accesses of L)
        ==>  the value read cannot influence that call's result
The consequent is accepted only for patterns that are checked on the source:
    no-reader          L is never read on a path from any entry point
    common-lock        every access of L holds one common lock (e.g. parser_lock)
    pure-memo          L is the table of functools.lru_cache on a function whose own read frame contains no written
                       location (reads inside exception constructors aside: lru_cache does not memoise raises) and
                       whose callers never mutate the returned object
    stateless-singleton  L caches instances of classes without instance state, created by a metaclass __call__
    per-key            L is a weak container accessed only as `x in L` / `L.add(x)` with x a parameter (cells of different
                       callers' objects are disjoint)
    thread-local       L is a threading.local() / ContextVar
Everything else is a REFUTED obligation (finding key = the location).  Each refuted location that has a scenario is
replayed as a SEQUENTIALISED INTERLEAVING on the real functions (vc.interleave, no threads): call A runs up to the
statement after one of its writes of L, call B runs to completion, A resumes; A's outcome is compared with A alone.
A bounded tier runs the same pairs on two real threads with a microsecond switch interval.
Assumed: the C++ parser and its lock, DuckDB's own thread safety, pandas, CPython's GIL atomicity of single bytecodes.
"""
from __future__ import annotations

import ast as pyast
import copy
import sys
import threading
from pathlib import Path
from typing import Any, Callable, Dict, List, Optional, Sequence, Tuple

sys.path.insert(0, str(Path(__file__).resolve().parent.parent))
from vc import core  # noqa: E402
from vc import pipeline as P  # noqa: E402
from vc.core import BOUNDED_OK, DISCHARGED, REFUTED, UNDECIDED, Check  # noqa: E402
from vc.interleave import interleave  # noqa: E402
from vc.pyshared import CPP, ENV, Access, Program  # noqa: E402

API = "API/__init__.py"
ENTRIES = ["run", "semantic_analysis", "prettify", "create_ast", "validate_dataset", "generate_sdmx", "run_sdmx"]


# ------------------------------------------------------------------------------------------------------------------
# discharge patterns (each one a check on the source, not a belief)
# ------------------------------------------------------------------------------------------------------------------
def is_exception_class(prog: Program, ci: Any) -> bool:
    for c in ci.mro():
        for b in c.base_exprs:
            n = b.id if isinstance(b, pyast.Name) else b.attr if isinstance(b, pyast.Attribute) else ""
            if n in ("Exception", "BaseException") or n.endswith(("Error", "Exception")):
                return True
    return False


def pure_memo(prog: Program, loc: str, written: Sequence[str], all_w: List[Tuple[Access, Any]],
              benign: Sequence[str] = ()) -> Tuple[bool, str]:
    rel, rest = loc.split(":", 1)
    qn = rest[: -len("[lru_cache]")]
    fi = prog.fns.get((rel, qn))
    if fi is None:
        return False, "memoised function not found"
    outside = [a for a, _ in all_w if not (a.fn == fi.key and a.how == "memo insert")]
    if outside:
        return False, f"the memoised object is mutated by a caller: {outside[0].site()}"
    for a, _lk in prog.entry_accesses(fi.key, implicit_roots=True):
        if a.loc == loc or a.loc.endswith("[lru_cache]") or a.loc in benign:
            continue        # other memo tables / locations already shown unobservable have their own obligation
        f2 = prog.fns.get(a.fn)
        in_exc_ctor = f2 is not None and f2.cls is not None and is_exception_class(prog, f2.cls)
        if a.kind == "W":
            return False, f"the memoised function writes shared state: {a.site()}"
        if a.loc in written and not in_exc_ctor:
            return False, f"the memoised function reads a location some call writes ({a.loc}) at {a.site()}"
    return True, "memoised function reads no written location and writes nothing; callers do not mutate its results"


def stateless_singleton(prog: Program, loc: str, all_w: List[Tuple[Access, Any]]) -> Tuple[bool, str]:
    metas = set()
    for a, _ in all_w:
        fi = prog.fns.get(a.fn)
        if fi is None or fi.cls is None or fi.qualname.split(".")[-1] != "__call__" or \
                not any(isinstance(b, pyast.Name) and b.id == "type" for b in fi.cls.base_exprs):
            return False, f"written outside a metaclass __call__: {a.site()}"
        metas.add((fi.cls.rel, fi.cls.name))
        # the write must be guarded by a membership test on the same container in the same function
        src = pyast.unparse(fi.node)
        if "not in" not in src:
            return False, "instance creation is not guarded by a membership test"
    users = [c for c in prog.classes.values() if c.metaclass is not None and (c.metaclass.rel, c.metaclass.name) in metas]
    if not users:
        return False, "no class uses the metaclass"
    for c in users:
        prog.is_instance_attr(c, "")
        inst = prog.__dict__["_inst_attrs"][(c.rel, c.name)]
        if inst:
            return False, f"singleton class {c.name} has instance state {sorted(inst)}"
        for m in c.methods.values():
            if m.qualname.split(".")[-1] == "__init__" and len(m.node.args.args) > 1:  # type: ignore[attr-defined]
                return False, f"singleton class {c.name} is constructed from arguments"
    return True, f"only instances of stateless classes {[c.name for c in users]} are cached; which thread creates them is unobservable"


def per_key_weak(prog: Program, loc: str, allacc: List[Tuple[Access, Any]]) -> Tuple[bool, str]:
    init = prog.data_init.get(loc)
    if not (isinstance(init, pyast.Call) and pyast.unparse(init.func).split(".")[-1] in ("WeakSet", "WeakKeyDictionary")):
        return False, ""
    name = loc.split(":")[-1]
    keys = set()
    for a, _ in allacc:
        fi = prog.fns.get(a.fn)
        if fi is None:
            return False, ""
        params = {x.arg for x in fi.node.args.args}  # type: ignore[attr-defined]
        for n in pyast.walk(fi.node):
            if isinstance(n, pyast.Name) and n.id == name:
                par = getattr(n, "_parent", None)
                ok = False
                if isinstance(par, pyast.Compare) and len(par.ops) == 1 and isinstance(par.ops[0], (pyast.In, pyast.NotIn)) \
                        and isinstance(par.left, pyast.Name) and par.left.id in params:
                    ok = True
                    keys.add(par.left.id)
                if isinstance(par, pyast.Attribute) and par.attr in ("add", "discard"):
                    call = getattr(par, "_parent", None)
                    if isinstance(call, pyast.Call) and len(call.args) == 1 and isinstance(call.args[0], pyast.Name) \
                            and call.args[0].id in params:
                        ok = True
                        keys.add(call.args[0].id)
                if not ok:
                    return False, f"{name} is used other than per key at {fi.rel}:{n.lineno}"
    return True, f"weak container accessed only per key ({sorted(keys)} = the caller's own object); cells of different calls are disjoint"


# ------------------------------------------------------------------------------------------------------------------
# scenarios: hand-built scripts exercising one shared location each
# ------------------------------------------------------------------------------------------------------------------
def ds(name: str, ids: Sequence[Tuple[str, str]] = (("Id_1", "Integer"),), meas: Sequence[Tuple[str, str]] = (("Me_1", "Number"),),
       attrs: Sequence[Tuple[str, str, str]] = ()) -> Dict[str, Any]:
    comps = [{"name": n, "type": t, "role": "Identifier", "nullable": False} for n, t in ids]
    comps += [{"name": n, "type": t, "role": "Measure", "nullable": True} for n, t in meas]
    comps += [{"name": n, "type": t, "role": r, "nullable": True} for n, t, r in attrs]
    return {"name": name, "DataStructure": comps}


def canon(kind: str, value: Any) -> Any:
    if kind == "error":
        return ["error", type(value).__name__, str(value)[:400]]
    out: Dict[str, Any] = {}
    for k, v in (value or {}).items():
        if hasattr(v, "components"):
            out[k] = [[c.name, c.data_type.__name__, c.role.value, c.nullable] for c in v.components.values()]
        else:
            out[k] = ["scalar", getattr(getattr(v, "data_type", None), "__name__", str(type(v).__name__))]
    return ["ok", out]


def call(fn: Callable[[], Any]) -> Any:
    try:
        return canon("ok", fn())
    except Exception as e:  # noqa: BLE001
        return canon("error", e)


class Scenario:
    def __init__(self, loc: str, label: str, structs: Dict[str, Any], a: Any, b: Any, neutral: Any) -> None:
        self.loc, self.label, self.structs, self.a, self.b, self.neutral = loc, label, structs, a, b, neutral
        self.sem = P.api_from_ast("semantic_analysis")

    def run_a(self) -> Any:
        return self.sem(copy.deepcopy(self.a), copy.deepcopy(self.structs))

    def run_b(self) -> Any:
        return self.sem(copy.deepcopy(self.b), copy.deepcopy(self.structs))

    def settle(self) -> None:
        """A neutral successful call first, so that no trial starts from the debris of the previous one."""
        try:
            self.sem(copy.deepcopy(self.neutral), copy.deepcopy(self.structs))
        except Exception:  # noqa: BLE001
            pass


def scenarios() -> List[Scenario]:
    core.boot(full=True)
    import importlib
    A = importlib.import_module("vtlengine.AST")
    KW = P.KW
    V = P.var

    def C(v: Any, t: str = "INTEGER_CONSTANT") -> Any:
        return A.Constant(type_=t, value=v, **KW)

    def neutral(name: str) -> Any:
        return P.start([P.assign("DS_n", P.binop(V(name), "+", V(name)), True)])
    out: List[Scenario] = []
    # viral propagation registry
    def vp(name: str, target: str, res: str) -> Any:
        return A.ViralPropagationDef(name=name, signature_type="variable", target=target, enumerated_clauses=[
            A.EnumeratedVpClause(name=None, values=["C", "N"], result=res, **KW)], aggregate_clause=None, default_value="N", **KW)
    sv = P.structures([ds("DS_1", attrs=(("At_1", "String", "ViralAttribute"),)),
                       ds("DS_2", attrs=(("At_1", "String", "ViralAttribute"),)), ds("DS_3")])
    out.append(Scenario("ViralPropagation/__init__.py:_current_registry",
                        "A: define viral propagation vpA(At_1); DS_r <- DS_1 + DS_2 (viral At_1)  ||  B: DS_q <- DS_3 + DS_3",
                        sv, P.start([vp("vpA", "At_1", "C"), P.assign("DS_r", P.binop(V("DS_1"), "+", V("DS_2")), True)]),
                        P.start([P.assign("DS_q", P.binop(V("DS_3"), "+", V("DS_3")), True)]), neutral("DS_3")))
    # Round / Trunc: cls.return_type
    s2 = P.structures([ds("DS_1"), ds("DS_2")])
    out.append(Scenario("Operators/__init__.py:Operator.return_type",
                        "A: DS_r <- round(DS_1)  ||  B: DS_q <- round(DS_2, 2)", s2,
                        P.start([P.assign("DS_r", A.ParamOp(op="round", children=[V("DS_1")], params=[], **KW), True)]),
                        P.start([P.assign("DS_q", A.ParamOp(op="round", children=[V("DS_2")], params=[C(2)], **KW), True)]),
                        neutral("DS_1")))
    # Exceptions.dataset_output
    out.append(Scenario("Exceptions/__init__.py:dataset_output",
                        "A: DS_r <- DS_1 + DS_9 (DS_9 undefined: semantic error naming DS_r)  ||  B: DS_q <- DS_2 + DS_2", s2,
                        P.start([P.assign("DS_r", P.binop(V("DS_1"), "+", V("DS_9")), True)]),
                        P.start([P.assign("DS_q", P.binop(V("DS_2"), "+", V("DS_2")), True)]), neutral("DS_1")))
    # Join.reference_dataset
    def join(names: Sequence[str]) -> Any:
        return A.JoinOp(op="inner_join", clauses=[V(n) for n in names], using=None, **KW)
    sj = P.structures([ds("DS_1", ids=(("Id_1", "Integer"), ("Id_2", "Integer"))), ds("DS_2", meas=(("Me_2", "Number"),)),
                       ds("DS_3", ids=(("Id_3", "Integer"), ("Id_4", "Integer")), meas=(("Me_3", "Number"),)),
                       ds("DS_4", ids=(("Id_3", "Integer"),), meas=(("Me_4", "Number"),))])
    out.append(Scenario("Operators/Join.py:Join.reference_dataset",
                        "A: DS_r <- inner_join(DS_1, DS_2)  ||  B: DS_q <- inner_join(DS_3, DS_4)", sj,
                        P.start([P.assign("DS_r", join(["DS_1", "DS_2"]), True)]),
                        P.start([P.assign("DS_q", join(["DS_3", "DS_4"]), True)]), neutral("DS_2")))
    # VirtualCounter.dataset_count
    s3 = P.structures([ds("DS_1"), ds("DS_2"), ds("DS_3")])
    inner = P.binop(P.binop(V("DS_1"), "+", V("DS_2")), "+", V("DS_3"))
    out.append(Scenario("Utils/__Virtual_Assets.py:VirtualCounter.dataset_count",
                        "A: DS_r <- (DS_1 + DS_2 + DS_3)#Me_9 (error names the intermediate dataset)  ||  B: DS_q <- DS_1 + DS_2", s3,
                        P.start([P.assign("DS_r", A.BinOp(left=inner, op="#", right=A.Identifier(value="Me_9", kind="ComponentID", **KW),
                                                          **KW), True)]),
                        P.start([P.assign("DS_q", P.binop(V("DS_1"), "+", V("DS_2")), True)]), neutral("DS_1")))
    # Analytic.return_integer
    def an(n: str) -> Any:
        return A.Analytic(op="sum", operand=V(n), window=None, params=None, partition_by=["Id_1"], partition_op="by",
                          order_by=None, **KW)
    sa = P.structures([ds("DS_1", ids=(("Id_1", "Integer"), ("Id_2", "Integer")), meas=(("Me_1", "Integer"),)),
                       ds("DS_2", ids=(("Id_1", "Integer"), ("Id_2", "Integer")), meas=(("Me_1", "Number"),))])
    out.append(Scenario("Operators/Analytic.py:Analytic.return_integer",
                        "A: DS_r <- sum(DS_1 over (partition by Id_1)) Integer measure  ||  B: the same on a Number measure", sa,
                        P.start([P.assign("DS_r", an("DS_1"), True)]), P.start([P.assign("DS_q", an("DS_2"), True)]), neutral("DS_1")))
    # Fill_time_series.time_id
    def fts(n: str) -> Any:
        return A.ParamOp(op="fill_time_series", children=[V(n)], params=[], **KW)
    st = P.structures([ds("DS_t", ids=(("Id_1", "Integer"), ("Id_t", "Date"))), ds("DS_u", ids=(("Id_x", "Date"),)), ds("DS_1")])
    out.append(Scenario("Operators/Time.py:Fill_time_series.time_id",
                        "A: DS_r <- fill_time_series(DS_t)  ||  B: DS_q <- fill_time_series(DS_u) (other time identifier)", st,
                        P.start([P.assign("DS_r", fts("DS_t"), True)]), P.start([P.assign("DS_q", fts("DS_u"), True)]), neutral("DS_1")))
    return out


def replay_location(sc: Scenario, sites: List[Tuple[str, int]], max_trials: int = 14) -> Tuple[Optional[bool], str, Any]:
    sc.settle()
    solo1 = call(sc.run_a)
    sc.settle()
    solo2 = call(sc.run_a)
    if solo1 != solo2:
        return None, f"scenario unusable: A alone is not repeatable ({solo1} vs {solo2})", None
    trials = 0
    tried: List[str] = []
    for rel, line in sites:
        for occ in (1, 2, 3):
            if trials >= max_trials:
                break
            trials += 1
            sc.settle()
            r = interleave(sc.run_a, sc.run_b, rel, line, occ)
            if not r["switched"]:
                break
            got = canon(*r["a"])
            tried.append(f"{rel}:{line}#{occ}")
            if got != solo1:
                sc.settle()
                return True, (f"{sc.label}.  Schedule: A runs until the statement at {rel}:{r['statement'][0]} (execution #{occ}) has "
                              f"completed, B runs to completion, A resumes.  A alone -> {solo1}; A interleaved -> {got}"), \
                    {"scenario": sc.label, "switch_after": f"{rel}:{line}", "occurrence": occ, "A_alone": solo1, "A_interleaved": got,
                     "B": canon(*r["b"]) if r["b"] else None}
    sc.settle()
    return None, (f"{sc.label}: no schedule of the form 'A pre-empted after a write, B runs completely' changed A's outcome "
                  f"(tried {tried or 'no reachable write site'})"), None


def thread_stress(sc: Scenario, iters: int) -> Tuple[int, int, str]:
    """Two real threads, microsecond switch interval.  Returns (#A mismatches, #B mismatches, sample)."""
    sc.settle()
    solo_a = call(sc.run_a)
    sc.settle()
    solo_b = call(sc.run_b)
    sc.settle()
    res: Dict[str, List[Any]] = {"a": [], "b": []}
    start = threading.Barrier(2)

    def worker(which: str, fn: Callable[[], Any]) -> None:
        start.wait()
        for _ in range(iters):
            sc.settle()       # a neutral successful call in the same thread: only CONCURRENT effects are compared here,
            res[which].append(call(fn))   # not the (sequential) debris a failed call leaves for the next one
    old = sys.getswitchinterval()
    sys.setswitchinterval(1e-6)
    try:
        ta = threading.Thread(target=worker, args=("a", sc.run_a))
        tb = threading.Thread(target=worker, args=("b", sc.run_b))
        ta.start()
        tb.start()
        ta.join()
        tb.join()
    finally:
        sys.setswitchinterval(old)
    bad_a = [x for x in res["a"] if x != solo_a]
    bad_b = [x for x in res["b"] if x != solo_b]
    sc.settle()
    sample = f"A alone {solo_a} vs under contention {bad_a[0]}" if bad_a else \
        (f"B alone {solo_b} vs under contention {bad_b[0]}" if bad_b else "")
    return len(bad_a), len(bad_b), sample


# ------------------------------------------------------------------------------------------------------------------
def main() -> None:  # noqa: C901
    chk = Check("C17", "other", "sufficient condition for interleaving-independence decided by frame contracts: transitive "
                "write / read frames of every public API entry over process-shared state and must-hold locksets, computed from "
                "the real source (vc.pyshared); every location that fails the condition is replayed as a sequentialised "
                "interleaving of two real calls (vc.interleave); bounded two-thread stress tier. Thread interleavings "
                "themselves are not explored", min_obligations=20)
    thorough = chk.tier == "thorough"
    prog = Program()
    W: Dict[str, Dict[str, List[Tuple[Access, Any]]]] = {}
    R: Dict[str, Dict[str, List[Tuple[Access, Any]]]] = {}
    frames: Dict[str, Dict[str, Any]] = {}
    for e in ENTRIES:
        f = f"src/vtlengine/{API}:{e}"
        ob = chk.ob(f"{f}::shared-frame-computed", f, "entry point present; its transitive read / write frame over process-shared "
                    "state is computed (call graph non-empty)")
        ob.backend = "pyshared"
        if (API, e) not in prog.fns:
            ob.status, ob.detail = UNDECIDED, "entry point not found in API/__init__.py"
            continue
        chk.under_contract(f)
        accs = prog.entry_accesses((API, e))
        reach = prog.reach((API, e))
        for a, lk in accs:
            (W if a.kind == "W" else R).setdefault(a.loc, {}).setdefault(e, []).append((a, lk))
        frames[e] = {"functions_reachable": len(reach),
                     "writes": sorted({a.loc for a, _ in accs if a.kind == "W"}),
                     "reads_of_written_state": []}
        ob.status = DISCHARGED if len(reach) > 1 or e == "validate_dataset" else UNDECIDED
        ob.detail = f"{len(reach)} functions in the call closure, {len(frames[e]['writes'])} shared locations in the write frame"
    written = sorted(W)
    for e in frames:
        frames[e]["reads_of_written_state"] = sorted(loc for loc in written if e in R.get(loc, {}))

    scs: Dict[str, Scenario] = {}
    try:
        for sc in scenarios():
            scs[sc.loc] = sc
    except Exception as ex:  # noqa: BLE001
        chk.notes.append(f"scenario library unavailable: {type(ex).__name__}: {ex}")

    # ---- one obligation per written shared location ----------------------------------------------------------------
    refuted_locs: List[str] = []
    classification: Dict[str, str] = {}
    # memo tables last: their purity argument may rely on locations already shown unobservable
    benign: List[str] = []
    for loc in sorted(written, key=lambda x: (x.endswith("[lru_cache]"), x)):
        ws = [x for v in W[loc].values() for x in v]
        rs = [x for v in R.get(loc, {}).values() for x in v]
        allacc = ws + rs
        fn_label = "src/vtlengine/" + loc if not loc.startswith(("cpp:", "os.")) else loc
        ob = chk.ob(f"{loc}::interleaving-independent", fn_label,
                    "written by some API call and read by a possibly concurrent one without a common lock ==> the value read "
                    "cannot influence that call's result (accepted patterns: no reader, common lock, pure memo, stateless "
                    "singleton, per-key weak container, thread-local)")
        ob.backend = "pyshared"
        w_entries, r_entries = sorted(W[loc]), sorted(R.get(loc, {}))
        w_sites = sorted({a.site() for a, _ in ws})
        r_sites = sorted({a.site() for a, _ in rs})
        common = frozenset.intersection(*[lk for _, lk in allacc]) if allacc else frozenset()
        why = ""
        if not rs:
            why = "no-reader: written at " + "; ".join(w_sites[:2]) + " but never read on a path from any entry point"
        elif common:
            why = f"common-lock: all {len(allacc)} accesses hold {sorted(common)}"
        elif loc.endswith("[lru_cache]"):
            ok, msg = pure_memo(prog, loc, written, ws, benign)
            why = "pure-memo: " + msg if ok else ""
            fail = msg if not ok else ""
        else:
            ok, msg = stateless_singleton(prog, loc, ws)
            if ok:
                why = "stateless-singleton: " + msg
            else:
                ok2, msg2 = per_key_weak(prog, loc, allacc)
                if ok2:
                    why = "per-key: " + msg2
        if why:
            ob.status, ob.detail = DISCHARGED, why
            classification[loc] = why.split(":")[0]
            if classification[loc] in ("stateless-singleton", "no-reader"):
                benign.append(loc)
            continue
        classification[loc] = "refuted"
        refuted_locs.append(loc)
        ob.status = REFUTED
        ob.finding_key = loc
        unl_w = sorted({a.site() for a, lk in ws if not lk})
        unl_r = sorted({a.site() for a, lk in rs if not lk})
        ob.detail = (f"written by {w_entries} at {unl_w[:3] or w_sites[:3]}; read by {r_entries} at {(unl_r or r_sites)[:3]}; no lock is "
                     f"common to all accesses" + (f"; memo not pure: {fail}" if loc.endswith("[lru_cache]") else ""))
        wa = next((a for a, lk in ws if not lk), ws[0][0])
        ra = next((a for a, lk in rs if not lk), rs[0][0])
        chain_w = prog.call_chain((API, w_entries[0]), wa.fn)
        chain_r = prog.call_chain((API, r_entries[0]), ra.fn)
        ob.witness = {"location": loc, "write": wa.site(), "write_chain": chain_w[:8], "read": ra.site(), "read_chain": chain_r[:8],
                      "writers": w_entries, "readers": r_entries}
        sc = scs.get(loc)
        if sc is None:
            ob.replayed, ob.replay_detail = None, "no interleaving scenario exists for this location (static refutation only)"
        else:
            sites = []
            for a, _ in ws:
                if (a.fn[0], a.line) not in sites:
                    sites.append((a.fn[0], a.line))
            try:
                ob.replayed, ob.replay_detail, wit = replay_location(sc, sites)
                if wit is not None:
                    ob.witness.update(wit)
            except Exception as ex:  # noqa: BLE001
                ob.replayed, ob.replay_detail = None, f"replay harness error: {type(ex).__name__}: {ex}"

    # ---- per-entry frames with the receiver-class-sensitive call graph (reporting precision only) ---------------------------
    refined: Dict[str, Any] = {}
    for e in ENTRIES:
        if (API, e) not in prog.fns:
            continue
        try:
            accs = prog.entry_accesses_refined((API, e))
        except Exception as ex:  # noqa: BLE001
            refined[e] = {"error": f"{type(ex).__name__}: {ex}"}
            continue
        w = sorted({a.loc for a, _ in accs if a.kind == "W"})
        r = sorted({a.loc for a, _ in accs if a.kind == "R" and a.loc in written})
        refined[e] = {"writes": w, "reads_of_written_state": r,
                      "refuted_locations_written": [x for x in w if x in refuted_locs],
                      "refuted_locations_read": [x for x in r if x in refuted_locs]}

    # ---- global obligations ---------------------------------------------------------------------------------------------
    ob = chk.ob("os.environ::never-written", "os.environ", "no API call writes the process environment (a reader in another "
                "thread would see the change)")
    ob.backend = "pyshared"
    if ENV in W:
        ob.status, ob.finding_key = REFUTED, ENV
        ob.detail = "; ".join(sorted({a.site() for v in W[ENV].values() for a, _ in v})[:3])
        ob.witness = {"location": ENV}
    else:
        ob.status, ob.detail = DISCHARGED, f"read by {sorted(R.get(ENV, {}))}, written by none"
    ob = chk.ob("cpp:g_state::present", CPP, "the parse-tree state of the C++ parser is seen by the analysis (vacuity guard for "
                "the parser_lock clause)")
    ob.backend = "pyshared"
    n_cpp = sum(len(v) for v in R.get(CPP, {}).values())
    ob.status = DISCHARGED if CPP in W and n_cpp > 50 else UNDECIDED
    ob.detail = f"{n_cpp} reads (ParseNode traversals) and {sum(len(v) for v in W.get(CPP, {}).values())} parse() calls found"
    ob = chk.ob("call-graph::dynamic-calls-resolved", "src/vtlengine", "every getattr(<obj>, <non-constant>) whose result is "
                "called is a self-dispatch resolved to the union of the hierarchy's methods")
    ob.backend = "pyshared"
    called = [c for c in prog.caveats if "CALLED" in c]
    ob.status, ob.detail = (UNDECIDED, "; ".join(called[:3])) if called else (DISCHARGED, f"{len(prog.caveats)} data-only getattr sites")

    ob = chk.ob("defaults::no-mutable-default-arguments", "src/vtlengine", "no function has a mutable default argument (a dict / "
                "list / set / call evaluated once at definition time is process-shared state the frame analysis does not model)")
    ob.backend = "pyshared"
    mutable_defaults = []
    for fi in prog.fns.values():
        a = fi.node.args  # type: ignore[attr-defined]
        for d in list(a.defaults) + [k for k in a.kw_defaults if k is not None]:
            if isinstance(d, (pyast.Dict, pyast.List, pyast.Set, pyast.ListComp, pyast.DictComp, pyast.SetComp)) or (
                    isinstance(d, pyast.Call) and pyast.unparse(d.func).split(".")[-1] in
                    ("dict", "list", "set", "defaultdict", "OrderedDict", "deque", "Counter")):
                mutable_defaults.append(f"{fi.rel}:{d.lineno} in {fi.qualname}")
    ob.status, ob.detail = (UNDECIDED, "; ".join(mutable_defaults[:4])) if mutable_defaults else \
        (DISCHARGED, f"{len(prog.fns)} functions scanned")

    # ---- bounded tier: two real threads ---------------------------------------------------------------------------------
    iters = 300 if thorough else 40
    for loc, sc in scs.items():
        ob = chk.ob(f"{loc}::two-threads", "src/vtlengine/" + loc, f"two threads (switch interval 1e-6 s) running {sc.label} "
                    f"{iters} times each: every outcome equals the solo outcome", bounded=True)
        ob.backend = "threads"
        try:
            na, nb, sample = thread_stress(sc, iters)
        except Exception as ex:  # noqa: BLE001
            ob.status, ob.detail = UNDECIDED, f"harness error {type(ex).__name__}: {ex}"
            continue
        if na or nb:
            if loc in refuted_locs:
                ob.status = BOUNDED_OK
                ob.detail = (f"{na}+{nb} of {2 * iters} outcomes differ from the solo outcomes - attributed to the refuted frame "
                             f"obligation of {loc} (reported there): {sample[:300]}")
            else:
                ob.status, ob.detail = REFUTED, f"{na}+{nb} of {2 * iters} outcomes differ: {sample[:300]}"
                ob.replayed, ob.replay_detail, ob.finding_key = True, ob.detail, loc
                ob.witness = {"location": loc, "scenario": sc.label, "sample": sample}
        else:
            ob.status, ob.detail = BOUNDED_OK, "no outcome differed (a race window may simply not have been hit)"

    chk.extra.update({"entry_frames": frames, "entry_frames_receiver_class_sensitive": refined,
                      "shared_locations_written": len(written), "classification": classification,
                      "refuted_locations": refuted_locs, "functions_analysed": len(prog.fns), "classes_analysed": len(prog.classes),
                      "unresolved_dynamic_reads": prog.caveats, "scenarios": {k: v.label for k, v in scs.items()},
                      "exhaustive": False})
    chk.notes.append("the location obligations are decided on the COARSE call graph (method calls on receivers of unknown class go "
                     "to every method of that name in the tree, so e.g. create_ast appears to reach the Interpreter through "
                     "NodeVisitor.visit); `entry_frames_receiver_class_sensitive` reports the per-entry frames on a finer graph "
                     "(receiver class known from C(...) / cls() / an annotated parameter / self) - there create_ast, prettify, "
                     "generate_sdmx and validate_dataset WRITE only locations that are discharged; they still READ "
                     "Exceptions.dataset_output whenever they raise a VTL error")
    chk.notes.append("common-lock only gives atomicity: AST/ASTDataExchange.py:de_ruleset_elements is protected by parser_lock but "
                     "is never cleared, so a ruleset element recorded while parsing one script can still be picked up while "
                     "parsing a later one (check_hierarchy without `rule`); not replayable without the compiled parser")
    chk.notes.append("a refuted location whose replay is `None` fails the sufficient condition but no schedule 'A pre-empted "
                     "after a write, B runs completely' was found that changes an API result; it is reported, not proved harmful")
    chk.assume("the C++ parser state and parser_lock (threading.RLock) behave as documented; DuckDB connections are not shared "
               "between API calls (each run opens its own, C16) and DuckDB / pandas are thread safe for disjoint objects")
    chk.assume("functools.lru_cache is thread safe; single bytecodes are atomic under the GIL; imports have completed before "
               "the first concurrent call (module-level initialisation is not analysed)")
    chk.assume("objects reach functions through parameters only as the caller's own objects: an alias of a shared object passed as "
               "an ARGUMENT is tracked in the callee only through the by-name rules; parameter annotations naming only external "
               "classes are truthful (attribute reads through them are not reads of the tree's class attributes)")
    chk.assume("os.environ is not changed by the embedding application while calls are running")
    chk.trust("vc.pyshared (name resolution, class-hierarchy analysis by method name, must-hold locksets); vc.interleave "
              "(sys.settrace-driven schedule)")
    chk.finish()


if __name__ == "__main__":
    core.main_guard("C17", main)
