"""C30 — numeric precision settings are validated and applied as documented.

Functions under contract (real source, re-read every run; symbolic execution by vc.pyvc, VCs to z3/cvc5):
  duckdb_transpiler/Config/config.py: set_decimal_config, get_decimal_type, get_decimal_config
  duckdb_transpiler/io/_validation.py: get_column_sql_type / get_csv_read_type (Number columns use get_decimal_type)

Contract of set_decimal_config (postcondition taken from the property + docs/environment_variables.rst, whose
ranges are parsed on every run):
    let w = int(env[WIDTH]) if WIDTH set else 28 ; s = int(env[SCALE]) if SCALE set else 10      (documented defaults)
    valid(w) := w = -1 \\/ wmin <= w <= wmax          valid(s) := s = -1 \\/ smin <= s <= smax
    raises RunTimeError code 0-4-1-1  <=>  not (valid(w) /\\ valid(s))
    returns => DECIMAL_WIDTH' = (w = -1 ? wmax : w) /\\ DECIMAL_SCALE' = (s = -1 ? smax : s)
    raises  => DECIMAL_WIDTH' = DECIMAL_WIDTH /\\ DECIMAL_SCALE' = DECIMAL_SCALE   (a rejected setting leaves no trace)
for ALL integers w, s (not just -5..45) and ALL pre-states of the two module globals (history independence).
"""
from __future__ import annotations

import os
import re
import sys
from pathlib import Path
from typing import Any, Dict, Optional, Tuple

sys.path.insert(0, str(Path(__file__).resolve().parent.parent))
from vc import core, smt  # noqa: E402
from vc.core import Check, REPO  # noqa: E402
from vc.pycheck import cover, discharge  # noqa: E402
from vc.pyvc import ClassV, Engine, ObjV, PathResult  # noqa: E402
from vc.smt import And, Eq, Ge, Iff, Implies, Ite, Le, Not, Or, T  # noqa: E402

REL = "duckdb_transpiler/Config/config.py"
WVAR, SVAR = "VTL_DUCKDB_DECIMAL_WIDTH", "OUTPUT_NUMBER_SIGNIFICANT_DIGITS"


def documented_ranges() -> Dict[str, Tuple[int, int, int]]:
    """(min, max, default) per variable from docs/environment_variables.rst (list-table rows)."""
    txt = (REPO / "docs" / "environment_variables.rst").read_text()
    out = {}
    for var in (WVAR, SVAR):
        m = re.search(r"^``" + var + r"``\n=+\n(.*?)(?=^``[A-Z_]+``\n=+|\Z)", txt, re.S | re.M)
        assert m, f"section {var} not found in docs"
        sec = m.group(1)
        r = re.search(r"\* - ``(\d+)`` to ``(\d+)``", sec)
        assert r, f"range row of {var} not found"
        if var == WVAR:
            d = re.search(r"default value of \*\*(\d+)\*\*", sec)
        else:
            d = re.search(r"\*\*(\d+)\*\* \(DuckDB\)", sec)
        assert d, f"default of {var} not found"
        assert re.search(r"\* - ``-1``", sec), f"-1 row of {var} not found"
        out[var] = (int(r.group(1)), int(r.group(2)), int(d.group(1)))
    return out


def main() -> None:
    chk = Check("C30", "proof", "symbolic execution of the real set_decimal_config/get_decimal_type over symbolic "
                "environment strings and symbolic pre-state globals; per-path VCs against the documented ranges "
                "discharged by z3 (cvc5 takes unknowns); counter-models replayed natively", min_obligations=8)
    rng = documented_ranges()
    (wmin, wmax, wdef), (smin, smax, sdef) = rng[WVAR], rng[SVAR]
    eng = Engine()
    f = f"src/vtlengine/{REL}:set_decimal_config"
    chk.under_contract(f)
    fn = eng.func(REL, "set_decimal_config")
    gw0, gs0 = eng.sym_int("pre.DECIMAL_WIDTH"), eng.sym_int("pre.DECIMAL_SCALE")
    paths = eng.explore(fn, gpre={(REL, "DECIMAL_WIDTH"): gw0, (REL, "DECIMAL_SCALE"): gs0})
    d = eng.decls
    wset, wval = d.const(f"env.{WVAR}.set", smt.BOOL), d.const(f"env.{WVAR}.value", smt.STR)
    sset, sval = d.const(f"env.{SVAR}.set", smt.BOOL), d.const(f"env.{SVAR}.value", smt.STR)
    d.fun("py.int_ok", (smt.STR,), smt.BOOL)
    d.fun("py.int_val", (smt.STR,), smt.INT)
    w_in, s_in = eng.sym_int("w"), eng.sym_int("s")
    # precondition: a set variable holds the text of an integer (the property quantifies over integer settings)
    pre = [Implies(wset, And(T(smt.BOOL, f"(py.int_ok {wval.sx})"), Eq(T(smt.INT, f"(py.int_val {wval.sx})"), w_in))),
           Implies(Not(wset), Eq(w_in, wdef)),
           Implies(sset, And(T(smt.BOOL, f"(py.int_ok {sval.sx})"), Eq(T(smt.INT, f"(py.int_val {sval.sx})"), s_in))),
           Implies(Not(sset), Eq(s_in, sdef))]
    valid_w = Or(Eq(w_in, -1), And(Ge(w_in, wmin), Le(w_in, wmax)))
    valid_s = Or(Eq(s_in, -1), And(Ge(s_in, smin), Le(s_in, smax)))
    eff_w, eff_s = Ite(Eq(w_in, -1), wmax, w_in), Ite(Eq(s_in, -1), smax, s_in)
    mv = ["w", "s", wset.sx, sset.sx, "pre.DECIMAL_WIDTH", "pre.DECIMAL_SCALE"]

    def is_cfg_error(p: PathResult) -> Any:
        if p.kind != "raise":
            return False
        e = p.value
        return isinstance(e, ObjV) and isinstance(e.cls, ClassV) and e.cls.name == "RunTimeError" and \
            (e.kwargs.get("code") == "0-4-1-1" or (e.args and e.args[0] == "0-4-1-1"))

    def replay(model: Dict[str, str], p: PathResult) -> Tuple[Optional[bool], str, Any]:
        w, s = core.smt_int(model["w"]), core.smt_int(model["s"])
        ws, ss = core.smt_bool(model[wset.sx]), core.smt_bool(model[sset.sx])
        g0 = (core.smt_int(model["pre.DECIMAL_WIDTH"]), core.smt_int(model["pre.DECIMAL_SCALE"]))
        return native_replay(w if ws else None, s if ss else None, g0, (wmin, wmax, wdef), (smin, smax, sdef))

    def fkey(model: Dict[str, str], p: PathResult) -> str:
        return "set_decimal_config::" + ("env-set" if core.smt_bool(model[wset.sx]) or core.smt_bool(model[sset.sx])
                                           else "env-unset")

    cover(chk, eng, f, "pre", pre, "integer-valued environment settings")
    discharge(chk, eng, f, "rejects-iff-out-of-range",
              f"raises RunTimeError 0-4-1-1  <=>  width not in {{-1}} U [{wmin},{wmax}] or scale not in {{-1}} U "
              f"[{smin},{smax}] (defaults {wdef}/{sdef} when unset), for all integers and all pre-states",
              paths, pre, lambda p: Iff(is_cfg_error(p), Not(And(valid_w, valid_s))) if p.kind in ("raise", "return")
              else False, mv, replay, fkey)
    discharge(chk, eng, f, "no-other-exception",
              "no exception other than RunTimeError 0-4-1-1 escapes for integer-valued settings",
              paths, pre, lambda p: p.kind == "return" or is_cfg_error(p), mv, replay, fkey,
              include_site_obligations=False)
    discharge(chk, eng, f, "accepted-setting-is-stored",
              f"returns => DECIMAL_WIDTH' = (w=-1 ? {wmax} : w) and DECIMAL_SCALE' = (s=-1 ? {smax} : s)",
              paths, pre, lambda p: And(Eq(p.gpost[(REL, "DECIMAL_WIDTH")], eff_w),
                                        Eq(p.gpost[(REL, "DECIMAL_SCALE")], eff_s)) if p.kind == "return" else True,
              mv, replay, fkey, include_site_obligations=False)
    discharge(chk, eng, f, "rejected-setting-leaves-no-trace",
              "raises => DECIMAL_WIDTH' = DECIMAL_WIDTH and DECIMAL_SCALE' = DECIMAL_SCALE (strong exception safety "
              "of the module globals: the next run must not see a rejected value)",
              paths, pre, lambda p: And(Eq(p.gpost[(REL, "DECIMAL_WIDTH")], gw0),
                                        Eq(p.gpost[(REL, "DECIMAL_SCALE")], gs0)) if p.kind == "raise" else True,
              mv, replay, fkey, include_site_obligations=False)

    # -- get_decimal_type / get_decimal_config read exactly the two globals ---------------------------------
    for name, expect in (("get_decimal_type", lambda: smt.Concat("DECIMAL(", smt.IntToStr(gw0), ",", smt.IntToStr(gs0), ")")),
                         ("get_decimal_config", lambda: (gw0, gs0))):
        f2 = f"src/vtlengine/{REL}:{name}"
        chk.under_contract(f2)
        ps = eng.explore(eng.func(REL, name), gpre={(REL, "DECIMAL_WIDTH"): gw0, (REL, "DECIMAL_SCALE"): gs0})
        exp = expect()

        def post(p: PathResult, exp: Any = exp) -> Any:
            if p.kind != "return":
                return False
            if isinstance(exp, tuple):
                return And(*[Eq(a, b) for a, b in zip(p.value, exp)]) if isinstance(p.value, tuple) and len(p.value) == 2 else False
            return Eq(p.value, exp)
        discharge(chk, eng, f2, "reads-the-configured-globals",
                  "result = 'DECIMAL(<DECIMAL_WIDTH>,<DECIMAL_SCALE>)' resp. (DECIMAL_WIDTH, DECIMAL_SCALE)",
                  ps, [Ge(gw0, 0), Ge(gs0, 0)], post, ["pre.DECIMAL_WIDTH", "pre.DECIMAL_SCALE"])

    # -- Number columns use the configured decimal type ------------------------------------------------------
    number_columns_use_decimal(chk, eng)
    stored_numbers_are_decimal_roundings(chk, (wmin, wmax, wdef), (smin, smax, sdef))

    chk.extra["documented_ranges"] = {k: {"min": v[0], "max": v[1], "default": v[2]} for k, v in rng.items()}
    chk.extra["functions_inlined"] = sorted(eng.inlined)
    chk.assume("os.getenv(name, default): the environment is a map name -> optional string, constant during the call")
    chk.assume("int(str) modelled as a partial function (py.int_ok / py.int_val); the property's quantifier "
               "'integer settings' is the precondition py.int_ok; non-integer text (bare ValueError) is outside it")
    chk.assume("Python ints are mathematical integers (exact)")
    chk.assume("DuckDB DECIMAL(w,s) rounding on load and exactness of DECIMAL +/-: not modelled (outside the encoding)")
    chk.assume("_normalize_scalar_value / _round_significant (float arithmetic): not covered, floats are not encoded")
    chk.trust("z3 5.1 / cvc5 1.0.3")
    chk.trust("vc.pyvc symbolic semantics of the Python subset (cross-checked against CPython by native replay of "
              "every counter-model and by the concrete-execution self test in tools/selftest.py)")
    chk.finish()


def number_columns_use_decimal(chk: Check, eng: Engine) -> None:
    rel = "duckdb_transpiler/io/_validation.py"
    for name in ("get_column_sql_type", "get_csv_read_type"):
        f = f"src/vtlengine/{rel}:{name}"
        try:
            fn = eng.func(rel, name)
        except Exception as e:  # noqa: BLE001
            o = chk.ob(f"{f}::number-uses-decimal", f, "Number columns use get_decimal_type()")
            o.status, o.detail = "undecided", f"function not found: {e}"
            continue
        chk.under_contract(f)
        number = eng.lookup_global("DataTypes/__init__.py", "Number")
        comp = ObjV("Component", {"data_type": number, "name": "Me_1", "nullable": True})
        gw0, gs0 = eng.sym_int("pre.DECIMAL_WIDTH"), eng.sym_int("pre.DECIMAL_SCALE")
        ps = eng.explore(fn, [comp], gpre={(REL, "DECIMAL_WIDTH"): gw0, (REL, "DECIMAL_SCALE"): gs0})
        exp = smt.Concat("DECIMAL(", smt.IntToStr(gw0), ",", smt.IntToStr(gs0), ")")
        discharge(chk, eng, f, "number-uses-decimal",
                  "for a Number component the DuckDB column/CSV-read type is exactly get_decimal_type()",
                  ps, [Ge(gw0, 0), Ge(gs0, 0)], lambda p: Eq(p.value, exp) if p.kind == "return" else False,
                  ["pre.DECIMAL_WIDTH", "pre.DECIMAL_SCALE"])


def stored_numbers_are_decimal_roundings(chk: Check, wr: Tuple[int, int, int], sr: Tuple[int, int, int]) -> None:
    """BOUNDED (labelled; DuckDB's DECIMAL / DOUBLE conversions are outside the encoding): under several valid settings,
    Number values handed to the real loaders as text, as int64, as float64 DataFrame columns and as CSV cells are stored
    as the decimal rounding of the value at the configured scale (inputs are exactly representable binary floats or short
    decimal numerals, so the expected stored value is unambiguous), and sums / differences computed by DuckDB on the
    stored column are exact decimals."""
    from decimal import ROUND_HALF_UP, Decimal, getcontext
    getcontext().prec = 80
    core.boot(full=True)
    import importlib

    import pandas as pd
    cfg = importlib.import_module("vtlengine.duckdb_transpiler.Config.config")
    io = importlib.import_module("vtlengine.duckdb_transpiler.io._io")
    sqlmod = importlib.import_module("vtlengine.duckdb_transpiler.sql")
    model = importlib.import_module("vtlengine.Model")
    dt = importlib.import_module("vtlengine.DataTypes")
    import duckdb
    f = "src/vtlengine/duckdb_transpiler/io/_io.py:_build_dataframe_select_columns"
    chk.under_contract(f, "bounded")
    comps = {"Id_1": model.Component("Id_1", dt.Integer, model.Role.IDENTIFIER, False),
             "Me_1": model.Component("Me_1", dt.Number, model.Role.MEASURE, True)}
    values = [100000000.0, 99999999.5, 1000000001.0, 1000000000.0, 30000000001.0, 30000000000.5, 549183.44, 1234.5,
              0.25, -7.0, 27392409840028.0, 123456789.125]
    settings = [(None, None), (38, 15), (-1, -1), (30, 12), (wr[0] + 6, sr[0])]
    saved_env = {k: os.environ.get(k) for k in (WVAR, SVAR)}
    saved = (cfg.DECIMAL_WIDTH, cfg.DECIMAL_SCALE)
    bad: list = []
    n = 0
    try:
        for w, s in settings:
            for k, v in ((WVAR, w), (SVAR, s)):
                if v is None:
                    os.environ.pop(k, None)
                else:
                    os.environ[k] = str(v)
            cfg.set_decimal_config()
            width, scale = cfg.DECIMAL_WIDTH, cfg.DECIMAL_SCALE
            q = Decimal(1).scaleb(-scale)
            fits = [v for v in values if len(str(int(abs(v)))) <= width - scale]
            forms = {"float64": pd.DataFrame({"Id_1": range(len(fits)), "Me_1": pd.Series(fits, dtype="float64")}),
                     "text": pd.DataFrame({"Id_1": range(len(fits)), "Me_1": pd.Series([repr(v) for v in fits], dtype="object")})}
            for form, df in forms.items():
                conn = duckdb.connect()
                try:
                    sqlmod.initialize_time_types(conn)
                    io.register_dataframes(conn, {"DS_1": df}, {"DS_1": model.Dataset("DS_1", comps, None)})
                    got = [r[0] for r in conn.execute('SELECT "Me_1" FROM "DS_1" ORDER BY "Id_1"').fetchall()]
                    tot = conn.execute('SELECT SUM("Me_1") FROM "DS_1"').fetchone()[0]
                except Exception as e:  # noqa: BLE001
                    bad.append({"setting": [w, s], "form": form, "error": f"{type(e).__name__}: {str(e)[:120]}"})
                    continue
                finally:
                    conn.close()
                want = [Decimal(repr(v)).quantize(q, rounding=ROUND_HALF_UP) for v in fits]
                for v, g, x in zip(fits, got, want):
                    n += 1
                    if Decimal(str(g)) != x:
                        bad.append({"setting": [w, s], "decimal": f"DECIMAL({width},{scale})", "form": form, "input": repr(v),
                                    "stored": str(g), "expected": str(x)})
                if not any(b.get("form") == form and b.get("setting") == [w, s] for b in bad) and Decimal(str(tot)) != sum(want):
                    bad.append({"setting": [w, s], "form": form, "sum": str(tot), "expected_sum": str(sum(want))})
    finally:
        cfg.DECIMAL_WIDTH, cfg.DECIMAL_SCALE = saved
        for k, v in saved_env.items():
            if v is None:
                os.environ.pop(k, None)
            else:
                os.environ[k] = v
    ob = chk.ob(f"{f}::bounded::stored-number-is-the-decimal-rounding", f,
                "Number values loaded from float64 and text DataFrame columns under 5 valid precision settings are stored as the "
                "decimal rounding of the input at the configured scale, and SUM over the stored column is the exact decimal sum",
                bounded=True)
    ob.backend = "bounded-native"
    if bad:
        ob.status, ob.witness, ob.replayed = core.REFUTED, bad[0], True
        ob.detail = f"{len(bad)} mismatch(es) of {n} stored values, e.g. {bad[0]}"
        ob.replay_detail = f"real register_dataframes + real DuckDB: {bad[0]}"
        ob.finding_key = f"stored-number::{bad[0].get('form')}"
    else:
        ob.status, ob.detail = core.BOUNDED_OK, f"{n} stored values, {len(settings)} settings x 2 source forms"


def native_replay(w: Optional[int], s: Optional[int], g0: Tuple[int, int], wr: Tuple[int, int, int],
                  sr: Tuple[int, int, int]) -> Tuple[Optional[bool], str, Any]:
    """Run the real set_decimal_config under the model's environment and pre-state; compare with the spec."""
    core.boot(full=True)
    import importlib
    cfg = importlib.import_module("vtlengine.duckdb_transpiler.Config.config")
    saved_env = {k: os.environ.get(k) for k in (WVAR, SVAR)}
    saved = (cfg.DECIMAL_WIDTH, cfg.DECIMAL_SCALE)
    try:
        for k, v in ((WVAR, w), (SVAR, s)):
            if v is None:
                os.environ.pop(k, None)
            else:
                os.environ[k] = str(v)
        cfg.DECIMAL_WIDTH, cfg.DECIMAL_SCALE = g0
        we, se = (w if w is not None else wr[2]), (s if s is not None else sr[2])
        ok_w = we == -1 or wr[0] <= we <= wr[1]
        ok_s = se == -1 or sr[0] <= se <= sr[1]
        try:
            cfg.set_decimal_config()
            got: Any = ("accepted", cfg.DECIMAL_WIDTH, cfg.DECIMAL_SCALE)
        except Exception as e:  # noqa: BLE001
            got = ("raised", type(e).__name__, (e.args[1] if len(e.args) > 1 else None), cfg.DECIMAL_WIDTH, cfg.DECIMAL_SCALE)
        if ok_w and ok_s:
            want: Any = ("accepted", wr[1] if we == -1 else we, sr[1] if se == -1 else se)
        else:
            want = ("raised", "RunTimeError", "0-4-1-1", g0[0], g0[1])
        wit = {"env": {WVAR: w, SVAR: s}, "pre_globals": list(g0), "real_outcome": list(got), "spec_outcome": list(want)}
        return (tuple(got) != tuple(want)), f"env={{{WVAR}={w}, {SVAR}={s}}} pre-globals={g0}: real code -> {got}, " \
                                            f"documented behaviour -> {want}", wit
    finally:
        cfg.DECIMAL_WIDTH, cfg.DECIMAL_SCALE = saved
        for k, v in saved_env.items():
            if v is None:
                os.environ.pop(k, None)
            else:
                os.environ[k] = v


if __name__ == "__main__":
    core.main_guard("C30", main)
