"""Deductive tier of C13: the load / release schedule and the executor, for scripts of ANY size.

(1) DAGAnalyzer._ds_usage_analysis - three loops, each verified by ONE iteration of its real body from an arbitrary loop
    state (vc.pyloop / vc.pycoll: dicts, sets, lists are SMT arrays), with invariants stated pointwise for a free name x
    and a free statement number d and ghost values (has x been read so far, key of its last / first reader, has it been
    produced ...).  Preconditions delivered by C12: statements are numbered 1..n in a topological order (every reader of
    an output comes after its producer), iteration over self.dependencies is by increasing key, output names are unique.
(2) load_scheduled_datasets / cleanup_scheduled_datasets - the whole real function is executed for ONE generic element
    of insertion[k] / deletion[k]; execute_queries - ONE iteration of each of its two real loops with the two callees
    under contract.  The connection and the loaders are recording stand-ins (harness of checks/C14.py, imported).
(3) The ghost-set obligations: the per-iteration effect summaries extracted from the explored paths of (2) are composed
    with the schedule contract of (1) into one statement step over ghost values of a free name x
    (live, loads, drops, fetches, in-results); z3 / cvc5 show that the history invariant J(x, k) is preserved, that every
    table a statement reads is live when the statement is created, that nothing is fetched after its drop or twice, and
    that after the last statement the results are exactly the selected assignments.
The induction over the statements / list elements is a stated meta-argument (as in C25).
"""
from __future__ import annotations

import ast
import re
import sys
from pathlib import Path
from typing import Any, Callable, Dict, List, Optional, Sequence, Set, Tuple

sys.path.insert(0, str(Path(__file__).resolve().parent.parent))
sys.path.insert(0, str(Path(__file__).resolve().parent))
import _dagnative as N  # noqa: E402
from _dagproof import (F, REL, Sym, decide_by_native, frame, run_discharge, step_ob)  # noqa: E402
from vc import core, smt  # noqa: E402
from vc.core import DISCHARGED, REFUTED, UNDECIDED, Check, Obligation  # noqa: E402
from vc.pycoll import IntBagMap, NameBag, NameIntMap, NameObjMap, SymColl, sel, sto, A_S_I  # noqa: E402
from vc.pyloop import LoopStep  # noqa: E402
from vc.pysrc import find_def  # noqa: E402
from vc.pyvc import ClassV, Engine, ObjV, Opaque, OutsideSubset, PathResult  # noqa: E402
from vc.smt import BOOL, INT, STR, And, Eq, Ge, Gt, Iff, Implies, Ite, Le, Lt, Not, Or, T, is_sym  # noqa: E402

EXE = "duckdb_transpiler/io/_execution.py"
USAGE = "DAGAnalyzer._ds_usage_analysis"


def b2i(c: Any) -> Any:
    return Ite(c, 1, 0)


def bag_plus(bags: T, k: Any, x: Any) -> T:
    inner = sel(bags, k, A_S_I)
    return sto(bags, k, sto(inner, x, smt.Add(sel(inner, x, INT), 1)))


# =====================================================================================================================
# (1) _ds_usage_analysis
# =====================================================================================================================
def usage_roles() -> Dict[str, str]:
    """Which local of _ds_usage_analysis plays which role, read off the returned DatasetSchedule(...) and the
    initialisations (so that renamed locals are still found)."""
    R = {"LC": "last_consumer", "DEL": "deletion", "INS": "insertion", "AO": "all_outputs", "PD": "persistent_datasets",
         "GS": "global_set", "GI": "global_inputs"}
    fn = find_def(REL, USAGE)
    if not isinstance(fn, ast.FunctionDef):
        return R
    ret = next((st for st in reversed(fn.body) if isinstance(st, ast.Return)), None)
    if ret is not None and isinstance(ret.value, ast.Call):
        for kw in ret.value.keywords:
            v = kw.value
            inner = v.args[0] if isinstance(v, ast.Call) and len(v.args) == 1 else v
            if isinstance(inner, ast.Name) and kw.arg in ("insertion", "deletion", "global_inputs", "persistent", "all_outputs"):
                R[{"insertion": "INS", "deletion": "DEL", "global_inputs": "GI", "persistent": "PD", "all_outputs": "AO"}[kw.arg]] = inner.id
    inits = LoopStep(REL, USAGE, 0).inits if find_def(REL, USAGE) is not None else {}
    dicts = [n for n, v in inits.items() if v == "{}"]
    sets = [n for n, v in inits.items() if v == "set()" and n != R["AO"]]
    if len(dicts) == 1:
        R["LC"] = dicts[0]
    if len(sets) == 1:
        R["GS"] = sets[0]
    return R


def ob_usage_analysis(chk: Check) -> None:  # noqa: C901
    f = F(USAGE)
    R = usage_roles()
    chk.under_contract(f)
    s = Sym()
    eng = s.eng
    k, x, d = eng.sym_int("key"), eng.sym_str("probe.x"), eng.sym_int("probe.d")
    key_sched = "_ds_usage_analysis::schedule"
    # ---- loop 1: last_consumer ------------------------------------------------------------------------------------------
    ls1 = LoopStep(REL, USAGE, 0, flatten=True)
    ls1.temps = ("statement",)  # type: ignore[attr-defined]
    lc = NameIntMap(eng, "last_consumer")
    n = eng.sym_str("input_name")
    r_any, r_last = eng.sym_bool("ghost.x_read_so_far"), eng.sym_int("ghost.last_reader_of_x")

    def inv1(m: NameIntMap, ra: Any, rl: Any, initial: bool = False) -> Any:
        return And(Iff(m.has(x, initial), ra), Implies(ra, And(Eq(m.at(x, initial), rl), Le(rl, k))))

    def post1(p: PathResult, init: Dict[str, Any]) -> Any:
        if p.kind != "return" or not isinstance(p.value, dict) or not isinstance(p.value.get(R["LC"]), NameIntMap):
            return False
        m = p.value[R["LC"]]
        ra2, rl2 = Or(r_any, Eq(n, x)), Ite(Eq(n, x), k, r_last)
        return And(Eq(m.t["dom"], sto(m.t0["dom"], n, True)), Eq(m.t["val"], sto(m.t0["val"], n, k)), inv1(m, ra2, rl2),
                   Implies(r_any, Ge(rl2, r_last)), frame(p, init, {R["LC"]}))
    step_ob(chk, eng, ls1, {R["LC"]: lc, ls1.target(0, "key"): k, ls1.target(0, "input_name", inner=True): n}, f,
            "last-reader::loop-step",
            "first loop, one iteration for a pair (statement key, name input_name it reads) from ANY last_consumer: "
            "last_consumer' = last_consumer[input_name := key]; invariant for every name x (ghosts: x was read by a pair "
            "processed so far; key r of the last such pair; pairs come by non-decreasing key, so r <= key): x in last_consumer "
            "<=> x was read, and then last_consumer[x] = r; r never decreases.  Hence after the loop last_consumer[x] is the "
            "LAST (= greatest-numbered) reader of x, defined exactly for the names that are read",
            [Ge(k, 1), inv1(lc, r_any, r_last, True)], post1, N.schedule, key_sched)
    # ---- loop 2: outputs -----------------------------------------------------------------------------------------------
    ls2 = LoopStep(REL, USAGE, 1)
    o = eng.sym_str("out")
    produced, del_at, pers_x = eng.sym_bool("ghost.x_produced_so_far"), eng.sym_int("ghost.deletion_slot_of_x"), \
        eng.sym_bool("ghost.x_persistent_so_far")
    for kind in ("temp", "pers"):
        lc2 = NameIntMap(eng, "last_consumer")
        deletion = IntBagMap(eng, "deletion", default=True)
        all_out = NameBag(eng, "all_outputs", kind="set")
        persistent = NameBag(eng, "persistent_datasets", kind="list")

        def inv2(dl: IntBagMap, ao: NameBag, pd: NameBag, pr: Any, da: Any, px: Any, initial: bool = False) -> Any:
            return And(Iff(ao.has(x, initial), pr), Eq(dl.mult(d, x, initial), b2i(And(pr, Eq(da, d)))),
                       Eq(pd.mult(x, initial), b2i(px)), Implies(px, pr))
        pre = [Ge(k, 1), inv2(deletion, all_out, persistent, produced, del_at, pers_x, True),
               # instance of the invariant at x := this statement's name, which no earlier statement assigns (C12: unique)
               Not(all_out.has(o, True)), Eq(deletion.mult(d, o, True), 0), Eq(persistent.mult(o, True), 0)]
        tgt = Ite(lc2.has(o, True), lc2.at(o, True), k)

        def post2(p: PathResult, init: Dict[str, Any], kind: str = kind, tgt: Any = tgt) -> Any:
            if p.kind != "return" or not isinstance(p.value, dict):
                return False
            dl, ao, pd = p.value.get(R["DEL"]), p.value.get(R["AO"]), p.value.get(R["PD"])
            if not (isinstance(dl, IntBagMap) and isinstance(ao, NameBag) and isinstance(pd, NameBag)):
                return False
            want_pd = sto(pd.t0["cnt"], o, 1) if kind == "pers" else pd.t0["cnt"]
            return And(Eq(ao.t["cnt"], sto(ao.t0["cnt"], o, 1)), Eq(dl.t["bags"], bag_plus(dl.t0["bags"], tgt, o)),
                       Eq(dl.t["dom"], sto(dl.t0["dom"], tgt, True)), Eq(pd.t["cnt"], want_pd),
                       inv2(dl, ao, pd, Or(produced, Eq(o, x)), Ite(Eq(o, x), tgt, del_at),
                            Or(pers_x, And(kind == "pers", Eq(o, x)))),
                       frame(p, init, {R["DEL"], R["AO"], R["PD"]}))
        step_ob(chk, eng, ls2, {R["LC"]: lc2, R["DEL"]: deletion, R["AO"]: all_out, R["PD"]: persistent,
                                ls2.target(0, "key"): k, ls2.target(1, "statement"): s.statement(kind, o)},
                f, f"outputs::loop-step::{kind}",
                "second loop, one iteration on a statement (name o, " + ("persistent" if kind == "pers" else "not persistent") +
                ") from ANY deletion / all_outputs / persistent_datasets: all_outputs' = all_outputs U {o}; o is appended once "
                "to deletion[last_consumer[o] if o is read else key]; persistent_datasets gets o iff the statement is "
                "persistent; invariant for every name x and slot d (ghosts: x produced so far, its slot, its persistence): "
                "x in all_outputs <=> produced, multiplicity of x in deletion[d] = [produced and slot = d], multiplicity in "
                "persistent_datasets = [persistent].  Hence every output is scheduled for deletion exactly once, at its last "
                "reader, or at its own statement when nothing reads it",
                pre, post2, N.schedule, key_sched)
    # ---- loop 3: global inputs -------------------------------------------------------------------------------------------
    ls3 = LoopStep(REL, USAGE, 2, flatten=True)
    ls3.temps = ("statement",)  # type: ignore[attr-defined]
    lc3 = NameIntMap(eng, "last_consumer")
    deletion, insertion = IntBagMap(eng, "deletion", default=True), IntBagMap(eng, "insertion", default=True)
    all_out, gset, ginp = NameBag(eng, "all_outputs", kind="set"), NameBag(eng, "global_set", kind="set"), \
        NameBag(eng, "global_inputs", kind="list")
    el = eng.sym_str("element")
    g_x, first_x, del0 = eng.sym_bool("ghost.x_is_a_global_input_seen_so_far"), eng.sym_int("ghost.first_reader_of_x"), \
        eng.sym_int("ghost.multiplicity_of_x_in_deletion_d_before_this_loop")

    def slot(fx: Any) -> Any:
        return Ite(lc3.has(x, True), lc3.at(x, True), fx)

    def inv3(dl: IntBagMap, ins: IntBagMap, gs: NameBag, gi: NameBag, g: Any, fx: Any, initial: bool = False) -> Any:
        return And(Iff(gs.has(x, initial), g), Eq(gi.mult(x, initial), b2i(g)),
                   Eq(ins.mult(d, x, initial), b2i(And(g, Eq(fx, d)))),
                   Eq(dl.mult(d, x, initial), smt.Add(del0, b2i(And(g, Eq(slot(fx), d))))),
                   Implies(g, And(Not(all_out.has(x, True)), Le(fx, k))))

    def post3(p: PathResult, init: Dict[str, Any]) -> Any:
        if p.kind != "return" or not isinstance(p.value, dict):
            return False
        dl, ins, gs, gi = (p.value.get(R[nm]) for nm in ("DEL", "INS", "GS", "GI"))
        if not (isinstance(dl, IntBagMap) and isinstance(ins, IntBagMap) and isinstance(gs, NameBag) and isinstance(gi, NameBag)):
            return False
        hit = And(Not(all_out.has(el, True)), Not(gset.has(el, True)))
        tgt = Ite(lc3.has(el, True), lc3.at(el, True), k)
        g2, f2 = Or(g_x, And(hit, Eq(el, x))), Ite(And(hit, Eq(el, x)), k, first_x)
        return And(Eq(gs.t["cnt"], Ite(hit, sto(gs.t0["cnt"], el, 1), gs.t0["cnt"])),
                   Eq(gi.t["cnt"], Ite(hit, sto(gi.t0["cnt"], el, smt.Add(gi.mult(el, True), 1)), gi.t0["cnt"])),
                   Eq(dl.t["bags"], Ite(hit, bag_plus(dl.t0["bags"], tgt, el), dl.t0["bags"])),
                   Eq(ins.t["bags"], Ite(hit, bag_plus(ins.t0["bags"], k, el), ins.t0["bags"])),
                   inv3(dl, ins, gs, gi, g2, f2),
                   Implies(And(Eq(el, x), Not(all_out.has(x, True))), And(g2, Le(f2, k))),       # every reader comes at or after `first`
                   frame(p, init, {R["DEL"], R["INS"], R["GS"], R["GI"]}))
    step_ob(chk, eng, ls3, {R["LC"]: lc3, R["DEL"]: deletion, R["INS"]: insertion, R["AO"]: all_out, R["GS"]: gset,
                            R["GI"]: ginp, ls3.target(0, "key"): k, ls3.target(0, "element", inner=True): el}, f,
            "global-inputs::loop-step",
            "third loop, one iteration for a pair (statement key, name element it reads) from ANY state: if element is not "
            "an output and was not met before, it is added to global_set / global_inputs, appended once to insertion[key] and "
            "once to deletion[last_consumer[element]]; else nothing changes.  Invariant for every name x and slot d (ghosts: x "
            "met as a global input so far; key `first` of the pair that met it first; multiplicity of x in deletion[d] before "
            "this loop): x in global_set <=> met, multiplicity in global_inputs = [met], in insertion[d] = [met and first = d], "
            "in deletion[d] = before + [met and last_consumer[x] = d], met => x is not an output and first <= key; every later "
            "pair reading x has key >= first.  Hence every global input is loaded exactly once, at its FIRST reader, and "
            "released exactly once, at its LAST reader",
            [Ge(k, 1), inv3(deletion, insertion, gset, ginp, g_x, first_x, True)], post3, N.schedule, key_sched)
    # ---- initial state, order of the loops, what is returned ---------------------------------------------------------------
    ob = chk.ob(f"{f}::initial-state-and-result", f,
                "before the loops: deletion / insertion are empty defaultdict(list), last_consumer = {}, all_outputs = set(), "
                "persistent_datasets = global_inputs = [], global_set = set() (all invariants hold with 'nothing processed'); the "
                "three loops run in this order over self.dependencies.items(); the result is DatasetSchedule(insertion = "
                "dict(insertion), deletion = dict(deletion), global_inputs, persistent = persistent_datasets, all_outputs = "
                "sorted(all_outputs)) and nothing else happens")
    ob.backend = "ast"
    fn = find_def(REL, USAGE)
    if not isinstance(fn, ast.FunctionDef):
        ob.status, ob.detail = UNDECIDED, "not found"
        return
    body = [st for st in fn.body if not (isinstance(st, ast.Expr) and isinstance(st.value, ast.Constant))]
    inits = {ast.unparse(t): ast.unparse(st.value) for st in body if isinstance(st, (ast.Assign, ast.AnnAssign))
             and st.value is not None for t in (st.targets if isinstance(st, ast.Assign) else [st.target])}
    want = {R["DEL"]: "defaultdict(list)", R["INS"]: "defaultdict(list)", R["AO"]: "set()", R["PD"]: "[]", R["LC"]: "{}",
            R["GI"]: "[]", R["GS"]: "set()"}
    probs = [f"{a} = {inits.get(a)}" for a, v in want.items() if inits.get(a) != v]
    loops = [st for st in body if isinstance(st, ast.For)]
    if [ast.unparse(l.iter) for l in loops] != ["self.dependencies.items()"] * 3:
        probs.append(f"loops iterate over {[ast.unparse(l.iter) for l in loops]}")
    # every initialisation precedes the loop that uses it
    order = [type(st).__name__ if not isinstance(st, (ast.Assign, ast.AnnAssign)) else "init" for st in body]
    if [x_ for x_ in order if x_ not in ("init", "For", "Return")]:
        probs.append(f"unexpected statements {order}")
    ret = body[-1] if body and isinstance(body[-1], ast.Return) else None
    want_ret = (f"DatasetSchedule(insertion=dict({R['INS']}), deletion=dict({R['DEL']}), global_inputs={R['GI']}, "
                f"persistent={R['PD']}, all_outputs=sorted({R['AO']}))")
    if ret is None or ast.unparse(ret.value) != want_ret:
        probs.append(f"returns {ast.unparse(ret.value) if ret is not None and ret.value is not None else None}")
    for i, st in enumerate(body):
        if isinstance(st, (ast.Assign, ast.AnnAssign)):
            tn = ast.unparse(st.targets[0] if isinstance(st, ast.Assign) else st.target)
            first_use = next((j for j, l in enumerate(body) if isinstance(l, ast.For) and any(
                isinstance(n_, ast.Name) and n_.id == tn for n_ in ast.walk(l))), None)
            if first_use is not None and first_use < i:
                probs.append(f"{tn} is (re)initialised after a loop that uses it")
    if probs:
        ob.status, ob.detail = UNDECIDED, "; ".join(probs)
        decide_by_native(ob, N.schedule, key_sched)
    else:
        ob.status, ob.detail = DISCHARGED, "initialisations, three loops in order, DatasetSchedule(...) as expected"


# =====================================================================================================================
# (2) the executor: one generic iteration of every loop, events of every path
# =====================================================================================================================
IO = "duckdb_transpiler/io/_io.py"
Event = Tuple[str, Any]


class Exec:
    """Shared symbolic world of the executor obligations (one engine: the ghost step uses the path conditions)."""

    def __init__(self) -> None:
        import C14
        self.C14 = C14
        eng = self.eng = C14.new_engine()                 # harness of checks/C14.py (recording connection, folder, sorted)
        self.conn = C14.RecConn()
        self.s = eng.sym_int("statement_num")
        self.rop = eng.sym_bool("return_only_persistent")
        self.x = eng.sym_str("probe.x")
        self.insertion = IntBagMap(eng, "insertion", default=False)
        self.deletion = IntBagMap(eng, "deletion", default=False)
        self.global_inputs = NameBag(eng, "global_inputs", kind="list")
        self.persistent = NameBag(eng, "persistent", kind="list")
        sched_cls = eng.lookup_global("AST/DAG/_models.py", "DatasetSchedule")
        self.sched = ObjV(sched_cls, {"insertion": self.insertion, "deletion": self.deletion,
                                      "global_inputs": self.global_inputs, "persistent": self.persistent,
                                      "all_outputs": Opaque("all_outputs")})
        self.input_datasets = NameObjMap(eng, "input_datasets", value=lambda k: ObjV("Dataset", {"components": ("components-of", k)}))
        self.path_dict = NameObjMap(eng, "path_dict", value=lambda k: ("path-of", k))
        self.dataframe_dict = NameObjMap(eng, "dataframe_dict", value=lambda k: ("frame-of", k))
        self.results = NameObjMap(eng, "results")
        self.tokens = {n: ObjV("token", {"_name": n}) for n in ("output_folder", "output_datasets", "output_scalars",
                                                                "representation", "output_format")}

        def c_load(e: Engine, conn: Any = None, components: Any = None, dataset_name: Any = None, file_path: Any = None) -> Any:
            e.effects.append(("load", dataset_name, "csv" if file_path is not None else "empty", components))
            return None

        def c_register(e: Engine, conn: Any, dataframes: Any, input_datasets: Any) -> Any:
            for k_ in dataframes:
                e.effects.append(("load", k_, "frame", input_datasets))
            return None

        def c_fetch(e: Engine, conn: Any = None, result_name: Any = None, **kw: Any) -> Any:
            e.effects.append(("fetch", result_name, kw))
            return ("fetched", result_name)
        eng.contracts[(IO, "load_datapoints_duckdb")] = c_load
        eng.contracts[(IO, "register_dataframes")] = c_register
        eng.contracts[(EXE, "fetch_result")] = c_fetch
        self.colls: List[SymColl] = [self.insertion, self.deletion, self.global_inputs, self.persistent, self.input_datasets,
                                     self.path_dict, self.dataframe_dict, self.results]

    def reset(self, _e: Any = None) -> None:
        for c in self.colls:
            c.reset()

    def events(self, p: PathResult, names: Sequence[Any], sql: Any = None) -> List[Event]:
        """The table-store events of one path, in order: load / create / fetch / drop / store (into results)."""
        out: List[Event] = []
        for ev in p.effects:
            if ev[0] == "load":
                out.append(("load", ev[1]))
            elif ev[0] == "fetch":
                out.append(("fetch", ev[1]))
            elif ev[0] == "stored":
                out.append(("store", ev[1]))
            elif ev[0] == "execute":
                q = ev[1]
                hit = None
                for nm in names:
                    if is_sym(q) and q.sx == smt.Concat('DROP TABLE IF EXISTS "', nm, '"').sx:
                        hit = ("drop", nm)
                    elif sql is not None and is_sym(q) and q.sx == smt.Concat('CREATE TABLE "', nm, '" AS ', sql).sx:
                        hit = ("create", nm)
                out.append(hit or ("unrecognised-statement", q))
            elif ev[0] in ("load_scheduled", "cleanup_scheduled"):
                out.append((ev[0], ev[1]))
        return out


def _kinds(evs: Sequence[Event]) -> List[str]:
    return [e[0] for e in evs]


def explore_fn(ex: Exec, qual: str, kwargs: Dict[str, Any]) -> List[PathResult]:
    eng = ex.eng
    fn = eng.func(EXE, qual)
    results = kwargs.get("results")

    def setup(_e: Engine) -> None:
        ex.reset()
    paths = eng.explore(fn, [], kwargs, setup=setup)
    return paths


def ob_executor(chk: Check) -> None:  # noqa: C901
    fq = F("execute_queries", EXE)
    fl = F("load_scheduled_datasets", EXE)
    fc = F("cleanup_scheduled_datasets", EXE)
    for f_ in (fq, fl, fc):
        chk.under_contract(f_)
    chk.under_contract(F("fetch_result", EXE), "assumed")
    chk.under_contract(F("load_datapoints_duckdb", IO), "assumed")
    chk.under_contract(F("register_dataframes", IO), "assumed")
    key_exec = "execute_queries::history"
    try:
        ex = Exec()
    except Exception as e:  # noqa: BLE001
        ob = chk.ob(f"{fq}::harness", fq, "executor harness (imported from checks/C14.py)")
        ob.status, ob.detail = UNDECIDED, f"{type(e).__name__}: {e}"
        return
    eng, s, x, rop = ex.eng, ex.s, ex.x, ex.rop
    # the stores into `results` are made visible as effects (the map is reset between paths)
    orig_set = ex.results._pyvc_setitem

    def rec_set(e: Engine, key: Any, v: Any) -> None:
        e.effects.append(("stored", key, v))
        orig_set(e, key, v)
    ex.results._pyvc_setitem = rec_set  # type: ignore[method-assign]

    # ---- load_scheduled_datasets: one generic element of insertion[statement_num] --------------------------------------------
    load_paths: List[PathResult] = []
    for pd_ in (ex.path_dict, None):
        try:
            ps = explore_fn(ex, "load_scheduled_datasets", {
                "conn": ex.conn, "statement_num": s, "ds_analysis": ex.sched, "path_dict": pd_,
                "dataframe_dict": ex.dataframe_dict, "input_datasets": ex.input_datasets})
        except Exception as e:  # noqa: BLE001
            ob = chk.ob(f"{fl}::explore", fl, "symbolic execution of load_scheduled_datasets")
            ob.status, ob.detail = UNDECIDED, f"{type(e).__name__}: {e}"
            decide_by_native(ob, N.executor, key_exec)
            return
        for p in ps:
            p.with_paths = pd_ is not None  # type: ignore[attr-defined]
        load_paths += ps
    m_load = eng.decls.const("insertion.elem1", STR)

    def post_load(p: PathResult) -> Any:
        if p.kind != "return":
            return False
        evs = ex.events(p, [m_load])
        iterated = any(is_sym(c) and "insertion.elem1" in c.sx for c in p.pc)
        if not iterated:
            return And(not evs, Not(ex.insertion.has(s, True)))
        is_table = ex.input_datasets.has(m_load, True)
        if _kinds(evs) not in ([], ["load"]):
            return False
        if not evs:
            return Not(is_table)
        return And(is_table, Eq(evs[0][1], m_load))
    run_discharge(chk, eng, fl, "one-load-per-scheduled-input-table",
                  "statement_num has no insertion entry => nothing happens; otherwise, for a generic element ds_name of "
                  "insertion[statement_num]: exactly one load of ds_name (CSV path, registered frame or empty table) when it is "
                  "an input dataset, nothing when it is not (input scalars are not tables); nothing else is loaded, created, "
                  "fetched or dropped   [whole real function, path_dict given / None]",
                  load_paths, [], post_load, N.executor, key_exec, site=False)

    # ---- cleanup_scheduled_datasets: one generic element of deletion[statement_num] ------------------------------------------
    try:
        clean_paths = explore_fn(ex, "cleanup_scheduled_datasets", {
            "conn": ex.conn, "statement_num": s, "ds_analysis": ex.sched, "output_folder": ex.tokens["output_folder"],
            "output_datasets": ex.tokens["output_datasets"], "output_scalars": ex.tokens["output_scalars"],
            "results": ex.results, "return_only_persistent": rop, "representation": ex.tokens["representation"],
            "output_format": ex.tokens["output_format"]})
    except Exception as e:  # noqa: BLE001
        ob = chk.ob(f"{fc}::explore", fc, "symbolic execution of cleanup_scheduled_datasets")
        ob.status, ob.detail = UNDECIDED, f"{type(e).__name__}: {e}"
        decide_by_native(ob, N.executor, key_exec)
        return
    m_clean = eng.decls.const("deletion.elem1", STR)
    is_gi = ex.global_inputs.has(m_clean, True)
    wanted = Or(Not(rop), ex.persistent.has(m_clean, True))

    def post_clean(p: PathResult) -> Any:
        if p.kind != "return":
            return False
        evs = ex.events(p, [m_clean])
        iterated = any(is_sym(c) and "deletion.elem1" in c.sx for c in p.pc)
        if not iterated:
            return And(not evs, Not(ex.deletion.has(s, True)))
        ks = _kinds(evs)
        if ks == ["drop"]:
            return And(Eq(evs[0][1], m_clean), Or(is_gi, Not(wanted)))
        if ks == ["fetch", "store", "drop"]:
            f_ev = next(e for e in p.effects if e[0] == "fetch")
            st_ev = next(e for e in p.effects if e[0] == "stored")
            args_ok = all(f_ev[2].get(a) is ex.tokens[a] for a in ex.tokens)
            return And(Not(is_gi), wanted, args_ok, st_ev[2] == ("fetched", f_ev[1]),
                       *[Eq(e[1], m_clean) for e in evs])
        return False
    run_discharge(chk, eng, fc, "fetch-before-drop-one-drop-per-scheduled-name",
                  "statement_num has no deletion entry => nothing happens; otherwise, for a generic element ds_name of "
                  "deletion[statement_num]: a global input is dropped (one DROP TABLE IF EXISTS, nothing fetched); a result that is "
                  "to be returned (return_only_persistent false, or ds_name persistent) is FIRST fetched (fetch_result with the "
                  "caller's folder / structures / format), stored as results[ds_name], THEN dropped; any other result is dropped "
                  "only; exactly one drop in every case, no other statement executed   [whole real function]",
                  clean_paths, [], post_clean, N.executor, key_exec, site=False)

    # ---- execute_queries, main loop: one iteration ------------------------------------------------------------------------------
    def c_load_sched(e: Engine, **k_: Any) -> Any:
        e.effects.append(("load_scheduled", k_))

    def c_clean_sched(e: Engine, **k_: Any) -> Any:
        e.effects.append(("cleanup_scheduled", k_))
    eng.contracts[(EXE, "load_scheduled_datasets")] = c_load_sched
    eng.contracts[(EXE, "cleanup_scheduled_datasets")] = c_clean_sched
    ls_main = LoopStep(EXE, "execute_queries", 0)
    ls_main.temps = ("_", "e", "mapped")  # type: ignore[attr-defined]
    rname, sqlq = eng.sym_str("result_name"), eng.sym_str("sql_query")
    state = {"conn": ex.conn, "statement_num": s, "result_name": rname, "sql_query": sqlq, "ds_analysis": ex.sched,
             "path_dict": ex.path_dict, "dataframe_dict": ex.dataframe_dict, "input_datasets": ex.input_datasets,
             "results": ex.results, "return_only_persistent": rop, **ex.tokens}

    def post_main(p: PathResult, init: Dict[str, Any]) -> Any:
        if p.kind != "return" or not isinstance(p.value, dict):
            return False
        evs = ex.events(p, [rname], sqlq)
        if _kinds(evs) != ["load_scheduled", "create", "cleanup_scheduled"]:
            return False
        kl, kc = evs[0][1], evs[2][1]
        same_l = all(kl.get(a) is state[a] for a in ("conn", "ds_analysis", "path_dict", "dataframe_dict", "input_datasets"))
        same_c = all(kc.get(a) is state[a] for a in ("conn", "ds_analysis", "results", "output_folder", "output_datasets",
                                                     "output_scalars", "representation", "output_format"))
        return And(same_l, same_c, Eq(kl.get("statement_num"), s), Eq(kc.get("statement_num"), s),
                   Eq(kc.get("return_only_persistent"), rop), Eq(evs[1][1], rname), frame(p, init, set()))
    ob_main = step_ob(chk, eng, ls_main, state, fq, "statement-loop-step",
                      "one iteration of the statement loop for ANY statement number k and ANY state: load_scheduled_datasets(k) "
                      "with the caller's schedule / data sources, THEN exactly one statement CREATE TABLE \"<result_name>\" AS "
                      "<sql_query>, THEN cleanup_scheduled_datasets(k) with the same schedule, the results dict, the caller's "
                      "return_only_persistent / folder / format; nothing else is executed or changed",
                      [], post_main, N.executor, key_exec)
    if ls_main.ok and ls_main.outer_iter != "enumerate(queries, start=1)":
        ob_main.status, ob_main.detail = UNDECIDED, f"statements are numbered by `{ls_main.outer_iter}`, expected enumerate(queries, start=1)"
        decide_by_native(ob_main, N.executor, key_exec)

    # ---- execute_queries, final loop: one iteration -----------------------------------------------------------------------------
    ls_fin = LoopStep(EXE, "execute_queries", 1)
    ls_fin.temps = ("_", "e", "should_include")  # type: ignore[attr-defined]
    is_p = eng.sym_bool("is_persistent")
    state_f = {"conn": ex.conn, "result_name": rname, "is_persistent": is_p, "results": ex.results,
               "return_only_persistent": rop, **ex.tokens}
    fin_paths: List[PathResult] = []

    def post_fin(p: PathResult, init: Dict[str, Any]) -> Any:
        if p.kind != "return" or not isinstance(p.value, dict):
            return False
        fin_paths.append(p)
        evs = ex.events(p, [rname])
        fire = And(Not(ex.results.has(rname, True)), Or(Not(rop), is_p))
        if not evs:
            return Not(fire)
        if _kinds(evs) != ["fetch", "store"]:
            return False
        return And(fire, Eq(evs[0][1], rname), Eq(evs[1][1], rname))
    step_ob(chk, eng, ls_fin, state_f, fq, "final-loop-step",
            "one iteration of the final loop for ANY query (result_name, is_persistent) and ANY results: result_name is fetched "
            "and stored iff it is not in results yet and (return_only_persistent is false or it is persistent); nothing is "
            "dropped or created", [], post_fin, N.executor, key_exec)

    # =====================================================================================================================
    # (3) ghost history of a free name x over one statement
    # =====================================================================================================================
    f_h = fq
    d = eng.decls
    GI, PR, PX, INDB, READS = (d.const(f"script.{n_}", BOOL) for n_ in
                               ("x_is_global_input", "x_is_produced", "x_is_persistent", "x_is_input_dataset", "k_reads_x"))
    FIRST, LAST, PK, D_ = (d.const(f"script.{n_}", INT) for n_ in
                           ("first_reader_of_x", "last_reader_of_x", "producer_of_x", "deletion_slot_of_x"))
    want = Or(Not(rop), PX)
    script = [Ge(s, 1), Implies(GI, Not(PR)), Implies(GI, And(Ge(FIRST, 1), Le(FIRST, LAST))),
              Implies(And(READS, GI), And(Le(FIRST, s), Le(s, LAST))), Implies(PR, And(Ge(PK, 1), Le(PK, D_))),
              Implies(And(READS, PR), And(Lt(PK, s), Le(s, D_))), Implies(READS, Or(GI, PR)),
              Iff(Eq(rname, x), And(PR, Eq(PK, s)))]
    sched = [Eq(ex.insertion.mult(s, x, True), b2i(And(GI, Eq(FIRST, s)))),
             Eq(ex.deletion.mult(s, x, True), smt.Add(b2i(And(PR, Eq(D_, s))), b2i(And(GI, Eq(LAST, s))))),
             Implies(Gt(ex.insertion.mult(s, x, True), 0), ex.insertion.has(s, True)),
             Implies(Gt(ex.deletion.mult(s, x, True), 0), ex.deletion.has(s, True)),
             Iff(ex.global_inputs.has(x, True), GI), Iff(ex.persistent.has(x, True), And(PR, PX)),
             Iff(ex.input_datasets.has(x, True), INDB), Implies(PR, Not(INDB))]

    Ghost = Dict[str, Any]

    def J(g: Ghost, at: Any) -> Any:
        return And(Eq(g["loads"], b2i(And(GI, INDB, Lt(FIRST, at)))),
                   Eq(g["drops"], b2i(Or(And(GI, Lt(LAST, at)), And(PR, Lt(D_, at))))),
                   Iff(g["live"], Or(And(GI, INDB, Lt(FIRST, at), Le(at, LAST)), And(PR, Lt(PK, at), Le(at, D_)))),
                   Eq(g["fetches"], b2i(And(PR, Lt(D_, at), want))), Iff(g["inres"], And(PR, Lt(D_, at), want)),
                   Not(g["bad"]))

    def apply(g: Ghost, evs: Sequence[Event]) -> Ghost:
        g = dict(g)
        for kind, nm in evs:
            if kind in ("load_scheduled", "cleanup_scheduled"):
                continue
            eqx = Eq(nm, x) if kind != "unrecognised-statement" else True
            if kind == "load":
                g["loads"], g["live"] = smt.Add(g["loads"], b2i(eqx)), Or(g["live"], eqx)
            elif kind == "create":
                g["bad"], g["live"] = Or(g["bad"], And(eqx, g["live"])), Or(g["live"], eqx)
            elif kind == "fetch":
                g["fetches"], g["bad"] = smt.Add(g["fetches"], b2i(eqx)), Or(g["bad"], And(eqx, Not(g["live"])))
            elif kind == "drop":
                g["drops"], g["live"] = smt.Add(g["drops"], b2i(eqx)), And(g["live"], Not(eqx))
            elif kind == "store":
                g["inres"] = Or(g["inres"], eqx)
            else:
                g["bad"] = True
        return g

    def iteration(g: Ghost, paths: Sequence[PathResult], names: Sequence[Any], extra: Sequence[Any] = ()) -> Ghost:
        """Ghost state after ONE iteration: case split over the explored paths (their path conditions partition)."""
        outs = [(And(*p.pc, *extra), apply(g, ex.events(p, names))) for p in paths if p.kind == "return"]
        res: Ghost = {}
        for fld in g:
            cur = outs[-1][1][fld]
            for cond, gg in reversed(outs[:-1]):
                cur = Ite(cond, gg[fld], cur)
            res[fld] = cur
        return res

    g0: Ghost = {"loads": d.const("ghost.loads_of_x", INT), "drops": d.const("ghost.drops_of_x", INT),
                 "live": d.const("ghost.x_is_live", BOOL), "fetches": d.const("ghost.fetches_of_x", INT),
                 "inres": d.const("ghost.x_in_results", BOOL), "bad": d.const("ghost.bad_event_on_x", BOOL)}
    ok_paths = all(p.kind == "return" for p in load_paths + clean_paths)
    ob_names = {"live": "every-table-read-is-live-when-the-statement-is-created",
                "J": "history-invariant-preserved-by-one-statement",
                "final": "after-the-last-statement-results-are-the-selected-assignments"}
    if not ok_paths:
        for nm in ob_names.values():
            ob = chk.ob(f"{f_h}::ghost::{nm}", f_h, "ghost history obligation")
            ob.status, ob.detail = UNDECIDED, "a path of the load / cleanup functions does not return normally"
            decide_by_native(ob, N.executor, key_exec)
        return
    # iterations that concern x: the generic element IS x; the path conditions of an iteration hold under the schedule facts
    it_load = [p for p in load_paths if any(is_sym(c) and "insertion.elem1" in c.sx for c in p.pc)]
    it_clean = [p for p in clean_paths if any(is_sym(c) and "deletion.elem1" in c.sx for c in p.pc)]
    results_link = [Iff(ex.results.has(x, True), g0["inres"])]
    g1_it = iteration(g0, it_load, [m_load])
    g1 = {fld: Ite(Eq(ex.insertion.mult(s, x, True), 1), g1_it[fld], g0[fld]) for fld in g0}
    g2 = apply(g1, [("create", rname)])
    g3_it = iteration(g2, it_clean, [m_clean])
    g3 = {fld: Ite(Eq(ex.deletion.mult(s, x, True), 1), g3_it[fld], g2[fld]) for fld in g0}
    hyp = script + sched + [J(g0, s), Eq(m_load, x), Eq(m_clean, x)] + results_link
    # the partition of the path conditions must be exhaustive for the iteration that exists (else Ite's default is unsound)
    cover_l = Or(*[And(*p.pc) for p in it_load])
    cover_c = Or(*[And(*p.pc) for p in it_clean])

    def solve(oid: str, clause: str, assumptions: Sequence[Any], goal: Any) -> Obligation:
        ob = chk.ob(f"{f_h}::ghost::{oid}", f_h, clause)
        r = core.run_smt(smt.query(d, list(eng.axioms) + list(assumptions) + [Not(goal)],
                                   get=["statement_num", "script.first_reader_of_x", "script.last_reader_of_x",
                                        "script.producer_of_x", "script.deletion_slot_of_x", "return_only_persistent"]),
                         timeout=30, tag="c13-ghost")
        ob.backend, ob.seconds = r.backend, r.seconds
        if r.status == "unsat":
            ob.status, ob.detail = DISCHARGED, "unsat"
        elif r.status == "unknown":
            ob.status, ob.detail = UNDECIDED, f"solver: {r.raw[:200]}"
        else:
            ob.status, ob.detail, ob.witness, ob.finding_key = REFUTED, f"counter-model {r.model}", {"model": r.model}, key_exec
            found, detail, wit = N.executor()
            if not found:
                found, detail, wit = N.schedule()
            ob.replayed, ob.replay_detail = bool(found), detail
            if wit is not None:
                ob.witness = wit
        return ob
    pre_txt = ("for a free name x and ANY statement number k, under the schedule contract of _ds_usage_analysis (x is in "
               "insertion[k] exactly when x is a global input first read by k; in deletion[k] exactly when k is its deletion slot: "
               "last reader, or producer when unread), the numbering facts of C12 (producer < every reader <= deletion slot; "
               "first reader <= every reader <= last reader; result_name of statement k = x iff k produces x) and the history "
               "invariant J(x, k) [loads = (input table first read before k), drops = (slot before k), live <=> loaded or produced "
               "before k and not yet dropped, fetched / in results <=> selected result whose slot is before k, no bad event]; the "
               "effects of the iterations are the ones extracted from the explored paths of the real functions: ")
    # vacuity guards: the hypotheses are satisfiable in each interesting situation
    covers = {"x-is-an-input-table-first-read-by-k": [GI, INDB, Eq(FIRST, s), READS, Lt(s, LAST)],
              "x-is-an-input-table-last-read-by-k": [GI, INDB, Eq(LAST, s), READS, Lt(FIRST, s)],
              "x-is-a-selected-result-whose-slot-is-k": [PR, Eq(D_, s), Lt(PK, s), READS, want],
              "x-is-an-unread-intermediate-produced-by-k": [PR, Eq(D_, s), Eq(PK, s), Not(want)],
              "x-is-produced-earlier-and-read-later": [PR, Lt(PK, s), Lt(s, D_)]}
    for cname, extra in covers.items():
        ob = chk.ob(f"{f_h}::ghost::cover::{cname}", f_h, f"cover: the hypotheses of the statement step are satisfiable when "
                    f"{cname.replace('-', ' ')} (vacuity guard)")
        r = core.run_smt(smt.query(d, list(eng.axioms) + hyp + extra), timeout=20, tag="c13-cover")
        ob.backend, ob.seconds = r.backend, r.seconds
        ob.status = DISCHARGED if r.status == "sat" else (core.FAULT if r.status == "unsat" else UNDECIDED)
        ob.detail = r.status if r.status == "sat" else f"{r.status}: hypotheses contradictory - the step obligations would be vacuous"
    solve("iterations-exhaustive", "the explored paths of one load iteration / one cleanup iteration cover every case (their path "
          "conditions are exhaustive whenever the element is scheduled)",
          hyp + [Or(Eq(ex.insertion.mult(s, x, True), 1), Eq(ex.deletion.mult(s, x, True), 1))],
          And(Implies(Eq(ex.insertion.mult(s, x, True), 1), cover_l), Implies(Eq(ex.deletion.mult(s, x, True), 1), cover_c)))
    solve(ob_names["live"], pre_txt + "if statement k reads x and x is a table (input dataset or produced), x is live after the "
          "loads of k, i.e. when CREATE TABLE of k runs; and CREATE never hits a live table", hyp,
          And(Implies(And(READS, Or(PR, And(GI, INDB))), g1["live"]), Not(g2["bad"])))
    solve(ob_names["J"], pre_txt + "J(x, k + 1) holds after the loads, the CREATE and the cleanup of k - so x is loaded at most "
          "once, dropped exactly once at its slot and never before a reader, fetched at most once and only while live (fetch "
          "precedes drop)", hyp, J(g3, smt.Add(s, 1)))
    # after the last statement n: every slot <= n
    nn = d.const("script.number_of_statements", INT)
    gF: Ghost = dict(g0)
    fin_ok = [p for p in fin_paths if p.kind == "return"]
    hyp_f = script[1:] + [J(g0, smt.Add(nn, 1)), Ge(nn, 1), Implies(GI, Le(LAST, nn)), Implies(PR, Le(D_, nn)),
                          Iff(ex.results.has(rname, True), g0["inres"]), Eq(rname, x), PR, Iff(is_p, PX)]
    if fin_ok:
        gF = iteration(g0, fin_ok, [rname])
    solve(ob_names["final"], "after the last statement n (every deletion slot <= n) J(x, n + 1) gives: x is in results <=> x is "
          "produced and (return_only_persistent is false or x is persistent), fetched exactly once, dropped exactly once, not "
          "live; and an iteration of the final loop on the query that produced x (is_persistent = the statement's persistence) "
          "fetches nothing (it would fetch a dropped table) and changes nothing",
          hyp_f, And(Iff(g0["inres"], want), Eq(g0["drops"], 1), Not(g0["live"]), Eq(g0["fetches"], b2i(want)),
                     *[Eq(gF[fld], g0[fld]) if fld in ("loads", "drops", "fetches") else Iff(gF[fld], g0[fld]) for fld in g0]))
    chk.assume("ghost store: CREATE TABLE \"n\" AS adds n, DROP TABLE IF EXISTS \"n\" removes n, a load adds n, fetch_result(n) "
               "needs n; the DuckDB catalog is assumed to behave like this set (the bounded tier runs sampled scripts on the real "
               "DuckDB); loaders and fetch_result are stand-ins recording their arguments")
    chk.assume("statements executed are recognised by their text: exactly CREATE TABLE \"<name>\" AS <sql> and DROP TABLE IF EXISTS "
               "\"<name>\" (any other text executed by these functions fails the obligation)")
    chk.assume("failure paths (a statement or a load raising) are C16's subject: the connection stand-in never fails")


# =====================================================================================================================
# alignment: the numbering of ds_structure is the numbering of the transpiler's queries, on the same (sorted) script
# =====================================================================================================================
def ob_alignment(chk: Check) -> None:
    TR = "duckdb_transpiler/Transpiler/__init__.py"
    ft = F("SQLTranspiler.visit_Start", TR)
    chk.under_contract(ft)
    import _dagproof as DP
    kinds = DP.statement_kinds(chk)
    s = Sym()
    eng = s.eng
    ls = LoopStep(TR, "SQLTranspiler.visit_Start", 0)
    name = eng.sym_str("assigned.name")

    def stub(tag: str, ret: Any = None) -> Any:
        def c(e: Engine, self_: Any, *a: Any, **k_: Any) -> Any:
            e.effects.append((tag, a))
            return ret(e, *a) if callable(ret) else ret
        return c
    try:
        TCls = eng.lookup_global(TR, "SQLTranspiler")
    except Exception as e:  # noqa: BLE001
        ob = chk.ob(f"{ft}::found", ft, "SQLTranspiler present")
        ob.status, ob.detail = UNDECIDED, f"{type(e).__name__}: {e}"
        return
    sqlv = eng.sym_str("sql.of.statement")
    eng.contracts[DP.VISITOR] = stub("visit", sqlv)
    for mname in ("visit_DPRuleset", "_visit_HRuleset", "_get_assignment_inputs", "_unqualify_join_columns"):
        ok, fv = eng.class_attr(TCls, mname)
        if ok and hasattr(fv, "rel"):
            eng.contracts[(fv.rel, fv.qualname)] = stub(mname, (lambda e, *a: a[-1]) if mname == "_unqualify_join_columns" else Opaque(mname))
    for kind in kinds:
        child = ObjV(s.cls(kind), {"left": ObjV(s.cls("VarID"), {"value": name})})
        queries: List[Any] = [("earlier",)]
        in_scalars = eng.sym_bool("name_is_an_output_scalar")
        osc = NameObjMap(eng, "output_scalars")
        selfv = ObjV(TCls, {"output_scalars": osc, "current_assignment": Opaque("ca"), "inputs": Opaque("inputs"),
                            "_join_alias_map": Opaque("jam"), "_consumed_join_aliases": Opaque("cja")})
        is_stmt, is_pers = kind in DP.ASSIGN_KINDS, kind == "PersistentAssignment"

        def post(p: PathResult, init: Dict[str, Any], is_stmt: bool = is_stmt, is_pers: bool = is_pers) -> Any:
            if p.kind != "return" or not isinstance(p.value, dict):
                return False
            q = p.value.get("queries")
            if not isinstance(q, list) or not q or q[0] != ("earlier",):
                return False
            new = q[1:]
            if not is_stmt:
                return not new
            if len(new) != 1 or not isinstance(new[0], tuple) or len(new[0]) != 3 or new[0][2] is not is_pers:
                return False
            return Eq(new[0][0], name)
        step_ob(chk, eng, ls, {"self": selfv, "child": child, "queries": queries}, ft, f"one-query-per-assignment::{kind}",
                f"one iteration of SQLTranspiler.visit_Start's loop on a `{kind}` child from ANY queries list: " +
                ("exactly one tuple (child.left.value, <sql>, is_persistent = " + str(is_pers) + ") is appended, earlier "
                 "entries stay" if is_stmt else "nothing is appended") +
                " - so the k-th query is the k-th (Persistent)Assignment child, the statement DAGAnalyzer.visit_Start numbers k, "
                "and its persistence flag is the one the schedule's `persistent` list is built from",
                [], post, N.executor, "execute_queries::numbering")
    # run(): the same sorted script object reaches ds_structure and the transpiler
    fr = F("run", "API/__init__.py")
    chk.under_contract(fr)
    ob = chk.ob(f"{fr}::schedule-and-queries-come-from-the-same-sorted-script", fr,
                "in run(): `ast` is assigned once; DAGAnalyzer.create_dag(ast) (which sorts ast.children in place) precedes both "
                "DAGAnalyzer.ds_structure(ast) and transpiler.transpile(ast); between them `ast` is only deep-copied (semantic "
                "analysis runs on a copy); execute_queries receives exactly these two results - so the statement numbers of "
                "the schedule and of the queries refer to the same topologically sorted, single-assignment statement list")
    ob.backend = "ast-dataflow"
    run = find_def("API/__init__.py", "run")
    if not isinstance(run, ast.FunctionDef):
        ob.status, ob.detail = UNDECIDED, "run not found"
        return
    uses: List[Tuple[int, str]] = []
    for c in ast.walk(run):
        if isinstance(c, ast.Call) and any(isinstance(a, ast.Name) and a.id == "ast" for a in c.args):
            uses.append((c.lineno, ast.unparse(c.func)))
    uses.sort()
    assigns = [n_ for n_ in ast.walk(run) if isinstance(n_, ast.Name) and n_.id == "ast" and isinstance(n_.ctx, ast.Store)]
    names = [u for _l, u in uses]
    want = ["DAGAnalyzer.create_dag", "copy.deepcopy", "DAGAnalyzer.ds_structure", "transpiler.transpile"]
    probs = []
    if names != want:
        probs.append(f"calls receiving `ast`: {names}, expected {want}")
    if len(assigns) != 1:
        probs.append(f"`ast` assigned {len(assigns)} times")
    eq = [c for c in ast.walk(run) if isinstance(c, ast.Call) and ast.unparse(c.func) == "execute_queries"]
    kw = {k_.arg: ast.unparse(k_.value) for k_ in eq[0].keywords} if len(eq) == 1 else {}
    if kw.get("queries") != "queries" or kw.get("ds_analysis") != "ds_analysis":
        probs.append(f"execute_queries receives queries={kw.get('queries')}, ds_analysis={kw.get('ds_analysis')}")
    stores = {}
    for n_ in ast.walk(run):
        if isinstance(n_, ast.Assign) and len(n_.targets) == 1 and isinstance(n_.targets[0], ast.Name) \
                and n_.targets[0].id in ("queries", "ds_analysis"):
            stores.setdefault(n_.targets[0].id, []).append(ast.unparse(n_.value))
    if stores != {"ds_analysis": ["DAGAnalyzer.ds_structure(ast)"], "queries": ["transpiler.transpile(ast)"]}:
        probs.append(f"assignments {stores}")
    tp = find_def(TR, "SQLTranspiler.transpile")
    if tp is None or "queries = self.visit(node)" not in ast.unparse(tp) or \
            "[(name, _inline_period_parse_literals(sql), p) for name, sql, p in queries]" not in ast.unparse(tp):
        probs.append("transpile no longer maps visit_Start's queries one to one")
    if probs:
        ob.status, ob.detail = UNDECIDED, "; ".join(probs)
        decide_by_native(ob, N.executor, "execute_queries::numbering")
    else:
        ob.status, ob.detail = DISCHARGED, f"calls on ast in order: {names}"


def run(chk: Check) -> None:
    import time
    t0 = time.time()
    # ds_structure = cls().visit(ast) + _ds_usage_analysis: the records it consumes are built by visit_Start (numbering,
    # per-statement reset, unknown-variable promotion) - the same obligations as in C12, on the same real code
    import _dagproof as DP
    DP.ob_visit_start(chk, DP.statement_kinds(chk))
    DP.ob_promotion(chk)
    ob_usage_analysis(chk)
    ob_executor(chk)
    ob_alignment(chk)
    chk.extra["deductive_tier_seconds"] = round(time.time() - t0, 1)
    chk.notes.append("META-ARGUMENTS (stated, not machine-checked): induction over the iteration sequences - (a) each loop of "
                     "_ds_usage_analysis: the step obligations re-establish the pointwise invariants, the initial-state "
                     "obligation gives them before the first iteration, the ghost values unfold to 'x is read by some "
                     "statement', 'greatest / least reader', 'x is produced' by the inductive definition of membership in the "
                     "processed prefix; (b) the lists insertion[k] / deletion[k]: an iteration on an element other than x does "
                     "not touch the ghost values of x (every event names its element), so the effect of the loop on x is the "
                     "effect of the iterations whose element is x - exactly one when x is scheduled there (multiplicity 1); "
                     "(c) the statements 1..n: J(x, 1) holds trivially, the statement step gives J(x, k + 1), the final "
                     "obligation reads the result off J(x, n + 1).  PRECONDITIONS taken from C12 (proved there, or listed there "
                     "as bounded): the statement list handed to ds_structure / transpile is topologically sorted and "
                     "single-assignment, and the dependency records of the second visit equal those of the first "
                     "(position independence).")
    chk.assume("'statement k reads x' means: x is in the `inputs` of the dependency record of statement k.  That the SQL generated "
               "for a statement references exactly those tables (content of the DAG collectors and of the transpiler) is NOT "
               "shown by the deductive tier - it is exercised by the bounded tier of this check and of C12 only")
    chk.trust("vc.pycoll container semantics (dict / set / list / defaultdict operations as SMT array reads and stores; a list "
              "is its multiset of elements); vc.pyloop extraction of the loop bodies")
