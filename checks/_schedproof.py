"""Deductive tier of C13: the load / release schedule and the executor, for scripts of ANY size.

(1) DAGAnalyzer._ds_usage_analysis - three loops, each verified by ONE iteration of its real body from an arbitrary loop
    state (vc.pyloop / vc.pycoll: dicts, sets, lists are SMT arrays), with invariants stated pointwise for a free name x
    and a free statement number d and ghost values (has x been read so far, key of its last / first reader, has it been
    produced ...).  Preconditions delivered by C12: statements are numbered 1..n in a topological order (every reader of
    an output comes after its producer), iteration over self.dependencies is by increasing key, output names are unique.
(2) load_scheduled_datasets / cleanup_scheduled_datasets - the whole real function is executed for ONE generic element
    of insertion[k] / deletion[k]; execute_queries - ONE iteration of each of its two real loops with the two callees
    under contract.  The connection and the loaders are recording stand-ins (harness of checks/C14.py, imported).
(3) The ghost-set obligations: the per-iteration effect summaries extracted from the explored paths of (2) are composed
    with the schedule contract of (1) into one statement step over ghost values of a free name x
    (live, loads, drops, fetches, in-results); z3 / cvc5 show that the history invariant J(x, k) is preserved, that every
    table a statement reads is live when the statement is created, that nothing is fetched after its drop or twice, and
    that after the last statement the results are exactly the selected assignments.
The induction over the statements / list elements is a stated meta-argument (as in C25).
"""
from __future__ import annotations

import ast
import re
import sys
from pathlib import Path
from typing import Any, Callable, Dict, List, Optional, Sequence, Set, Tuple

sys.path.insert(0, str(Path(__file__).resolve().parent.parent))
sys.path.insert(0, str(Path(__file__).resolve().parent))
import _dagnative as N  # noqa: E402
from _dagproof import (F, REL, Sym, decide_by_native, frame, run_discharge, step_ob)  # noqa: E402
from vc import core, smt  # noqa: E402
from vc.core import DISCHARGED, REFUTED, UNDECIDED, Check, Obligation  # noqa: E402
from vc.pycoll import IntBagMap, NameBag, NameIntMap, NameObjMap, SymColl, sel, sto, A_S_I  # noqa: E402
from vc.pyloop import LoopStep  # noqa: E402
from vc.pysrc import find_def  # noqa: E402
from vc.pyvc import ClassV, Engine, ObjV, Opaque, OutsideSubset, PathResult  # noqa: E402
from vc.smt import BOOL, INT, STR, And, Eq, Ge, Gt, Iff, Implies, Ite, Le, Lt, Not, Or, T, is_sym  # noqa: E402

EXE = "duckdb_transpiler/io/_execution.py"
USAGE = "DAGAnalyzer._ds_usage_analysis"


def b2i(c: Any) -> Any:
    return Ite(c, 1, 0)


def bag_plus(bags: T, k: Any, x: Any) -> T:
    inner = sel(bags, k, A_S_I)
    return sto(bags, k, sto(inner, x, smt.Add(sel(inner, x, INT), 1)))


# =====================================================================================================================
# (1) _ds_usage_analysis
# =====================================================================================================================
def ob_usage_analysis(chk: Check) -> None:  # noqa: C901
    f = F(USAGE)
    chk.under_contract(f)
    s = Sym()
    eng = s.eng
    k, x, d = eng.sym_int("key"), eng.sym_str("probe.x"), eng.sym_int("probe.d")
    key_sched = "_ds_usage_analysis::schedule"
    # ---- loop 1: last_consumer ------------------------------------------------------------------------------------------
    ls1 = LoopStep(REL, USAGE, 0, flatten=True)
    ls1.temps = ("statement",)  # type: ignore[attr-defined]
    lc = NameIntMap(eng, "last_consumer")
    n = eng.sym_str("input_name")
    r_any, r_last = eng.sym_bool("ghost.x_read_so_far"), eng.sym_int("ghost.last_reader_of_x")

    def inv1(m: NameIntMap, ra: Any, rl: Any, initial: bool = False) -> Any:
        return And(Iff(m.has(x, initial), ra), Implies(ra, And(Eq(m.at(x, initial), rl), Le(rl, k))))

    def post1(p: PathResult, init: Dict[str, Any]) -> Any:
        if p.kind != "return" or not isinstance(p.value, dict) or not isinstance(p.value.get("last_consumer"), NameIntMap):
            return False
        m = p.value["last_consumer"]
        ra2, rl2 = Or(r_any, Eq(n, x)), Ite(Eq(n, x), k, r_last)
        return And(Eq(m.t["dom"], sto(m.t0["dom"], n, True)), Eq(m.t["val"], sto(m.t0["val"], n, k)), inv1(m, ra2, rl2),
                   Implies(r_any, Ge(rl2, r_last)), frame(p, init, {"last_consumer"}))
    step_ob(chk, eng, ls1, {"last_consumer": lc, "key": k, "input_name": n}, f, "last-reader::loop-step",
            "first loop, one iteration for a pair (statement key, name input_name it reads) from ANY last_consumer: "
            "last_consumer' = last_consumer[input_name := key]; invariant for every name x (ghosts: x was read by a pair "
            "processed so far; key r of the last such pair; pairs come by non-decreasing key, so r <= key): x in last_consumer "
            "<=> x was read, and then last_consumer[x] = r; r never decreases.  Hence after the loop last_consumer[x] is the "
            "LAST (= greatest-numbered) reader of x, defined exactly for the names that are read",
            [Ge(k, 1), inv1(lc, r_any, r_last, True)], post1, N.schedule, key_sched)
    # ---- loop 2: outputs -----------------------------------------------------------------------------------------------
    ls2 = LoopStep(REL, USAGE, 1)
    o = eng.sym_str("out")
    produced, del_at, pers_x = eng.sym_bool("ghost.x_produced_so_far"), eng.sym_int("ghost.deletion_slot_of_x"), \
        eng.sym_bool("ghost.x_persistent_so_far")
    for kind in ("temp", "pers"):
        lc2 = NameIntMap(eng, "last_consumer")
        deletion = IntBagMap(eng, "deletion", default=True)
        all_out = NameBag(eng, "all_outputs", kind="set")
        persistent = NameBag(eng, "persistent_datasets", kind="list")

        def inv2(dl: IntBagMap, ao: NameBag, pd: NameBag, pr: Any, da: Any, px: Any, initial: bool = False) -> Any:
            return And(Iff(ao.has(x, initial), pr), Eq(dl.mult(d, x, initial), b2i(And(pr, Eq(da, d)))),
                       Eq(pd.mult(x, initial), b2i(px)), Implies(px, pr))
        pre = [Ge(k, 1), inv2(deletion, all_out, persistent, produced, del_at, pers_x, True),
               # instance of the invariant at x := this statement's name, which no earlier statement assigns (C12: unique)
               Not(all_out.has(o, True)), Eq(deletion.mult(d, o, True), 0), Eq(persistent.mult(o, True), 0)]
        tgt = Ite(lc2.has(o, True), lc2.at(o, True), k)

        def post2(p: PathResult, init: Dict[str, Any], kind: str = kind, tgt: Any = tgt) -> Any:
            if p.kind != "return" or not isinstance(p.value, dict):
                return False
            dl, ao, pd = p.value.get("deletion"), p.value.get("all_outputs"), p.value.get("persistent_datasets")
            if not (isinstance(dl, IntBagMap) and isinstance(ao, NameBag) and isinstance(pd, NameBag)):
                return False
            want_pd = sto(pd.t0["cnt"], o, 1) if kind == "pers" else pd.t0["cnt"]
            return And(Eq(ao.t["cnt"], sto(ao.t0["cnt"], o, 1)), Eq(dl.t["bags"], bag_plus(dl.t0["bags"], tgt, o)),
                       Eq(dl.t["dom"], sto(dl.t0["dom"], tgt, True)), Eq(pd.t["cnt"], want_pd),
                       inv2(dl, ao, pd, Or(produced, Eq(o, x)), Ite(Eq(o, x), tgt, del_at),
                            Or(pers_x, And(kind == "pers", Eq(o, x)))),
                       frame(p, init, {"deletion", "all_outputs", "persistent_datasets", "reference", "ds_name"}))
        step_ob(chk, eng, ls2, {"last_consumer": lc2, "deletion": deletion, "all_outputs": all_out,
                                "persistent_datasets": persistent, "key": k, "statement": s.statement(kind, o)},
                f, f"outputs::loop-step::{kind}",
                "second loop, one iteration on a statement (name o, " + ("persistent" if kind == "pers" else "not persistent") +
                ") from ANY deletion / all_outputs / persistent_datasets: all_outputs' = all_outputs U {o}; o is appended once "
                "to deletion[last_consumer[o] if o is read else key]; persistent_datasets gets o iff the statement is "
                "persistent; invariant for every name x and slot d (ghosts: x produced so far, its slot, its persistence): "
                "x in all_outputs <=> produced, multiplicity of x in deletion[d] = [produced and slot = d], multiplicity in "
                "persistent_datasets = [persistent].  Hence every output is scheduled for deletion exactly once, at its last "
                "reader, or at its own statement when nothing reads it",
                pre, post2, N.schedule, key_sched)
    # ---- loop 3: global inputs -------------------------------------------------------------------------------------------
    ls3 = LoopStep(REL, USAGE, 2, flatten=True)
    ls3.temps = ("statement",)  # type: ignore[attr-defined]
    lc3 = NameIntMap(eng, "last_consumer")
    deletion, insertion = IntBagMap(eng, "deletion", default=True), IntBagMap(eng, "insertion", default=True)
    all_out, gset, ginp = NameBag(eng, "all_outputs", kind="set"), NameBag(eng, "global_set", kind="set"), \
        NameBag(eng, "global_inputs", kind="list")
    el = eng.sym_str("element")
    g_x, first_x, del0 = eng.sym_bool("ghost.x_is_a_global_input_seen_so_far"), eng.sym_int("ghost.first_reader_of_x"), \
        eng.sym_int("ghost.multiplicity_of_x_in_deletion_d_before_this_loop")

    def slot(fx: Any) -> Any:
        return Ite(lc3.has(x, True), lc3.at(x, True), fx)

    def inv3(dl: IntBagMap, ins: IntBagMap, gs: NameBag, gi: NameBag, g: Any, fx: Any, initial: bool = False) -> Any:
        return And(Iff(gs.has(x, initial), g), Eq(gi.mult(x, initial), b2i(g)),
                   Eq(ins.mult(d, x, initial), b2i(And(g, Eq(fx, d)))),
                   Eq(dl.mult(d, x, initial), smt.Add(del0, b2i(And(g, Eq(slot(fx), d))))),
                   Implies(g, And(Not(all_out.has(x, True)), Le(fx, k))))

    def post3(p: PathResult, init: Dict[str, Any]) -> Any:
        if p.kind != "return" or not isinstance(p.value, dict):
            return False
        dl, ins, gs, gi = (p.value.get(nm) for nm in ("deletion", "insertion", "global_set", "global_inputs"))
        if not (isinstance(dl, IntBagMap) and isinstance(ins, IntBagMap) and isinstance(gs, NameBag) and isinstance(gi, NameBag)):
            return False
        hit = And(Not(all_out.has(el, True)), Not(gset.has(el, True)))
        tgt = Ite(lc3.has(el, True), lc3.at(el, True), k)
        g2, f2 = Or(g_x, And(hit, Eq(el, x))), Ite(And(hit, Eq(el, x)), k, first_x)
        return And(Eq(gs.t["cnt"], Ite(hit, sto(gs.t0["cnt"], el, 1), gs.t0["cnt"])),
                   Eq(gi.t["cnt"], Ite(hit, sto(gi.t0["cnt"], el, smt.Add(gi.mult(el, True), 1)), gi.t0["cnt"])),
                   Eq(dl.t["bags"], Ite(hit, bag_plus(dl.t0["bags"], tgt, el), dl.t0["bags"])),
                   Eq(ins.t["bags"], Ite(hit, bag_plus(ins.t0["bags"], k, el), ins.t0["bags"])),
                   inv3(dl, ins, gs, gi, g2, f2),
                   Implies(And(Eq(el, x), Not(all_out.has(x, True))), And(g2, Le(f2, k))),       # every reader comes at or after `first`
                   frame(p, init, {"deletion", "insertion", "global_set", "global_inputs"}))
    step_ob(chk, eng, ls3, {"last_consumer": lc3, "deletion": deletion, "insertion": insertion, "all_outputs": all_out,
                            "global_set": gset, "global_inputs": ginp, "key": k, "element": el}, f, "global-inputs::loop-step",
            "third loop, one iteration for a pair (statement key, name element it reads) from ANY state: if element is not "
            "an output and was not met before, it is added to global_set / global_inputs, appended once to insertion[key] and "
            "once to deletion[last_consumer[element]]; else nothing changes.  Invariant for every name x and slot d (ghosts: x "
            "met as a global input so far; key `first` of the pair that met it first; multiplicity of x in deletion[d] before "
            "this loop): x in global_set <=> met, multiplicity in global_inputs = [met], in insertion[d] = [met and first = d], "
            "in deletion[d] = before + [met and last_consumer[x] = d], met => x is not an output and first <= key; every later "
            "pair reading x has key >= first.  Hence every global input is loaded exactly once, at its FIRST reader, and "
            "released exactly once, at its LAST reader",
            [Ge(k, 1), inv3(deletion, insertion, gset, ginp, g_x, first_x, True)], post3, N.schedule, key_sched)
    # ---- initial state, order of the loops, what is returned ---------------------------------------------------------------
    ob = chk.ob(f"{f}::initial-state-and-result", f,
                "before the loops: deletion / insertion are empty defaultdict(list), last_consumer = {}, all_outputs = set(), "
                "persistent_datasets = global_inputs = [], global_set = set() (all invariants hold with 'nothing processed'); the "
                "three loops run in this order over self.dependencies.items(); the result is DatasetSchedule(insertion = "
                "dict(insertion), deletion = dict(deletion), global_inputs, persistent = persistent_datasets, all_outputs = "
                "sorted(all_outputs)) and nothing else happens")
    ob.backend = "ast"
    fn = find_def(REL, USAGE)
    if not isinstance(fn, ast.FunctionDef):
        ob.status, ob.detail = UNDECIDED, "not found"
        return
    body = [st for st in fn.body if not (isinstance(st, ast.Expr) and isinstance(st.value, ast.Constant))]
    inits = {ast.unparse(t): ast.unparse(st.value) for st in body if isinstance(st, (ast.Assign, ast.AnnAssign))
             and st.value is not None for t in (st.targets if isinstance(st, ast.Assign) else [st.target])}
    want = {"deletion": "defaultdict(list)", "insertion": "defaultdict(list)", "all_outputs": "set()",
            "persistent_datasets": "[]", "last_consumer": "{}", "global_inputs": "[]", "global_set": "set()"}
    probs = [f"{a} = {inits.get(a)}" for a, v in want.items() if inits.get(a) != v]
    loops = [st for st in body if isinstance(st, ast.For)]
    if [ast.unparse(l.iter) for l in loops] != ["self.dependencies.items()"] * 3:
        probs.append(f"loops iterate over {[ast.unparse(l.iter) for l in loops]}")
    # every initialisation precedes the loop that uses it
    order = [type(st).__name__ if not isinstance(st, (ast.Assign, ast.AnnAssign)) else "init" for st in body]
    if [x_ for x_ in order if x_ not in ("init", "For", "Return")]:
        probs.append(f"unexpected statements {order}")
    ret = body[-1] if body and isinstance(body[-1], ast.Return) else None
    want_ret = ("DatasetSchedule(insertion=dict(insertion), deletion=dict(deletion), global_inputs=global_inputs, "
                "persistent=persistent_datasets, all_outputs=sorted(all_outputs))")
    if ret is None or ast.unparse(ret.value) != want_ret:
        probs.append(f"returns {ast.unparse(ret.value) if ret is not None and ret.value is not None else None}")
    for i, st in enumerate(body):
        if isinstance(st, (ast.Assign, ast.AnnAssign)):
            tn = ast.unparse(st.targets[0] if isinstance(st, ast.Assign) else st.target)
            first_use = next((j for j, l in enumerate(body) if isinstance(l, ast.For) and any(
                isinstance(n_, ast.Name) and n_.id == tn for n_ in ast.walk(l))), None)
            if first_use is not None and first_use < i:
                probs.append(f"{tn} is (re)initialised after a loop that uses it")
    if probs:
        ob.status, ob.detail = UNDECIDED, "; ".join(probs)
        decide_by_native(ob, N.schedule, key_sched)
    else:
        ob.status, ob.detail = DISCHARGED, "initialisations, three loops in order, DatasetSchedule(...) as expected"
