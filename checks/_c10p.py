"""C10, solver / static tier: helper contracts of the fetch / load / model functions the property rests on.

 (1) io/_execution.py:_build_dataset_fetch_select   symbolic execution (vc.pyvc) over component lists / table schemas of
     bounded shape with SYMBOLIC has-time flags: the SELECT projects exactly the declared components, in component order,
     each from its own column; and: a declared component absent from the table must not be dropped silently.
 (2) Model/__init__.py:Component.__post_init__       for all roles and nullable flags: constructed <=> not (identifier & nullable)
 (3) io/_validation.py:build_create_table_sql        for all role x nullable x type combinations (and a type override):
     NOT NULL exactly for identifiers and non-nullable components, columns in component order
 (4) io/_io.py:_validate_loaded_table                effect traces of every path: unless skipped, Time_Period normalisation
     happens BEFORE the duplicate check, the duplicate check sees exactly the identifier columns, datasets without
     identifiers with more than one row are refused, a normal return means every check ran; validate_no_duplicates raises
     <=> COUNT(*) != COUNT(DISTINCT ids)
 (5) API/__init__.py:run                             dataflow: the `output_datasets` given to SQLTranspiler and to
     execute_queries are exactly the Dataset results of the semantic pass (same objects, never rebound or mutated)
 (6) io/_io.py loaders                               every function that INSERTs datapoints calls _validate_loaded_table
     afterwards, unconditionally
"""
from __future__ import annotations

import ast as pyast
import itertools
import sys
from pathlib import Path
from typing import Any, Dict, List, Optional, Sequence, Tuple

sys.path.insert(0, str(Path(__file__).resolve().parent.parent))
from vc import core, smt  # noqa: E402
from vc.core import DISCHARGED, REFUTED, UNDECIDED, Check  # noqa: E402
from vc.effects import native  # noqa: E402
from vc.pycheck import discharge  # noqa: E402
from vc.pyvc import Engine, ObjV, OutsideSubset, PathResult, RaiseSignal  # noqa: E402
from vc.smt import And, Eq, Gt, Iff, Implies, Ne, Not, Or  # noqa: E402

EXE = "duckdb_transpiler/io/_execution.py"
VAL = "duckdb_transpiler/io/_validation.py"
IO = "duckdb_transpiler/io/_io.py"
MODEL = "Model/__init__.py"
CFG = "duckdb_transpiler/Config/config.py"


def undecided(chk: Check, function: str, oid: str, clause: str, why: str) -> None:
    o = chk.ob(f"{function}::{oid}", function, clause)
    o.status, o.detail = UNDECIDED, why


# ---- (1) fetch select ---------------------------------------------------------------------------------------------------------------
class _Res:
    def __init__(self, desc: Any, row: Any) -> None:
        self.desc, self.row = desc, row

    def _pyvc_getattr(self, e: Engine, name: str) -> Any:
        if name == "description":
            return self.desc
        if name == "fetchone":
            return native(lambda e2, *a, **k: self.row)
        raise OutsideSubset(f"result.{name}")


class _FetchConn:
    """conn.execute('SELECT * ... LIMIT 0').description = the table schema; the EXISTS probe returns symbolic flags."""

    def __init__(self, desc: List[Tuple[str, str]]) -> None:
        self.desc = desc

    def _pyvc_getattr(self, e: Engine, name: str) -> Any:
        me = self
        if name == "execute":
            def run(e2: Engine, sql: Any, *a: Any, **k: Any) -> Any:
                if isinstance(sql, str) and "LIMIT 0" in sql:
                    return _Res(me.desc, None)
                n = sql.count(" AS ") if isinstance(sql, str) else 1
                return _Res(None, tuple(e2.sym_bool(f"has_time_{i}") for i in range(n)))
            return native(run)
        raise OutsideSubset(f"connection.{name}")


def projection_of(sql: str) -> Optional[List[Tuple[str, List[str]]]]:
    """[(output column, columns referenced by its expression)] of a generated fetch SELECT; None for SELECT *."""
    import sqlglot
    from sqlglot import exp
    e = sqlglot.parse_one(sql, read="duckdb")
    out = []
    for p in e.expressions:
        if isinstance(p, exp.Star):
            return None
        name = p.alias if isinstance(p, exp.Alias) else p.name
        out.append((name, sorted({c.name for c in p.find_all(exp.Column)})))
    return out


def fetch_shapes(thorough: bool) -> List[Tuple[List[str], List[Tuple[str, str]]]]:
    names = ["Id_1", "Me_2", "Me_1"] + (["At_1"] if thorough else [])
    types = ["BIGINT", "TIMESTAMP", "DATE", "VARCHAR", "TIMESTAMP WITH TIME ZONE", "DOUBLE"]
    shapes = []
    k = 0
    for n in range(1, len(names) + 1):
        for decl in itertools.permutations(names, n):
            pool = list(decl) + ["zz_extra"]
            for r in range(0, len(pool) + 1):
                for present in itertools.combinations(pool, r):
                    for order in ((present, tuple(reversed(present))) if len(present) > 1 else (present,)):
                        k += 1
                        if not thorough and len(decl) == 3 and k % 3:
                            continue
                        desc = [(c, types[(k + i) % len(types)]) for i, c in enumerate(order)]
                        shapes.append((list(decl), desc))
    return shapes


def p_fetch_select(chk: Check, thorough: bool) -> None:
    f = f"src/vtlengine/{EXE}:_build_dataset_fetch_select"
    chk.under_contract(f)
    eng = Engine()
    try:
        fn = eng.func(EXE, "_build_dataset_fetch_select")
    except Exception as e:  # noqa: BLE001
        undecided(chk, f, "projection", "fetch SELECT projects the declared components", f"function not found: {e}")
        return
    shapes = fetch_shapes(thorough)
    full_bad: Optional[Tuple[Any, ...]] = None
    miss_bad: Optional[Tuple[Any, ...]] = None
    aborted: Optional[str] = None
    n_paths = n_full = n_miss = 0
    for decl, desc in shapes:
        ds = ObjV("Dataset", {"name": "R", "components": {c: ObjV("Component", {"name": c}) for c in decl}})
        paths = eng.explore(fn, [_FetchConn(desc), "R", ds])
        present = [c for c, _ in desc]
        complete = all(c in present for c in decl)
        n_full += complete
        n_miss += not complete
        for p in paths:
            n_paths += 1
            if p.kind == "abort":
                aborted = aborted or p.abort_reason
                continue
            if complete:
                ok = p.kind == "return" and isinstance(p.value, str)
                if ok:
                    proj = projection_of(p.value)
                    ok = proj is not None and [n for n, _ in proj] == decl and all(refs == [n] for n, refs in proj) \
                        and p.value.rstrip().endswith('FROM "R"')
                if not ok and full_bad is None:
                    full_bad = (decl, desc, p.kind, str(p.value)[:300], [c.sx for c in p.pc])
            else:
                # a declared component is missing from the table: returning a projection without it is a silent drop
                if p.kind == "return" and (miss_bad is None or (len(decl), len(desc)) > (len(miss_bad[0]), len(miss_bad[1]))):
                    miss_bad = (decl, desc, p.kind, str(p.value)[:300], [c.sx for c in p.pc])
    chk.extra["fetch_select_shapes"] = {"shapes": len(shapes), "paths": n_paths, "complete_tables": n_full, "tables_missing_a_component": n_miss}
    o = chk.ob(f"{f}::projects-declared-components-in-component-order", f,
               "when the table has every declared component (and possibly other columns, in any order): the SELECT projects "
               "exactly the declared components, in component order, each from its own column, nothing else - for all column "
               f"types and all has-time flags [{n_full} schema shapes of <= {4 if thorough else 3} components]")
    o.backend = "pyvc-paths+sqlglot"
    if aborted:
        o.status, o.detail = UNDECIDED, f"path outside the subset: {aborted}"
    elif full_bad:
        decl, desc, kind, val, pc = full_bad
        o.status = REFUTED
        o.detail = f"components {decl}, table schema {desc}, path {pc}: {kind} {val}"
        o.finding_key = "C10::fetch-select::projection"
        o.replayed, o.replay_detail, o.witness = replay_fetch(decl, desc, expect_all=True)
    else:
        o.status, o.detail = DISCHARGED, f"{n_paths} paths over {len(shapes)} shapes"
    o = chk.ob(f"{f}::never-drops-a-declared-component-silently", f,
               "when a declared component is absent from the table the function does not return a SELECT without it (the "
               "returned dataset would then lack a component semantic analysis predicted) "
               f"[{n_miss} schema shapes]")
    o.backend = "pyvc-paths"
    if aborted:
        o.status, o.detail = UNDECIDED, f"path outside the subset: {aborted}"
    elif miss_bad:
        decl, desc, kind, val, pc = miss_bad
        o.status = REFUTED
        o.detail = f"components {decl}, table schema {desc}: returns {val}"
        o.finding_key = "C10::fetch-select::absent-component-dropped"
        o.replayed, o.replay_detail, o.witness = replay_fetch(decl, desc, expect_all=False)
    else:
        o.status, o.detail = DISCHARGED, f"{n_miss} shapes"


def replay_fetch(decl: List[str], desc: List[Tuple[str, str]], expect_all: bool) -> Tuple[Optional[bool], str, Any]:
    """The real function on a real DuckDB table with this schema; the fetched frame against the declared components."""
    core.boot(full=True)
    import importlib
    import duckdb
    ex = importlib.import_module("vtlengine.duckdb_transpiler.io._execution")
    from vtlengine.DataTypes import Integer
    from vtlengine.Model import Component, Dataset, Role
    conn = duckdb.connect()
    try:
        cols = ", ".join(f'"{c}" {t}' for c, t in desc) or '"zz_none" INTEGER'
        conn.execute(f'CREATE TABLE "R" ({cols})')
        ds = Dataset(name="R", components={c: Component(c, Integer, Role.MEASURE, True) for c in decl}, data=None)
        sql = ex._build_dataset_fetch_select(conn, "R", ds)
        got = list(conn.execute(sql).fetchdf().columns)
    except Exception as e:  # noqa: BLE001
        return (False if not expect_all else None), f"real function raised {type(e).__name__}: {e}"[:300], None
    finally:
        conn.close()
    wit = {"declared_components": decl, "table_schema": desc, "select": sql, "fetched_columns": got}
    return (got != decl), f"real _build_dataset_fetch_select on a DuckDB table {desc} with declared components {decl}: fetched frame " \
                          f"has columns {got}", wit


# ---- (2) Component.__post_init__ ------------------------------------------------------------------------------------------------------
def role_members(eng: Engine) -> Tuple[Any, Dict[str, Any], Any]:
    role_cls = eng.lookup_global(MODEL, "Role")
    members = eng.enum_members(role_cls)
    assert members and "IDENTIFIER" in members, "Role enum not found"
    return role_cls, members, eng.enum_sort("Role", list(members.values()))


def p_component(chk: Check) -> None:
    f = f"src/vtlengine/{MODEL}:Component.__post_init__"
    chk.under_contract(f)
    try:
        eng = Engine()
        comp_cls = eng.lookup_global(MODEL, "Component")
        _, members, rsort = role_members(eng)
        ok, post_init = eng.class_attr(comp_cls, "__post_init__")
        assert ok, "Component.__post_init__ not found"
        role, nullable = eng.sym_enum("role", rsort), eng.sym_bool("nullable")
        integer = eng.lookup_global("DataTypes/__init__.py", "Integer")
        obj = ObjV(comp_cls, {"name": "C", "data_type": integer, "role": role, "nullable": nullable})
        paths = eng.explore(post_init, [obj])
    except Exception as e:  # noqa: BLE001
        undecided(chk, f, "identifier-not-nullable", "identifier => not nullable", f"{type(e).__name__}: {e}")
        return
    bad = And(role.eq_member(members["IDENTIFIER"]), nullable)

    def replay(model: Dict[str, str], p: PathResult) -> Tuple[Optional[bool], str, Any]:
        core.boot(full=True)
        from vtlengine.DataTypes import Integer
        from vtlengine.Model import Component, Role
        r = [m for m in Role][core.smt_int(model["role"])]          # enum order = source order = order of the sort
        nl = core.smt_bool(model["nullable"])
        try:
            Component("C", Integer, r, nl)
            got = "constructed"
        except ValueError:
            got = "ValueError"
        want = "ValueError" if (r == Role.IDENTIFIER and nl) else "constructed"
        return got != want, f"Component('C', Integer, {r}, nullable={nl}) -> {got}, contract: {want}", {"role": str(r), "nullable": nl}
    discharge(chk, eng, f, "identifier-not-nullable",
              "for every role and nullable flag: construction fails (ValueError) <=> role = Identifier and nullable; so no "
              "Component object is ever a nullable identifier", paths, [],
              lambda p: Iff(p.kind == "raise", bad) if p.kind in ("raise", "return") else False, ["role", "nullable"], replay,
              lambda m, p: "C10::component::identifier-nullable")
    # the role order used by the replay must be the enum's own
    chk.extra["roles"] = list(members)


# ---- (3) build_create_table_sql -----------------------------------------------------------------------------------------------------------
def column_defs(sql: str) -> Optional[List[Tuple[str, str, bool]]]:
    import re
    m = re.fullmatch(r'CREATE TABLE "([^"]+)" \((.*)\)', sql.strip(), re.S)
    if not m:
        return None
    out = []
    depth, cur = 0, ""
    for ch in m.group(2) + ",":
        if ch == "(":
            depth += 1
        if ch == ")":
            depth -= 1
        if ch == "," and depth == 0:
            d = re.fullmatch(r'\s*"([^"]+)" (.+?)( NOT NULL)?\s*', cur)
            if not d:
                return None
            out.append((d.group(1), d.group(2), d.group(3) is not None))
            cur = ""
        else:
            cur += ch
    return out


def p_create_table(chk: Check) -> None:
    f = f"src/vtlengine/{VAL}:build_create_table_sql"
    chk.under_contract(f)
    chk.under_contract(f"src/vtlengine/{VAL}:get_column_sql_type", "inlined")
    try:
        eng = Engine()
        fn = eng.func(VAL, "build_create_table_sql")
        comp_cls = eng.lookup_global(MODEL, "Component")
        _, members, rsort = role_members(eng)
        tnames = ["Integer", "Number", "String", "Boolean", "Date", "TimePeriod", "TimeInterval", "Duration"]
        types = [eng.lookup_global("DataTypes/__init__.py", n) for n in tnames]
        tsort = eng.enum_sort("VType", types)
        # one component fully symbolic (type x role x nullable), its neighbour symbolic in role / nullable only: the loop
        # over the components carries no state from one component to the next
        ty0, ro0, nl0 = eng.sym_enum("type0", tsort), eng.sym_enum("role0", rsort), eng.sym_bool("nullable0")
        ro1, nl1 = eng.sym_enum("role1", rsort), eng.sym_bool("nullable1")
        syms = [(ty0, ro0, nl0), (types[2], ro1, nl1)]
        gpre = {(CFG, "DECIMAL_WIDTH"): 28, (CFG, "DECIMAL_SCALE"): 10}
        groups = []
        for tag, order, extra in (("symbolic-component-first", (0, 1), []), ("symbolic-component-last", (1, 0), []),
                                  ("with-type-override", (0, 1), [{"C1": "TIMESTAMP"}])):
            comps: Dict[str, Any] = {}
            for i in order:
                comps[f"C{i}"] = ObjV(comp_cls, {"name": f"C{i}", "data_type": syms[i][0], "role": syms[i][1], "nullable": syms[i][2]})
            groups.append((tag, [f"C{i}" for i in order], eng.explore(fn, ["T", comps] + extra, gpre=gpre)))
    except Exception as e:  # noqa: BLE001
        undecided(chk, f, "not-null-exactly-for-identifiers-and-non-nullable", "NOT NULL placement", f"{type(e).__name__}: {e}")
        return
    mv = ["type0", "role0", "nullable0", "role1", "nullable1"]

    def make_post(names: List[str]) -> Any:
        def post(p: PathResult) -> Any:
            if p.kind != "return" or not isinstance(p.value, str):
                return False
            defs = column_defs(p.value)
            if defs is None or [d[0] for d in defs] != names:
                return False
            flag = {d[0]: d[2] for d in defs}
            return And(*[Iff(flag[f"C{i}"], Or(syms[i][1].eq_member(members["IDENTIFIER"]), Not(syms[i][2]))) for i in range(2)])
        return post

    def replay(model: Dict[str, str], p: PathResult) -> Tuple[Optional[bool], str, Any]:
        core.boot(full=True)
        import importlib
        from vtlengine import DataTypes as DT
        from vtlengine.Model import Component, Role
        v = importlib.import_module("vtlengine.duckdb_transpiler.io._validation")
        cs = {}
        want = []
        for i in range(2):
            r = [m for m in Role][core.smt_int(model[f"role{i}"])]
            nl = core.smt_bool(model[f"nullable{i}"])
            ty = getattr(DT, tnames[core.smt_int(model["type0"])]) if i == 0 else DT.String
            c = Component.__new__(Component)            # bypass __post_init__: the contract quantifies over every combination
            c.name, c.data_type, c.role, c.nullable = f"C{i}", ty, r, nl
            cs[f"C{i}"] = c
            want.append(r == Role.IDENTIFIER or not nl)
        sql = v.build_create_table_sql("T", cs)
        defs = column_defs(sql) or []
        got = [d[2] for d in defs]
        return got != want, f"real build_create_table_sql -> {sql}; NOT NULL flags {got}, contract {want}", {"sql": sql}
    for tag, names, paths in groups:
        discharge(chk, eng, f, f"not-null-exactly-for-identifiers-and-non-nullable::{tag}",
                  "for every role x nullable x type combination of a component (and every role x nullable of its neighbour): the "
                  "column is declared NOT NULL <=> the component is an identifier or not nullable; one column per component, in "
                  "component order", paths, [], make_post(names), mv, replay, lambda m, p: "C10::create-table::not-null")
    chk.extra["create_table_paths"] = {t: len(ps) for t, _, ps in groups}


# ---- (4) _validate_loaded_table ---------------------------------------------------------------------------------------------------------------
class _LoadConn:
    def _pyvc_getattr(self, e: Engine, name: str) -> Any:
        me = self
        if name == "execute":
            def run(e2: Engine, sql: Any, *a: Any, **k: Any) -> Any:
                e2.effects.append(("sql", sql))
                return me
            return native(run)
        if name == "fetchone":
            return native(lambda e2, *a, **k: (e2.sym_int("rowcount"),))
        raise OutsideSubset(f"connection.{name}")


def p_validate_loaded(chk: Check) -> None:
    f = f"src/vtlengine/{IO}:_validate_loaded_table"
    chk.under_contract(f)
    for callee in ("_normalize_time_period_columns", "_skip_load_validation"):
        chk.under_contract(f"src/vtlengine/{IO}:{callee}", "assumed")
    chk.under_contract(f"src/vtlengine/{VAL}:validate_temporal_columns", "assumed")
    try:
        eng = Engine()
        fn = eng.func(IO, "_validate_loaded_table")
        comp_cls = eng.lookup_global(MODEL, "Component")
        _, members, _ = role_members(eng)
        tp = eng.lookup_global("DataTypes/__init__.py", "TimePeriod")
        dle = eng.lookup_global("Exceptions/__init__.py", "DataLoadError")
        for name in ("_normalize_time_period_columns", "_skip_load_validation"):
            eng.func(IO, name)
        for name in ("validate_no_duplicates", "validate_temporal_columns"):
            eng.func(VAL, name)
    except Exception as e:  # noqa: BLE001
        undecided(chk, f, "checks-reached", "post-load checks are reached", f"{type(e).__name__}: {e}")
        return

    def setup(e: Engine) -> None:
        def norm(e2: Engine, conn: Any, table: Any, comps: Any) -> None:
            e2.effects.append(("normalize", table))

        def nodup(e2: Engine, conn: Any, table: Any, ids: Any) -> None:
            e2.effects.append(("dup-check", tuple(ids)))
            if e2.choose(2) == 1:
                raise RaiseSignal(e2.instantiate(dle, ["0-3-1-7"], {"name": table}))

        def temporal(e2: Engine, conn: Any, table: Any, comps: Any) -> None:
            e2.effects.append(("temporal-check", table))
            if e2.choose(2) == 1:
                raise RaiseSignal(e2.instantiate(dle, ["0-3-1-6"], {"name": table}))
        e.contracts[(IO, "_normalize_time_period_columns")] = norm
        e.contracts[(IO, "_skip_load_validation")] = lambda e2: e2.sym_bool("skip")
        e.contracts[(VAL, "validate_no_duplicates")] = nodup
        e.contracts[(VAL, "validate_temporal_columns")] = temporal
        # any further validate_* helper of _validation.py the loader may call (e.g. a calendar-range check) gets the generic
        # contract of a check: it leaves a trace and either returns or refuses the table with a DataLoadError
        import ast as _ast

        def generic(fname: str) -> Any:
            def contract(e2: Engine, *a: Any, **k: Any) -> None:
                e2.effects.append((f"check:{fname}", a[1] if len(a) > 1 else None))
                if e2.choose(2) == 1:
                    raise RaiseSignal(e2.instantiate(dle, ["0-3-1-6"], {"name": a[1] if len(a) > 1 else "T"}))
            return contract
        for node in _ast.parse(core.src_text(VAL)).body:
            if isinstance(node, _ast.FunctionDef) and node.name.startswith("validate_") and (VAL, node.name) not in e.contracts:
                e.contracts[(VAL, node.name)] = generic(node.name)
    skip = eng.sym_bool("skip")
    rowcount = eng.sym_int("rowcount")
    shapes = [["I", "M"], ["M", "I", "I"], ["M", "A"]]
    results = []
    for shape in shapes:
        comps = {}
        for i, r in enumerate(shape):
            role = members[{"I": "IDENTIFIER", "M": "MEASURE", "A": "ATTRIBUTE"}[r]]
            comps[f"C{i}"] = ObjV(comp_cls, {"name": f"C{i}", "data_type": tp, "role": role, "nullable": r != "I"})
        ids = tuple(f"C{i}" for i, r in enumerate(shape) if r == "I")
        results.append((shape, ids, eng.explore(fn, [_LoadConn(), "T", comps], setup=setup)))

    def ev_index(p: PathResult, kind: str) -> Optional[int]:
        for i, ev in enumerate(p.effects):
            if ev[0] == kind:
                return i
        return None

    def code_of(p: PathResult) -> Any:
        e = p.value
        return (e.args[0] if getattr(e, "args", None) else None) or getattr(e, "kwargs", {}).get("code")
    clauses = [
        ("normalisation-before-duplicate-check",
         "on every path on which the duplicate-identifier check runs, Time_Period normalisation has already run (two spellings of "
         "one period are one identifier value), and on every non-skipped path the duplicate check runs with exactly the identifier "
         "columns unless an earlier check already refused the table",
         lambda p, ids: (lambda d, n: (d is None or (n is not None and n < d and p.effects[d][1] == ids)) and
                         Implies(Not(skip), (d is not None) or (p.kind == "raise")))(ev_index(p, "dup-check"), ev_index(p, "normalize"))),
        ("dataset-without-identifiers-has-at-most-one-row",
         "not skipped, no identifier components, more than one row => the table is refused with a DataLoadError (0-3-1-4 unless "
         "an earlier check has already refused it), and whenever the row count is read and exceeds 1 the error is 0-3-1-4",
         lambda p, ids: True if ids else And(
             Implies(And(Not(skip), Gt(rowcount, 1)), p.kind == "raise"),
             Implies(And(Not(skip), Gt(rowcount, 1), p.kind == "raise" and
                         any(ev[0] == "sql" and "COUNT(*)" in str(ev[1]) for ev in p.effects) and
                         not any(ev[0] in ("dup-check",) or str(ev[0]).startswith("check:") for ev in p.effects)),
                     code_of(p) in ("0-3-1-4",)))),
        ("normal-return-means-every-check-ran",
         "returns normally and not skipped => the duplicate check and the temporal-format check both ran (and, without identifiers, "
         "the row count was read)",
         lambda p, ids: True if p.kind != "return" else Implies(
             Not(skip), ev_index(p, "dup-check") is not None and ev_index(p, "temporal-check") is not None and
             (bool(ids) or any(ev[0] == "sql" and "COUNT(*)" in str(ev[1]) for ev in p.effects)))),
        ("refused-table-is-dropped",
         "a DataLoadError leaves no half-validated table behind (DROP TABLE before re-raising)",
         lambda p, ids: True if p.kind != "raise" else any(ev[0] == "sql" and str(ev[1]).startswith("DROP TABLE") for ev in p.effects)),
    ]
    for cid_, text, pred in clauses:
        o = chk.ob(f"{f}::{cid_}", f, text + f" [component shapes {shapes}]")
        o.backend = "pyvc-paths"
        bad = None
        queries = 0
        for shape, ids, paths in results:
            for p in paths:
                if p.kind == "abort":
                    bad = ("abort", p.abort_reason)
                    break
                try:
                    goal = pred(p, ids)
                except Exception as e:  # noqa: BLE001
                    bad = ("abort", f"clause not evaluable: {type(e).__name__}: {e}")
                    break
                if smt.is_sym(goal):
                    queries += 1
                    r = core.run_smt(smt.query(eng.decls, list(p.pc) + [Not(goal)], get=["skip", "rowcount"]), timeout=10, tag="c10")
                    if r.status == "unsat":
                        continue
                    if r.status != "sat":
                        bad = ("abort", "solver unknown")
                        break
                    bad = ("refuted", shape, [str(e[:2]) for e in p.effects], p.kind, r.model)
                    break
                if not goal:
                    bad = ("refuted", shape, [str(e[:2]) for e in p.effects], p.kind, {})
                    break
            if bad:
                break
        if bad is None:
            o.status, o.detail = DISCHARGED, f"{sum(len(ps) for _, _, ps in results)} paths, {queries} solver queries"
        elif bad[0] == "abort":
            o.status, o.detail = UNDECIDED, str(bad[1])
        else:
            _, shape, trace, kind, model = bad
            o.status = REFUTED
            o.detail = f"components {shape}: path ending in {kind} with effect trace {trace} (model {model})"
            o.witness = {"component_roles": shape, "effect_trace": trace, "outcome": kind, "model": model}
            o.finding_key = f"C10::validate-loaded-table::{cid_}"
            o.replayed = None
    # validate_no_duplicates itself
    f2 = f"src/vtlengine/{VAL}:validate_no_duplicates"
    chk.under_contract(f2)
    try:
        eng2 = Engine()
        fn2 = eng2.func(VAL, "validate_no_duplicates")
        total, distinct = eng2.sym_int("n_total"), eng2.sym_int("n_distinct")

        class C2:
            def _pyvc_getattr(self, e: Engine, name: str) -> Any:
                me = self
                if name == "execute":
                    return native(lambda e2, sql, *a, **k: (e2.effects.append(("sql", sql)), me)[1])
                if name == "fetchone":
                    return native(lambda e2, *a, **k: (total, distinct))
                raise OutsideSubset(name)
        paths2 = eng2.explore(fn2, [C2(), "T", ["Id_1", "Id_2"]])
        discharge(chk, eng2, f2, "raises-iff-counts-differ",
                  "with identifier columns: raises DataLoadError 0-3-1-7 <=> COUNT(*) != COUNT(DISTINCT identifiers) of the table, and "
                  "the query counts DISTINCT over exactly the identifier columns", paths2, [],
                  lambda p: And(Iff(p.kind == "raise", Ne(total, distinct)),
                                any(ev[0] == "sql" and 'COUNT(DISTINCT ("Id_1", "Id_2"))' in str(ev[1]) for ev in p.effects))
                  if p.kind in ("raise", "return") else False, ["n_total", "n_distinct"], None, lambda m, p: "C10::validate_no_duplicates")
    except Exception as e:  # noqa: BLE001
        undecided(chk, f2, "raises-iff-counts-differ", "duplicate check", f"{type(e).__name__}: {e}")


# ---- (5) run(): output_datasets dataflow ----------------------------------------------------------------------------------------------------
def p_run_dataflow(chk: Check) -> None:  # noqa: C901
    f = "src/vtlengine/API/__init__.py:run"
    chk.under_contract(f)
    o = chk.ob(f"{f}::output_datasets-are-the-semantic-results", f,
               "the output_datasets handed to SQLTranspiler(...) and to execute_queries(...) are one dict, filled once with exactly "
               "the Dataset-valued results of InterpreterAnalyzer(...).visit(...), never rebound or mutated elsewhere in run()")
    o.backend = "static-dataflow"
    try:
        tree = pyast.parse(core.src_text("API/__init__.py"))
        fn = next(n for n in tree.body if isinstance(n, pyast.FunctionDef) and n.name == "run")
    except Exception as e:  # noqa: BLE001
        o.status, o.detail = UNDECIDED, f"run() not found: {e}"
        return

    def assigned_from_call(callee_pred: Any) -> List[str]:
        out = []
        for n in pyast.walk(fn):
            if isinstance(n, pyast.Assign) and len(n.targets) == 1 and isinstance(n.targets[0], pyast.Name) and \
                    isinstance(n.value, pyast.Call) and callee_pred(n.value.func):
                out.append(n.targets[0].id)
        return out
    interp = assigned_from_call(lambda fu: isinstance(fu, pyast.Name) and fu.id == "InterpreterAnalyzer")
    if len(interp) != 1:
        o.status, o.detail = UNDECIDED, f"expected one `x = InterpreterAnalyzer(...)`, found {interp}"
        return
    sem = assigned_from_call(lambda fu: isinstance(fu, pyast.Attribute) and fu.attr == "visit" and isinstance(fu.value, pyast.Name) and fu.value.id == interp[0])
    if len(sem) != 1:
        o.status, o.detail = UNDECIDED, f"expected one `s = {interp[0]}.visit(...)`, found {sem}"
        return
    # the kwarg at the two consumers
    consumers: Dict[str, Optional[str]] = {}
    for n in pyast.walk(fn):
        if isinstance(n, pyast.Call) and isinstance(n.func, pyast.Name) and n.func.id in ("SQLTranspiler", "execute_queries"):
            kw = [k for k in n.keywords if k.arg == "output_datasets"]
            consumers[n.func.id] = kw[0].value.id if kw and isinstance(kw[0].value, pyast.Name) else None
    problems: List[str] = []
    if set(consumers) != {"SQLTranspiler", "execute_queries"}:
        o.status, o.detail = UNDECIDED, f"consumers found: {consumers}"
        return
    names = set(consumers.values())
    if None in names or len(names) != 1:
        problems.append(f"the two consumers do not receive one plain variable as output_datasets: {consumers}")
    d = next(iter(names - {None}), None)
    if d:
        stores = []
        fills = []
        for n in pyast.walk(fn):
            if isinstance(n, (pyast.Assign, pyast.AnnAssign)):
                tg = n.targets if isinstance(n, pyast.Assign) else [n.target]
                for t in tg:
                    if isinstance(t, pyast.Name) and t.id == d:
                        v = n.value
                        empty = isinstance(v, pyast.Dict) and not v.keys or (isinstance(v, pyast.Call) and isinstance(v.func, pyast.Name) and v.func.id == "dict" and not v.args)
                        stores.append("empty" if empty else pyast.unparse(n)[:80])
                    if isinstance(t, pyast.Subscript) and isinstance(t.value, pyast.Name) and t.value.id == d:
                        fills.append(n)
            elif isinstance(n, (pyast.AugAssign, pyast.Delete)) and d in {x.id for x in pyast.walk(n) if isinstance(x, pyast.Name)}:
                stores.append(pyast.unparse(n)[:80])
            elif isinstance(n, pyast.Call) and isinstance(n.func, pyast.Attribute) and isinstance(n.func.value, pyast.Name) and n.func.value.id == d \
                    and n.func.attr in ("update", "pop", "popitem", "clear", "setdefault", "__setitem__", "__delitem__"):
                stores.append(pyast.unparse(n)[:80])
            elif isinstance(n, pyast.Call) and not (isinstance(n.func, pyast.Name) and n.func.id in ("SQLTranspiler", "execute_queries")):
                if any(isinstance(a, pyast.Name) and a.id == d for a in list(n.args) + [k.value for k in n.keywords]) and \
                        not (isinstance(n.func, pyast.Name) and n.func.id in ("len", "isinstance", "list", "sorted")):
                    stores.append("escapes into " + pyast.unparse(n.func))
        if stores != ["empty"]:
            problems.append(f"{d} is bound / mutated other than by one empty initialisation: {stores}")
        # the single fill: inside `for k, v in <sem>.items(): if isinstance(v, Dataset): d[k] = v`
        ok_fill = False
        for loop in [n for n in pyast.walk(fn) if isinstance(n, pyast.For)]:
            it = loop.iter
            if not (isinstance(it, pyast.Call) and isinstance(it.func, pyast.Attribute) and it.func.attr == "items" and
                    isinstance(it.func.value, pyast.Name) and it.func.value.id == sem[0] and isinstance(loop.target, pyast.Tuple) and
                    len(loop.target.elts) == 2 and all(isinstance(x, pyast.Name) for x in loop.target.elts)):
                continue
            kname, vname = (x.id for x in loop.target.elts)  # type: ignore[union-attr]
            inside = [n for n in pyast.walk(loop) if n in fills]
            if len(inside) == len(fills) == 1:
                a = inside[0]
                tgt = a.targets[0]
                good_store = isinstance(tgt.slice, pyast.Name) and tgt.slice.id == kname and isinstance(a.value, pyast.Name) and a.value.id == vname
                guard = [g for g in pyast.walk(loop) if isinstance(g, pyast.If) and a in list(pyast.walk(g))[1:] and a in g.body]
                good_guard = bool(guard) and pyast.unparse(guard[0].test).replace(" ", "") == f"isinstance({vname},Dataset)"
                ok_fill = good_store and good_guard
        if not ok_fill:
            problems.append(f"{d} is not filled by exactly `for k, v in {sem[0]}.items(): if isinstance(v, Dataset): {d}[k] = v` "
                            f"({len(fills)} subscript store(s))")
    if problems:
        o.status, o.detail, o.replayed = REFUTED, "; ".join(problems), None
        o.finding_key = "C10::run::output_datasets-dataflow"
        o.witness = {"problems": problems}
    else:
        o.status = DISCHARGED
        o.detail = f"{d} := {{}}; filled from {sem[0]} = {interp[0]}.visit(...); passed unchanged to SQLTranspiler and execute_queries"


# ---- (6) loaders validate what they insert ----------------------------------------------------------------------------------------------------
def p_loaders(chk: Check) -> None:
    f = f"src/vtlengine/{IO}:<loaders>"
    o = chk.ob(f"{f}::every-insert-is-followed-by-post-load-validation", f"src/vtlengine/{IO}",
               "every function of io/_io.py that INSERTs datapoints into a table calls _validate_loaded_table afterwards, "
               "unconditionally (top level of the function body or of its per-dataset loop)")
    o.backend = "static-call-sites"
    try:
        tree = pyast.parse(core.src_text(IO))
    except Exception as e:  # noqa: BLE001
        o.status, o.detail = UNDECIDED, str(e)
        return
    loaders, bad = [], []
    for fn in [n for n in tree.body if isinstance(n, pyast.FunctionDef)]:
        def has_insert(node: pyast.AST) -> bool:
            return any(isinstance(c, pyast.Constant) and isinstance(c.value, str) and "INSERT INTO" in c.value for c in pyast.walk(node))
        if not has_insert(fn):
            continue
        loaders.append(fn.name)

        def scan(stmts: Sequence[pyast.stmt]) -> bool:
            seen_insert = False
            for st in stmts:
                if isinstance(st, pyast.For) and has_insert(st):
                    return scan(st.body)
                if has_insert(st):
                    seen_insert = True
                    continue
                if seen_insert and isinstance(st, pyast.Expr) and isinstance(st.value, pyast.Call) and \
                        isinstance(st.value.func, pyast.Name) and st.value.func.id == "_validate_loaded_table":
                    return True
            return False
        if not scan(fn.body):
            bad.append(fn.name)
    chk.extra["loaders_with_insert"] = loaders
    if not loaders:
        o.status, o.detail = UNDECIDED, "no INSERT statement found in io/_io.py"
    elif bad:
        o.status, o.detail, o.replayed = REFUTED, f"no unconditional _validate_loaded_table call after the INSERT in {bad}", None
        o.finding_key = "C10::loaders::" + ",".join(bad)
        o.witness = {"functions": bad}
    else:
        o.status, o.detail = DISCHARGED, f"loaders {loaders}"
