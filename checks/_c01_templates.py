"""C01 proof tier, value layer: which template is proved against which specification.

Two SQL providers deliver the text for the same abstract cases:
  * `RegistryProvider`: `registry.sql(token, *operands, data_type=...)` of the real operator registry, enumerated at run time;
  * `VisitorProvider` : the real `SQLTranspiler.visit(...)` on a hand-built AST node whose operands are components of a clause
    scope (so they render as bare columns) - `visit_BinOp` / `_make_binary_expr` typed dispatch, `visit_UnaryOp`,
    `visit_ParamOp`, `visit_MulOp_between` -> `_between_expr`, `visit_If` -> `_scalar_if_sql`, `visit_Case` ->
    `_build_case_when_sql`, `visit_Collection`.
"""
from __future__ import annotations

import ast as pyast
import itertools
import sys
from dataclasses import dataclass, field
from pathlib import Path
from typing import Any, Callable, Dict, Iterator, List, Optional, Sequence, Tuple

sys.path.insert(0, str(Path(__file__).resolve().parent.parent))
sys.path.insert(0, str(Path(__file__).resolve().parent))
import _c01_proof as PF  # noqa: E402
from _c01_proof import (OPS_F, TR_F, Case, Prover, Spec, nany, nl, sp_arith, sp_between, sp_bool, sp_bool_to_str,  # noqa: E402
                        sp_case, sp_case_map, sp_cmp, sp_concat, sp_div, sp_if, sp_in, sp_instr_first, sp_isnull, sp_length,
                        sp_mod_value, sp_mod_zero, sp_not, sp_nullprop, sp_nvl, sp_replace, sp_substr, sp_trim,
                        sp_unary_num, val)
from vc import core, smt  # noqa: E402
from vc import pipeline as P  # noqa: E402
from vc.smt import And, Eq, Ge, Gt, Ite, Le, Lt, Not, Or, is_sym  # noqa: E402
from vc.sqlelem import DURATIONS, ElemEngine, Operand  # noqa: E402
from vc.sqlvc import NULL, SV, SqlOutside, digits_value  # noqa: E402
from vc.sqlvc_ext import REq, RLe, RLt  # noqa: E402

NUM_SIGS = [("Integer", "Integer"), ("Number", "Number"), ("Integer", "Number"), ("Number", "Integer")]
NAMES = ["a", "b", "c", "d", "e"]
INDS = ["A", "S", "Q", "M", "W", "D"]
MAXLEN = 4 if core.os.environ.get("VERIF_TIER") == "thorough" else 3   # longest string operand of the character-vector reading

# registry entries that are not element-wise operators of C01 (decided by other properties)
OUT_OF_SCOPE = {
    "aggregate / analytic invocation (C03)": {"sum", "avg", "count", "min", "max", "median", "stddev_pop", "stddev_samp", "var_pop",
                                              "var_samp", "first_value", "last_value", "lag", "lead", "rank", "ratio_to_report"},
    "set operators (C05)": {"union", "intersect", "setdiff", "symdiff"},
    "time operators (C08)": {"datediff", "getyear", "getmonth", "dayofmonth", "dayofyear", "daytoyear", "daytomonth", "yeartoday",
                             "monthtoday"},
}
IN_SCOPE = {("+", 2), ("-", 2), ("*", 2), ("/", 2), ("mod", 2), ("=", 2), ("<>", 2), (">", 2), ("<", 2), (">=", 2), ("<=", 2),
            ("and", 2), ("or", 2), ("xor", 0), ("in", 2), ("not_in", 2), ("||", 2), ("power", 2), ("log", 2), ("nvl", 2),
            ("+", 1), ("-", 1), ("ceil", 1), ("floor", 1), ("abs", 1), ("exp", 1), ("ln", 1), ("sqrt", 1), ("not", 1),
            ("length", 1), ("trim", 1), ("ltrim", 1), ("rtrim", 1), ("upper", 1), ("lower", 1), ("isnull", 1),
            ("between", 3), ("round", 0), ("trunc", 0), ("instr", 0), ("substr", 0), ("replace", 0), ("match_characters", 2)}


@dataclass
class AC:
    """Abstract case: operands + specification; `args` = the SQL operand strings / AST parameters when they are not simply
    the operand columns (None = omitted parameter, 'NULL' = the null constant, a numeral = an integer constant)."""
    label: str
    ops: List[Operand]
    spec_fn: Callable[[List[SV]], Spec]
    str_mode: str = "atom"
    pre: List[Any] = field(default_factory=list)
    args: Optional[List[Optional[str]]] = None
    grid: Optional[List[Tuple[Any, ...]]] = None

    def sql_args(self) -> List[Optional[str]]:
        return self.args if self.args is not None else [f'"{o.name}"' for o in self.ops]


@dataclass
class Clause:
    cid: str
    text: str
    cases: List[AC]
    key: str = ""


class Ctx:
    def __init__(self, eng: ElemEngine) -> None:
        self.eng = eng
        core.boot(full=True)
        import importlib
        self.opsmod = importlib.import_module("vtlengine.duckdb_transpiler.Transpiler.operators")
        self.registry = self.opsmod.registry
        self.DT = importlib.import_module("vtlengine.DataTypes")

    def o(self, i: int, kind: str, **kw: Any) -> Operand:
        return Operand(NAMES[i], kind, self.eng, **kw)

    def S(self, i: int, length: Optional[int] = None, **kw: Any) -> Operand:
        if length is None:
            return Operand(NAMES[i], "String", self.eng, reading="atom", **kw)
        return Operand(NAMES[i], "String", self.eng, reading="cstr", length=length, **kw)

    def dtype(self, kind: str) -> Any:
        return getattr(self.DT, {"Time_Period": "TimePeriod"}.get(kind, kind))


# ======================================================================================================================
# abstract cases per operator
# ======================================================================================================================
def period_parts(v: SV) -> Tuple[Any, int, Any]:
    ch = v.v.chars
    y = digits_value(ch[0:4])
    if len(ch) == 5:
        return y, ord("A"), 1
    return y, ch[5], digits_value(ch[6:])


def sp_period_cmp(op: str) -> Callable[[List[SV]], Spec]:
    def fn(svs: List[SV]) -> Spec:
        a, b = svs
        if a.sort == "null" or b.sort == "null":
            return Spec.value(NULL)
        (y1, i1, n1), (y2, i2, n2) = period_parts(a), period_parts(b)
        null = nany(a, b)
        eq = And(Eq(y1, y2), Eq(n1, n2)) if i1 == i2 else False
        if op in ("=", "<>"):
            return Spec.value(SV("bool", eq if op == "=" else Not(eq), null))
        if i1 != i2:
            return Spec([(True, NULL)], err=Not(null), errcode="2-1-19-19")
        lt = Or(Lt(y1, y2), And(Eq(y1, y2), Lt(n1, n2)))
        v = {"<": lt, "<=": Or(lt, eq), ">": And(Not(lt), Not(eq)), ">=": Not(lt)}[op]
        return Spec.value(SV("bool", v, null))
    return fn


def sp_duration_cmp(op: str, eng: ElemEngine) -> Callable[[List[SV]], Spec]:
    def rank(v: SV) -> Any:
        r: Any = 0
        for i, d in enumerate(DURATIONS):
            r = Ite(Eq(val(v), eng.code(d)), i + 1, r)
        return r

    def fn(svs: List[SV]) -> Spec:
        a, b = svs
        ra, rb = rank(a), rank(b)
        v = {"=": Eq(ra, rb), "<>": Not(Eq(ra, rb)), "<": Lt(ra, rb), "<=": Le(ra, rb), ">": Gt(ra, rb), ">=": Ge(ra, rb)}[op]
        return Spec.value(SV("bool", v, nany(a, b)))
    return fn


def bin_cases(c: Ctx, f: Callable[[SV, SV], Spec], sigs: Sequence[Tuple[str, str]]) -> List[AC]:
    return [AC(f"{ka} x {kb}", [c.o(0, ka), c.o(1, kb)], lambda s, f=f: f(s[0], s[1])) for ka, kb in sigs]


def cstr_pairs(c: Ctx, f: Callable[[SV, SV], Spec], lens: Sequence[int], **kw: Any) -> List[AC]:
    return [AC(f"String[{la}] x String[{lb}]", [c.S(0, la, **kw), c.S(1, lb, **kw)], lambda s, f=f: f(s[0], s[1]), "cstr")
            for la in lens for lb in lens]


def clauses_for(c: Ctx, tok: str, arity: int, dt: str = "") -> List[Clause]:  # noqa: C901
    """Contract clauses of one registry entry / operator."""
    eng = c.eng
    if dt == "TimePeriod":
        cases = []
        for ia, ib in itertools.product(INDS, INDS):
            cases.append(AC(f"{ia} x {ib}", [c.o(0, "Time_Period", ind=ia, null=False), c.o(1, "Time_Period", ind=ib, null=False)],
                            sp_period_cmp(tok), "cstr"))
        for ib in INDS:
            cases.append(AC(f"NULL x {ib}", [c.o(0, "Time_Period", ind="A", null=True), c.o(1, "Time_Period", ind=ib, null=False)],
                            sp_period_cmp(tok), "cstr"))
            cases.append(AC(f"{ib} x NULL", [c.o(0, "Time_Period", ind=ib, null=False), c.o(1, "Time_Period", ind="A", null=True)],
                            sp_period_cmp(tok), "cstr"))
        cases.append(AC("NULL x NULL", [c.o(0, "Time_Period", ind="A", null=True), c.o(1, "Time_Period", ind="A", null=True)],
                        sp_period_cmp(tok), "cstr"))
        return [Clause("period order", f"Time_Period {tok}: same period indicator -> order by (year, period number); different "
                       "indicators -> runtime error 2-1-19-19; a NULL operand -> NULL (no error); years 1000..9999, canonical "
                       "period texts", cases)]
    if dt == "Duration":
        return [Clause("duration order", f"Duration {tok}: comparison by length D < W < M < Q < S < A, NULL when an operand is NULL",
                       [AC("Duration x Duration", [c.o(0, "Duration"), c.o(1, "Duration")], sp_duration_cmp(tok, eng))])]
    if tok in ("+", "-", "*") and arity == 2:
        return [Clause("value", f"a {tok} b on Integer / Number operands (exact arithmetic), NULL when an operand is NULL",
                       bin_cases(c, lambda a, b: sp_arith(tok, a, b), NUM_SIGS))]
    if tok == "/":
        return [Clause("value or error", "a / b: quotient; NULL when an operand is NULL and the divisor is not 0; a zero divisor "
                       "with a non-NULL dividend raises runtime error 2-1-15-6 (NULL / 0 is left unspecified)",
                       bin_cases(c, sp_div, NUM_SIGS))]
    if tok == "mod":
        num_np = [AC(f"{ka} x {kb}", [c.o(0, ka), c.o(1, kb)], lambda s: Spec([], nullprop=nany(*s)))
                  for ka, kb in NUM_SIGS[1:]]
        return [Clause("value", "mod(a, b) = a mod b for Integers a >= 0, b > 0; NULL when an operand is NULL (sign convention for "
                       "negative operands and the value on Number operands are not specified here)",
                       bin_cases(c, sp_mod_value, NUM_SIGS[:1]) + num_np),
                Clause("zero divisor", "mod(x, 0) = x (VTL 2.1 reference manual, operator mod)",
                       bin_cases(c, sp_mod_zero, NUM_SIGS[:2]), key="template::mod::zero divisor")]
    if tok in ("=", "<>", "<", "<=", ">", ">="):
        cases = bin_cases(c, lambda a, b: sp_cmp(tok, a, b), NUM_SIGS + [("Date", "Date")])
        cases += cstr_pairs(c, lambda a, b: sp_cmp(tok, a, b), (0, 1, 2))
        if tok in ("=", "<>"):
            cases.append(AC("String x String (any strings)", [c.S(0), c.S(1)], lambda s: sp_cmp(tok, s[0], s[1])))
            cases.append(AC("Boolean x Boolean", [c.o(0, "Boolean"), c.o(1, "Boolean")], lambda s: sp_cmp(tok, s[0], s[1])))
            for ia, ib in itertools.product(INDS, INDS):
                cases.append(AC(f"Time_Period {ia} x {ib}", [c.o(0, "Time_Period", ind=ia), c.o(1, "Time_Period", ind=ib)],
                                sp_period_cmp(tok), "cstr"))
        return [Clause("value", f"a {tok} b on Integer / Number / Date / String (code-point order, lengths <= 2 for the ordering)"
                       + (" / Boolean / Time_Period (canonical texts)" if tok in ("=", "<>") else "")
                       + " operands; NULL when an operand is NULL", cases)]
    if tok in ("and", "or", "xor"):
        return [Clause("3VL table", f"a {tok} b follows the three-valued logic table for every combination of TRUE / FALSE / NULL",
                       [AC("Boolean x Boolean", [c.o(0, "Boolean"), c.o(1, "Boolean")], lambda s: sp_bool(tok, s[0], s[1]))])]
    if tok == "not":
        return [Clause("3VL table", "not a: negation, NULL for NULL", [AC("Boolean", [c.o(0, "Boolean")], lambda s: sp_not(s[0]))])]
    if tok in ("in", "not_in"):
        cases = []
        for kind in ("Integer", "Number", "String"):
            for n in (1, 2, 3):
                ops = [c.S(i) if kind == "String" else c.o(i, kind) for i in range(n + 1)]
                cases.append(AC(f"{kind} in {n}-element collection", ops, lambda s: sp_in(s[0], s[1:], tok == "not_in"),
                                args=['"a"', "(" + ", ".join(f'"{NAMES[i]}"' for i in range(1, n + 1)) + ")"]))
        return [Clause("membership", f"a {tok} {{e1..en}}: NULL for a NULL operand, else (non-)membership; collections of 1..3 "
                       "non-NULL elements (NULL elements are not specified)", cases)]
    if tok == "||":
        return [Clause("value", "a || b: concatenation, NULL when an operand is NULL (lengths <= 2)",
                       cstr_pairs(c, sp_concat, (0, 1, 2)))]
    if tok == "nvl":
        cases = bin_cases(c, sp_nvl, NUM_SIGS + [("Boolean", "Boolean"), ("Date", "Date"), ("Duration", "Duration")])
        cases.append(AC("String x String", [c.S(0), c.S(1)], lambda s: sp_nvl(s[0], s[1])))
        return [Clause("value", "nvl(a, b) = b when a is NULL, else a", cases)]
    if tok in ("+", "-") and arity == 1 or tok in ("abs", "ceil", "floor"):
        return [Clause("value", f"{tok}(a) on Integer and Number (ceil / floor: the nearest integer above / below), NULL for NULL",
                       [AC(k, [c.o(0, k)], lambda s: sp_unary_num(tok, s[0])) for k in ("Integer", "Number")])]
    if tok == "isnull":
        ops = [c.o(0, k) for k in ("Integer", "Number", "Boolean", "Date", "Duration")] + [c.S(0)]
        return [Clause("value", "isnull(a) = TRUE exactly for NULL, never NULL itself",
                       [AC(o.kind, [o], lambda s: sp_isnull(s[0])) for o in ops])]
    if tok == "length":
        return [Clause("value", "length(a) = number of characters (lengths <= 3), NULL for NULL",
                       [AC(f"String[{n}]", [c.S(0, n)], lambda s: sp_length(s[0]), "cstr") for n in range(MAXLEN + 1)])]
    if tok in ("upper", "lower"):
        return [Clause("value", f"{tok}(a): ASCII letters mapped, everything else unchanged (printable ASCII, lengths <= 3); NULL for "
                       "NULL (non-ASCII letters are not specified here)",
                       [AC(f"String[{n}]", [c.S(0, n, ascii_only=True)], lambda s: sp_case_map(s[0], tok == "upper"), "cstr")
                        for n in range(MAXLEN + 1)])]
    if tok in ("trim", "ltrim", "rtrim"):
        le, ri = tok in ("trim", "ltrim"), tok in ("trim", "rtrim")
        return [Clause("value", f"{tok}(a): blanks (U+0020) removed at the {'left' if le else ''}{' and ' if le and ri else ''}"
                       f"{'right' if ri else ''} end, nothing else (lengths <= 3); NULL for NULL",
                       [AC(f"String[{n}]", [c.S(0, n)], lambda s: sp_trim(s[0], le, ri), "cstr") for n in range(MAXLEN + 1)])]
    if tok in ("exp", "ln", "sqrt"):
        def f(s: List[SV]) -> Spec:
            x = s[0]
            if tok == "ln":
                return sp_nullprop(x, err=RLe(val(x), 0))
            if tok == "sqrt":
                return sp_nullprop(x, err=RLt(val(x), 0))
            return sp_nullprop(x)
        dom = {"ln": "; a <= 0 raises an error instead of producing a value", "sqrt": "; a < 0 raises an error", "exp": ""}[tok]
        return [Clause("null propagation / domain", f"{tok}(a): NULL exactly for NULL{dom} (the VALUE is not covered)",
                       [AC(k, [c.o(0, k)], f) for k in ("Integer", "Number")])]
    if tok in ("power", "log"):
        def g(s: List[SV]) -> Spec:
            a, b = s
            if tok == "log":
                sp = sp_nullprop(a, b, err=Or(RLe(val(a), 0), RLe(val(b), 0)))
                sp.unspec = And(Not(nany(a, b)), REq(val(b), 1))
                return sp
            return sp_nullprop(a, b)
        dom = "; a <= 0 or base <= 0 raises an error (base 1 not specified)" if tok == "log" else ""
        return [Clause("null propagation / domain", f"{tok}(a, b): NULL exactly when an operand is NULL{dom} (the VALUE is not covered)",
                       [AC(f"{ka} x {kb}", [c.o(0, ka), c.o(1, kb)], g) for ka, kb in NUM_SIGS[:2]])]
    if tok in ("round", "trunc"):
        def h(s: List[SV]) -> Spec:
            return Spec([], nullprop=nl(s[0]), notnull=And(Not(nl(s[0])), *[Not(nl(x)) for x in s[1:]]))
        cases = []
        for k in ("Integer", "Number"):
            cases.append(AC(f"{k}, precision column", [c.o(0, k), c.o(1, "Integer")], h))
            cases.append(AC(f"{k}, precision omitted", [c.o(0, k)], h, args=['"a"', None]))
            cases.append(AC(f"{k}, no precision argument", [c.o(0, k)], h, args=['"a"']))
            cases.append(AC(f"{k}, precision 2", [c.o(0, k)], h, args=['"a"', "2"]))
            cases.append(AC(f"{k}, precision null", [c.o(0, k)], lambda s: Spec([], nullprop=nl(s[0])), args=['"a"', "NULL"]))
        return [Clause("null propagation", f"{tok}(a, n): NULL when a is NULL; a value when a and n are not NULL / n omitted (the "
                       "rounded VALUE and a NULL precision are not covered)", cases)]
    if tok == "match_characters":
        return [Clause("null propagation", "match_characters(a, p): NULL when an operand is NULL (regular expressions are not "
                       "modelled: the VALUE is not covered)", [AC("String x String", [c.S(0), c.S(1)],
                                                                  lambda s: Spec([], nullprop=nany(*s)))])]
    if tok == "substr":
        cases = []
        for n in range(MAXLEN + 1):
            cases.append(AC(f"String[{n}], start and length columns", [c.S(0, n), c.o(1, "Integer"), c.o(2, "Integer")],
                            lambda s: sp_substr(s[0], s[1], s[2]), "cstr"))
            cases.append(AC(f"String[{n}], start column", [c.S(0, n), c.o(1, "Integer")],
                            lambda s: sp_substr(s[0], s[1], None), "cstr", args=['"a"', '"b"', None]))
            cases.append(AC(f"String[{n}], length column", [c.S(0, n), c.o(2, "Integer")],
                            lambda s: sp_substr(s[0], None, s[1]), "cstr", args=['"a"', None, '"c"']))
            cases.append(AC(f"String[{n}], no parameters", [c.S(0, n)], lambda s: sp_substr(s[0], None, None), "cstr", args=['"a"']))
            cases.append(AC(f"String[{n}], both omitted", [c.S(0, n)], lambda s: sp_substr(s[0], None, None), "cstr",
                            args=['"a"', None, None]))
            cases.append(AC(f"String[{n}], constants 2, 1", [c.S(0, n)],
                            lambda s: sp_substr(s[0], SV("int", 2, False), SV("int", 1, False)), "cstr", args=['"a"', "2", "1"]))
        return [Clause("value", "substr(s, start, length) = characters start .. start+length-1 (1-based), omitted start = 1, omitted "
                       "length = to the end; NULL for a NULL string (lengths <= 3; start < 1, length < 0 and NULL-valued parameters "
                       "are not specified)", cases)]
    if tok == "replace":
        cases = []
        for n, m, r in itertools.product(range(MAXLEN + 1), (1, 2), (0, 1)):
            cases.append(AC(f"String[{n}], pattern[{m}], replacement[{r}]", [c.S(0, n), c.S(1, m), c.S(2, r)],
                            lambda s: sp_replace(s[0], s[1], s[2]), "cstr"))
        for n, m in itertools.product(range(MAXLEN + 1), (1, 2)):
            cases.append(AC(f"String[{n}], pattern[{m}], replacement omitted", [c.S(0, n), c.S(1, m)],
                            lambda s: sp_replace(s[0], s[1], PF.strv([])), "cstr", args=['"a"', '"b"', None]))
        cases.append(AC("pattern is the null constant", [c.S(0, 2)], lambda s: Spec.value(NULL), "cstr", args=['"a"', "NULL", None]))
        return [Clause("value", "replace(s, p, r): every occurrence of p (scanning from the left, non-overlapping) replaced by r "
                       "(omitted r = empty string); NULL when an operand is NULL (lengths: s <= 3, p 1..2, r <= 1; the empty "
                       "pattern is not specified)", cases)]
    if tok == "instr":
        cases = []
        for n, m in itertools.product(range(MAXLEN + 1), (1, 2)):
            for lab, args in (("defaults", ['"a"', '"b"']), ("omitted", ['"a"', '"b"', None, None]), ("constants 1, 1", ['"a"', '"b"', "1", "1"]),
                              ("null constants", ['"a"', '"b"', "NULL", "NULL"])):
                cases.append(AC(f"String[{n}], pattern[{m}], start / occurrence {lab}", [c.S(0, n), c.S(1, m)],
                                lambda s: sp_instr_first(s[0], s[1]), "cstr", args=args))
        cols = [c.S(0, 2), c.S(1, 1), c.o(2, "Integer"), c.o(3, "Integer")]
        np_cases = [AC("String[2], pattern[1], start and occurrence columns", cols, lambda s: Spec([], nullprop=nany(s[0], s[1])), "cstr",
                       pre=[Or(cols[3].sv.null, Eq(cols[3].sv.v, 1)), Or(cols[2].sv.null, Ge(cols[2].sv.v, 1))])]
        return [Clause("value (first occurrence)", "instr(s, p) with default / 1 start and occurrence: 1-based position of the first "
                       "occurrence, 0 when there is none; NULL when s or p is NULL (lengths: s <= 3, p 1..2; the empty pattern is "
                       "not specified)", cases),
                Clause("null propagation", "instr(s, p, start, occurrence) with column parameters: NULL when s or p is NULL (the "
                       "VALUE for start > 1 and occurrence > 1 - a recursive CTE - is not covered)", np_cases)]
    raise KeyError((tok, arity, dt))


# ======================================================================================================================
# providers
# ======================================================================================================================
class RegistryProvider:
    name = "registry"

    def __init__(self, c: Ctx) -> None:
        self.c = c

    def function(self, tok: str, arity: int, dt: str) -> str:
        return f"{OPS_F}:registry[{tok}/{arity}{', ' + dt if dt else ''}]"

    def sql(self, tok: str, ac: AC, dt: str) -> str:
        args = ac.sql_args()
        kind0 = ac.ops[0].kind
        data_type = self.c.dtype(kind0)
        return self.c.registry.sql(tok, *args, data_type=data_type)


class VisitorProvider:
    """SQL of the real visitor for a scalar (component-level) expression: operands are components of the clause dataset."""
    name = "visitor"
    VTYPE = {"Integer": "Integer", "Number": "Number", "Boolean": "Boolean", "String": "String", "Time_Period": "Time_Period",
             "Duration": "Duration", "Date": "Date"}

    def __init__(self, c: Ctx) -> None:
        self.c = c
        import importlib
        self.A = P.A()
        self.load = importlib.import_module("vtlengine.API._InternalApi").load_datasets
        self.TR = importlib.import_module("vtlengine.duckdb_transpiler.Transpiler").SQLTranspiler

    def function(self, tok: str, arity: int, dt: str) -> str:
        how = {1: "visit_UnaryOp", 2: "visit_BinOp", 3: "visit_MulOp_between", 0: "visit_ParamOp"}[arity]
        if tok == "xor":
            how = "visit_BinOp"
        return f"{TR_F}:SQLTranspiler.{how}[{tok}{', ' + dt if dt else ''}]"

    def scope(self, ops: Sequence[Operand]) -> Tuple[Any, Any]:
        comps = [{"name": "Id_1", "type": "Integer", "role": "Identifier", "nullable": False}]
        comps += [{"name": o.name, "type": self.VTYPE[o.kind], "role": "Measure", "nullable": True} for o in ops]
        ds, sc = self.load({"datasets": [{"name": "DS_1", "DataStructure": comps}]})
        tr = self.TR(input_datasets=ds, output_datasets={}, input_scalars=sc, output_scalars={}, dag=None)
        return tr, ds["DS_1"]

    def node(self, arg: Optional[str]) -> Any:
        A = self.A
        if arg is None:
            return A.ID(type_="OPTIONAL", value="_", **P.KW)
        if arg == "NULL":
            return A.Constant(type_="NULL_CONSTANT", value=None, **P.KW)
        if arg.startswith('"'):
            return P.var(arg.strip('"'))
        return A.Constant(type_="INTEGER_CONSTANT", value=int(arg), **P.KW)

    def ast(self, tok: str, ac: AC) -> Any:
        A = self.A
        args = ac.sql_args()
        if tok in ("in", "not_in"):
            els = [P.var(x.strip('"')) for x in args[1].strip("()").split(", ")]
            coll = A.Collection(name="List", type="Lists", children=els, kind="Set", **P.KW)
            return A.BinOp(left=self.node(args[0]), op=tok, right=coll, **P.KW)
        if tok in ("round", "trunc", "substr", "replace", "instr"):
            return A.ParamOp(op=tok, children=[self.node(args[0])], params=[self.node(x) for x in args[1:]], **P.KW)
        if tok == "between":
            return A.MulOp(op="between", children=[self.node(x) for x in args], **P.KW)
        if len(args) == 1:
            return A.UnaryOp(op=tok, operand=self.node(args[0]), **P.KW)
        return A.BinOp(left=self.node(args[0]), op=tok, right=self.node(args[1]), **P.KW)

    def visit(self, ops: Sequence[Operand], node: Any) -> str:
        tr, ds = self.scope(ops)
        with tr._clause_scope(ds):           # noqa: SLF001 - the transpiler's own clause scope
            return tr.visit(node)

    def sql(self, tok: str, ac: AC, dt: str) -> str:
        return self.visit(ac.ops, self.ast(tok, ac))


def emit(pv: Prover, prov: Any, tok: str, arity: int, dt: str, clauses: Sequence[Clause]) -> None:
    fn = prov.function(tok, arity, dt)
    for cl in clauses:
        cases: List[Case] = []
        problem = ""
        for ac in cl.cases:
            try:
                sql = prov.sql(tok, ac, dt)
            except Exception as e:  # noqa: BLE001
                problem = f"[{ac.label}] the generator raised {type(e).__name__}: {e}"
                break
            cases.append(Case(ac.label, sql, ac.ops, ac.spec_fn, list(ac.pre), ac.str_mode, ac.grid))
        oid = f"{fn}::{cl.cid}"
        if problem:
            ob = pv.chk.ob(oid, fn, cl.text)
            ob.status, ob.detail = core.UNDECIDED, problem
            continue
        key = cl.key or f"template::{prov.name}::{tok}/{arity}{'/' + dt if dt else ''}::{cl.cid}"
        pv.add(oid, fn, cl.text, cases, key)


# ======================================================================================================================
# the value layer
# ======================================================================================================================
def registry_obligations(pv: Prover, c: Ctx) -> Dict[str, Any]:
    reg = c.registry
    entries = sorted(reg._operators.items(), key=lambda kv: (kv[0][0], kv[0][1]))       # noqa: SLF001
    typed = sorted(((tok, dt.__name__) for tok, dt in reg._typed_overrides), key=str)  # noqa: SLF001
    report: Dict[str, Any] = {"entries": len(entries), "typed_overrides": len(typed), "in_scope": [], "out_of_scope": {},
                              "unclassified": []}
    prov = RegistryProvider(c)
    seen = set()
    for (tok, arity), _op in entries:
        seen.add((tok, arity))
        reason = next((r for r, toks in OUT_OF_SCOPE.items() if tok in toks), None)
        if reason is not None:
            report["out_of_scope"].setdefault(reason, []).append(f"{tok}/{arity}")
            continue
        if (tok, arity) not in IN_SCOPE:
            report["unclassified"].append(f"{tok}/{arity}")
            ob = pv.chk.ob(f"{prov.function(tok, arity, '')}::classified", prov.function(tok, arity, ""),
                           "every registry entry is either an element-wise operator with a contract or belongs to another property")
            ob.status, ob.detail = core.UNDECIDED, f"registry entry ({tok}, {arity}) has no contract in checks/_c01_templates.py"
            continue
        if tok == "between":
            between_reachability(pv, c)
            report["in_scope"].append("between/3 (superseded by _between_expr)")
            continue
        report["in_scope"].append(f"{tok}/{arity}")
        emit(pv, prov, tok, arity, "", clauses_for(c, tok, arity))
    for tok, dtn in typed:
        reason = next((r for r, toks in OUT_OF_SCOPE.items() if tok in toks), None)
        if reason is not None:
            report["out_of_scope"].setdefault(reason, []).append(f"{tok}[{dtn}]")
            continue
        if dtn not in ("TimePeriod", "Duration") or tok not in ("=", "<>", "<", "<=", ">", ">="):
            # an override this file does not know: the generic contract of the operator, on the cases whose leading operand
            # has the overriding type (the registry is asked with data_type = type of the leading operand, as the callers do)
            kind = {"TimePeriod": "Time_Period"}.get(dtn, dtn)
            ars = [a for (t, a) in IN_SCOPE if t == tok]
            done = False
            for ar in ars:
                cls = []
                for cl in clauses_for(c, tok, ar):
                    keep = [ac for ac in cl.cases if ac.ops and ac.ops[0].kind == kind]
                    if keep:
                        cls.append(Clause(cl.cid, f"[override for {dtn}] " + cl.text, keep, cl.key))
                if cls:
                    fnp = RegistryProvider(c)
                    fnp.function = lambda tok_, ar_, dt_, dtn=dtn: f"{OPS_F}:registry[{tok_}/{ar_}, {dtn}]"   # type: ignore[method-assign]
                    emit(pv, fnp, tok, ar, "", cls)
                    done = True
            if not done:
                ob = pv.chk.ob(f"{prov.function(tok, 2, dtn)}::classified", prov.function(tok, 2, dtn), "typed override has a contract")
                ob.status, ob.detail = core.UNDECIDED, f"typed override ({tok}, {dtn}) has no contract"
            else:
                report["in_scope"].append(f"{tok}[{dtn}] (generic contract)")
            continue
        report["in_scope"].append(f"{tok}[{dtn}]")
        emit(pv, prov, tok, 2, dtn, clauses_for(c, tok, 2, dtn))
    for tok, arity in sorted(IN_SCOPE - seen):
        fn = prov.function(tok, arity, "")
        ob = pv.chk.ob(f"{fn}::registered", fn, "the operator is registered (else the TOKEN(operands) fallback would be emitted)")
        ob.status, ob.detail = core.UNDECIDED, f"({tok}, {arity}) is no longer in the registry: contract not applicable"
    return report


def between_reachability(pv: Prover, c: Ctx) -> None:
    """The raw registry template `({0} BETWEEN {1} AND {2})` does not propagate NULL the VTL way; the transpiler must not use
    it: every `between` goes through `visit_MulOp_between` -> `_between_expr` (static check on the source of the run)."""
    fn = f"{OPS_F}:registry[between/3]"
    ob = pv.chk.ob(f"{fn}::superseded", fn, "the raw BETWEEN template is never emitted: SQLTranspiler.visit_MulOp_between exists, "
                   "builds its text with _between_expr only, and nothing else in the transpiler asks the registry for `between`")
    src = core.src_text("duckdb_transpiler/Transpiler/__init__.py")
    tree = pyast.parse(src)
    meth = None
    for n in pyast.walk(tree):
        if isinstance(n, pyast.FunctionDef) and n.name == "visit_MulOp_between":
            meth = n
    ob.backend = "static-analysis"
    if meth is None:
        ob.status, ob.detail = core.UNDECIDED, "visit_MulOp_between not found (moved?)"
        return
    calls = [pyast.unparse(x.func) for x in pyast.walk(meth) if isinstance(x, pyast.Call)]
    uses_registry = any("registry.sql" in x for x in calls)
    uses_helper = any(x.endswith("_between_expr") for x in calls)
    other = [ln for ln in src.splitlines() if "tokens.BETWEEN" in ln]
    if uses_helper and not uses_registry and not other:
        ob.status, ob.detail = core.DISCHARGED, f"calls in visit_MulOp_between: {sorted(set(calls))}; no other reference to tokens.BETWEEN"
    else:
        ob.status = core.REFUTED
        ob.detail = f"visit_MulOp_between calls {sorted(set(calls))}; references to tokens.BETWEEN: {other[:3]}"
        ob.finding_key = "template::between::raw template reachable"
        ob.replayed = None


def visitor_obligations(pv: Prover, c: Ctx) -> None:
    prov = VisitorProvider(c)
    for tok, arity in sorted(IN_SCOPE, key=str):
        if tok == "between":
            continue
        emit(pv, prov, tok, arity, "", clauses_for(c, tok, arity))
    for dtn in ("TimePeriod", "Duration"):
        for tok in ("<", "<=", ">", ">=") + (("=", "<>") if dtn == "Duration" else ()):
            emit(pv, prov, tok, 2, dtn, clauses_for(c, tok, 2, dtn))
    helper_obligations(pv, c, prov)


def helper_obligations(pv: Prover, c: Ctx, prov: VisitorProvider) -> None:
    A = prov.A
    import importlib
    trmod = importlib.import_module("vtlengine.duckdb_transpiler.Transpiler")
    TR = trmod.SQLTranspiler
    # _between_expr (called directly) and through visit_MulOp_between
    sigs: List[Tuple[str, List[Operand], str]] = []
    for k in ("Integer", "Number", "Date"):
        sigs.append((k, [c.o(0, k), c.o(1, k), c.o(2, k)], "atom"))
    sigs.append(("Integer in Number bounds", [c.o(0, "Integer"), c.o(1, "Number"), c.o(2, "Number")], "atom"))
    for la, lb, lc in ((1, 1, 1), (2, 1, 2), (0, 1, 1), (1, 0, 2)):
        sigs.append((f"String[{la}] in String[{lb}]..String[{lc}]", [c.S(0, la), c.S(1, lb), c.S(2, lc)], "cstr"))
    text = "between(x, lo, hi) = lo <= x and x <= hi; NULL when ANY of the three operands is NULL"
    fn = f"{TR_F}:SQLTranspiler._between_expr"
    pv.add(f"{fn}::value", fn, text, [Case(lab, TR._between_expr('"a"', '"b"', '"c"'), ops,
                                           lambda s: sp_between(s[0], s[1], s[2]), [], mode) for lab, ops, mode in sigs],
           "template::_between_expr::value")
    fn2 = f"{TR_F}:SQLTranspiler.visit_MulOp_between[scalar]"
    cases = []
    for lab, ops, mode in sigs:
        node = A.MulOp(op="between", children=[P.var("a"), P.var("b"), P.var("c")], **P.KW)
        cases.append(Case(lab, prov.visit(ops, node), ops, lambda s: sp_between(s[0], s[1], s[2]), [], mode))
    pv.add(f"{fn2}::value", fn2, text, cases, "template::visit_MulOp_between::value")
    # _bool_to_str
    fn = f"{TR_F}:_bool_to_str"
    pv.add(f"{fn}::value", fn, "Boolean -> String promotion: TRUE -> 'True', FALSE -> 'False', NULL -> NULL",
           [Case("Boolean", trmod._bool_to_str('"a"'), [c.o(0, "Boolean")], lambda s: sp_bool_to_str(s[0], c.eng))],
           "template::_bool_to_str::value")
    # scalar if / case
    branch_sigs: List[Tuple[str, Callable[[int], Operand]]] = [
        ("Integer", lambda i: c.o(i, "Integer")), ("Number", lambda i: c.o(i, "Number")), ("String", lambda i: c.S(i)),
        ("Boolean", lambda i: c.o(i, "Boolean")), ("Date", lambda i: c.o(i, "Date"))]
    fn = f"{TR_F}:SQLTranspiler._scalar_if_sql"
    cases = []
    for lab, mk in branch_sigs:
        ops = [c.o(0, "Boolean"), mk(1), mk(2)]
        node = A.If(condition=P.var("a"), thenOp=P.var("b"), elseOp=P.var("c"), **P.KW)
        cases.append(Case(f"then/else {lab}", prov.visit(ops, node), ops, lambda s: sp_if(s[0], s[1], s[2])))
    ops = [c.o(0, "Boolean"), c.o(1, "Integer"), c.o(2, "Number")]
    cases.append(Case("then Integer / else Number", prov.visit(ops, A.If(condition=P.var("a"), thenOp=P.var("b"), elseOp=P.var("c"), **P.KW)),
                      ops, lambda s: sp_if(s[0], s[1], s[2])))
    pv.add(f"{fn}::value", fn, "if c then t else e: t when c is TRUE; e when c is FALSE or NULL", cases, "template::_scalar_if_sql::value")
    fn = f"{TR_F}:SQLTranspiler._build_case_when_sql"
    cases = []
    for lab, mk in branch_sigs[:3]:
        for nwhen in (1, 2):
            if nwhen == 1:
                ops = [c.o(0, "Boolean"), mk(1), mk(2)]
                node = A.Case(cases=[A.CaseObj(condition=P.var("a"), thenOp=P.var("b"), **P.KW)], elseOp=P.var("c"), **P.KW)
                cases.append(Case(f"1 when, {lab}", prov.visit(ops, node), ops, lambda s: sp_case([s[0]], [s[1]], s[2])))
            else:
                ops = [c.o(0, "Boolean"), mk(1), c.o(2, "Boolean"), mk(3), mk(4)]
                node = A.Case(cases=[A.CaseObj(condition=P.var("a"), thenOp=P.var("b"), **P.KW),
                                     A.CaseObj(condition=P.var("c"), thenOp=P.var("d"), **P.KW)], elseOp=P.var("e"), **P.KW)
                cases.append(Case(f"2 whens, {lab}", prov.visit(ops, node), ops, lambda s: sp_case([s[0], s[2]], [s[1], s[3]], s[4])))
    pv.add(f"{fn}::value", fn, "case when c1 then t1 [when c2 then t2] else e: the branch whose condition is TRUE, e when no "
           "condition is TRUE (NULL counts as not TRUE); which branch wins when several conditions are TRUE is not specified",
           cases, "template::_build_case_when_sql::value")
    # collection literal rendering + in (constants through visit_Collection)
    fn = f"{TR_F}:SQLTranspiler.visit_BinOp[in, constants]"
    from spec import vtlref as R
    cases = []
    for neg in (False, True):
        ops = [c.o(0, "Integer")]
        node = R.to_ast(("in", ("comp", "a"), [1, 2, 3], neg))
        cases.append(Case(f"Integer {'not_in' if neg else 'in'} {{1, 2, 3}}", prov.visit(ops, node), ops,
                          lambda s, neg=neg: sp_in(s[0], [SV("int", k, False) for k in (1, 2, 3)], neg)))
        ops = [c.S(0)]
        node = R.to_ast(("in", ("comp", "a"), ["x", "y"], neg))
        cases.append(Case(f"String {'not_in' if neg else 'in'} {{'x', 'y'}}", prov.visit(ops, node), ops,
                          lambda s, neg=neg: sp_in(s[0], [SV("atom", c.eng.code(k), False) for k in ("x", "y")], neg)))
    pv.add(f"{fn}::membership", fn, "a in / not_in {constants}: NULL for NULL, else (non-)membership in the listed constants", cases,
           "template::visit_BinOp in constants::membership")


# ======================================================================================================================
# the specification functions agree with spec/vtlref.py wherever vtlref defines the operator (concrete grid, every run)
# ======================================================================================================================
def py_of(eng: ElemEngine, v: SV) -> Any:
    if v.sort == "null" or v.null is True:
        return None
    if v.sort == "atom":
        return eng.text_of(v.v)
    if v.sort == "str":
        return v.v.concrete()
    return v.v


def spec_result(eng: ElemEngine, sp: Spec) -> Tuple[str, Any]:
    if is_sym(sp.unspec) or is_sym(sp.err):
        return ("symbolic", None)
    if sp.unspec:
        return ("unspecified", None)
    if sp.err:
        return ("error", sp.errcode)
    for cond, v in sp.alts:
        if is_sym(cond):
            return ("symbolic", None)
        if cond:
            return ("value", py_of(eng, v))
    return ("no-alternative", None)


def vtlref_crosscheck(pv: Prover, c: Ctx) -> List[str]:
    from fractions import Fraction
    from spec import vtlref as R
    eng = c.eng
    bad: List[str] = []
    ints, nums, bools = [None, 0, 1, -3, 7], [None, Fraction(0), Fraction(3, 2), Fraction(-9, 4), Fraction(4)], [None, True, False]
    strs = [None, "", " a ", "ab", "B", "b ", "  "]

    def mk(kind: str, i: int, v: Any, chars: bool = False) -> SV:
        if v is None:
            return NULL
        if kind == "String":
            return SV("str", PF.CStr.lit(v), False) if chars else SV("atom", eng.code(v), False)
        return c.o(i, kind).concrete(v)

    def same_py(x: Any, y: Any) -> bool:
        if x is None or y is None:
            return x is None and y is None
        if isinstance(x, bool) or isinstance(y, bool):
            return isinstance(x, bool) and isinstance(y, bool) and x == y
        if isinstance(x, str) or isinstance(y, str):
            return x == y
        fx, fy = Fraction(x), Fraction(y)          # vtlref divides in floating point
        return abs(fx - fy) <= Fraction(1, 10 ** 12) * max(1, abs(fx), abs(fy))

    def check(label: str, sp: Spec, ref: Callable[[], Any]) -> None:
        pv.vtlref_n += 1
        got = spec_result(eng, sp)
        try:
            want: Tuple[str, Any] = ("value", ref())
        except R.RefError as e:
            want = ("error", str(e))
        except R.RefUnsupported:
            want = ("unspecified", None)
        ok = got[0] == want[0] and (got[0] != "value" or same_py(got[1], want[1])) and (got[0] != "error" or got[1] == want[1])
        if not ok and len(bad) < 5:
            bad.append(f"{label}: specification {got} / vtlref {want}")
    pools = {"Integer": ints, "Number": nums, "Boolean": bools, "String": strs}
    for op in ("+", "-", "*", "/", "=", "<>", "<", "<=", ">", ">=", "nvl"):
        for ka, kb in NUM_SIGS:
            for x, y in itertools.product(pools[ka], pools[kb]):
                f = {"/": sp_div, "nvl": sp_nvl}.get(op) or (
                    (lambda a, b, op=op: sp_arith(op, a, b)) if op in "+-*" else (lambda a, b, op=op: sp_cmp(op, a, b)))
                check(f"{x} {op} {y}", f(mk(ka, 0, x), mk(kb, 1, y)), lambda: R.sc_bin(op, x, y))
    for op in ("and", "or", "xor"):
        for x, y in itertools.product(bools, bools):
            check(f"{x} {op} {y}", sp_bool(op, mk("Boolean", 0, x), mk("Boolean", 1, y)), lambda: R.sc_bin(op, x, y))
    for op in ("=", "<>", "<", "<=", ">", ">=", "||"):
        for x, y in itertools.product(strs, strs):
            f = sp_concat if op == "||" else (lambda a, b, op=op: sp_cmp(op, a, b))
            check(f"{x!r} {op} {y!r}", f(mk("String", 0, x, True), mk("String", 1, y, True)), lambda: R.sc_bin(op, x, y))
    for x, y in itertools.product(strs, strs):
        check(f"nvl({x!r}, {y!r})", sp_nvl(mk("String", 0, x), mk("String", 1, y)), lambda: R.sc_bin("nvl", x, y))
        check(f"{x!r} = {y!r} (atoms)", sp_cmp("=", mk("String", 0, x), mk("String", 1, y)), lambda: R.sc_bin("=", x, y))
    for x in bools:
        check(f"not {x}", sp_not(mk("Boolean", 0, x)), lambda: R.sc_un("not", x))
    for kind in ("Integer", "Number"):
        for x in pools[kind]:
            for op in ("-", "abs", "isnull"):
                sp = sp_isnull(mk(kind, 0, x)) if op == "isnull" else sp_unary_num(op, mk(kind, 0, x))
                check(f"{op}({x})", sp, lambda: R.sc_un(op, x))
    for x in strs:
        for op, f in (("length", sp_length), ("upper", lambda a: sp_case_map(a, True)), ("lower", lambda a: sp_case_map(a, False)),
                      ("trim", lambda a: sp_trim(a, True, True))):
            check(f"{op}({x!r})", f(mk("String", 0, x, True)), lambda: R.sc_un(op, x))
        if x is not None:
            for y in ("a", "b", "ab", " "):
                for z in ("", "x"):
                    check(f"replace({x!r},{y!r},{z!r})", sp_replace(mk("String", 0, x, True), mk("String", 1, y, True), mk("String", 2, z, True)),
                          lambda: x.replace(y, z))
                check(f"instr({x!r},{y!r})", sp_instr_first(mk("String", 0, x, True), mk("String", 1, y, True)), lambda: x.find(y) + 1)
            for st, ln in itertools.product((1, 2, 3, 4), (0, 1, 2, 5)):
                check(f"substr({x!r},{st},{ln})", sp_substr(mk("String", 0, x, True), SV("int", st, False), SV("int", ln, False)),
                      lambda: x[st - 1: st - 1 + ln])
            check("ltrim", sp_trim(mk("String", 0, x, True), True, False), lambda: x.lstrip(" "))
            check("rtrim", sp_trim(mk("String", 0, x, True), False, True), lambda: x.rstrip(" "))
    # in / between / if: the rules of vtlref.ev / cev
    for x in ints:
        for neg in (False, True):
            check(f"{x} in", sp_in(mk("Integer", 0, x), [SV("int", 1, False), SV("int", 7, False)], neg),
                  lambda: None if x is None else ((x not in [1, 7]) if neg else (x in [1, 7])))
        for lo, hi in itertools.product(ints, ints):
            check(f"between({x},{lo},{hi})", sp_between(mk("Integer", 0, x), mk("Integer", 1, lo), mk("Integer", 2, hi)),
                  lambda: None if x is None or lo is None or hi is None else (lo <= x <= hi))
    for cnd, t, e in itertools.product(bools, ints[:3], ints[:3]):
        check(f"if {cnd} then {t} else {e}", sp_if(mk("Boolean", 0, cnd), mk("Integer", 1, t), mk("Integer", 2, e)),
              lambda: R.cev(("if", ("const", cnd), ("const", t), ("const", e)), {}, {}))
    return bad
