"""C29 — names that differ only in letter case stay distinct.

Proof tier (real source re-read every run):
  (a1) symbolic execution (vc.pyvc) of the functions that splice identifiers into SQL text, over SYMBOLIC name strings:
         Transpiler/sql_builder.py  quote_name, quote_identifiers, build_column_expr, build_function_expr, build_binary_expr
         io/_validation.py          build_create_table_sql, build_select_columns
         io/_io.py                  _build_dataframe_select_columns
         io/_execution.py           _build_dataset_fetch_select   (connection = recording stand-in)
       contract: for ALL name strings the emitted text is the text emitted for placeholder names with the names
       substituted byte for byte (parametricity, SMT string equality per path), and in that template every name sits
       either directly between double quotes or inside a single-quoted SQL string literal (message text).
  (a2) static taint contract over the AST of the WHOLE duckdb_transpiler package (vc.pytaint): no value produced by a
       case-changing operation (.lower/.upper/.casefold/.capitalize/.title/.swapcase, re.IGNORECASE) reaches a quoted
       identifier position, a name-resolution key, or a comparison with a non-constant.  One obligation per call site;
       a site that does reach such a sink must satisfy one of two mechanically checked justifications (error-message
       matching / closed function without caller input) or it is refuted.
  (a3) static emission contract: every expression at a double-quoted position of an f-string and every argument of the
       quote_name family is a bare variable / attribute / subscript / constant or a call of a function of the package
       (no string method applied at the emission point).
  (b)  "two names distinct in VTL are distinct as DuckDB identifiers", under the axiom — validated on the real DuckDB
       on every run, mismatch = engine fault — that DuckDB compares quoted identifiers modulo ASCII letter case.
       Decided by cvc5 (str.to_lower) on the emitted identifier text; the counter-model is replayed through the real
       loaders.  EXPECTED to be refuted on the unchanged tree (known findings).
  (c)  quote_name(n) is a well-formed quoted identifier denoting n  <=>  n contains no '"' (no escaping).
Bounded tier (labelled bounded, never counted as proved): the real loaders with a recording connection; program
families with case-variant names on the real engine (extracted API.run) compared with the semantic analysis' predicted
structure and spec/vtlref.py; emitted SQL tokenised and every occurrence of a structure name checked to be quoted in
its exact spelling.
"""
from __future__ import annotations

import ast
import itertools
import os
import random
import re
import sys
import tempfile
from pathlib import Path
from typing import Any, Callable, Dict, List, Optional, Sequence, Tuple

sys.path.insert(0, str(Path(__file__).resolve().parent.parent))
sys.path.insert(0, str(Path(__file__).resolve().parent))
from _standins import FetchConn  # noqa: E402
from vc import core, smt  # noqa: E402
from vc.core import BOUNDED_OK, DISCHARGED, FAULT, REFUTED, UNDECIDED, Check, run_smt  # noqa: E402
from vc.pycheck import discharge  # noqa: E402
from vc.pysrc import all_modules, module_ast  # noqa: E402
from vc.pytaint import TaintAnalysis  # noqa: E402
from vc.pyvc import Engine, ObjV, Opaque, PathResult  # noqa: E402
from vc.smt import And, Eq, Not, T  # noqa: E402

PKG = "duckdb_transpiler/"
SB = "duckdb_transpiler/Transpiler/sql_builder.py"
VAL = "duckdb_transpiler/io/_validation.py"
IO = "duckdb_transpiler/io/_io.py"
EXE = "duckdb_transpiler/io/_execution.py"
NAME_RE = '(re.++ (re.union (re.range "A" "Z") (re.range "a" "z")) (re.* (re.union (re.range "A" "Z") (re.range "a" "z") ' \
          '(re.range "0" "9") (str.to_re "_"))))'
CANON = ["Me_1", "me_1", "ME_1", "Id_1", "iD_1", "At_x", "aT_X", "Zz_9", "zZ_9", "mE_1", "ID_1", "Qq", "qQ", "QQ"]


def F(rel: str, fn: str) -> str:
    return f"src/vtlengine/{rel}:{fn}"


# =====================================================================================================================
# axiom: DuckDB compares quoted identifiers modulo ASCII case (validated on the real DuckDB every run)
# =====================================================================================================================
def ascii_fold(s: str) -> str:
    return "".join(chr(ord(c) + 32) if "A" <= c <= "Z" else c for c in s)


def validate_axiom(chk: Check) -> None:
    import duckdb
    pool = ["Me_1", "me_1", "ME_1", "Me_2", "Id_1", "ID_1", "x", "X", "É", "é", "ß", "SS", "a b", "A B"]
    bad: List[str] = []
    n = 0
    con = duckdb.connect()
    try:
        for a, b in itertools.combinations(pool, 2):
            same = ascii_fold(a) == ascii_fold(b)
            for what, sqls, drop in (
                    ("column", [f'CREATE TABLE "_ax_t" ("{a}" INTEGER, "{b}" INTEGER)'], ['DROP TABLE IF EXISTS "_ax_t"']),
                    ("table", [f'CREATE TABLE "{a}" (c INTEGER)', f'CREATE TABLE "{b}" (c INTEGER)'],
                     [f'DROP TABLE IF EXISTS "{a}"', f'DROP TABLE IF EXISTS "{b}"'])):
                n += 1
                try:
                    for s in sqls:
                        con.execute(s)
                    collided = False
                except duckdb.Error:
                    collided = True
                for s in drop:
                    con.execute(s)
                if collided != same:
                    bad.append(f"{what} {a!r}/{b!r}: DuckDB collided={collided}, axiom says {same}")
            # resolution: a reference spelled in another case finds the column
            con.execute(f'CREATE TABLE "_ax_r" AS SELECT 7 AS "{a}"')
            try:
                resolved = con.execute(f'SELECT "{b}" FROM "_ax_r"').fetchone() == (7,)
            except duckdb.Error:
                resolved = False
            con.execute('DROP TABLE "_ax_r"')
            n += 1
            if resolved != same:
                bad.append(f"reference {b!r} to column {a!r}: resolved={resolved}, axiom says {same}")
    finally:
        con.close()
    chk.extra["duckdb_identifier_axiom"] = {"cases": n, "mismatches": bad[:5], "duckdb": duckdb.__version__}
    if bad:
        chk.fault("axiom 'DuckDB compares quoted identifiers modulo ASCII letter case' does not match the real DuckDB: " + bad[0])
    chk.assume("AXIOM (validated on the real DuckDB on every run, %d cases): two quoted identifiers denote the same "
               "column / table iff they are equal after folding ASCII letters A-Z to a-z" % n)


# =====================================================================================================================
# (a2) static taint contract
# =====================================================================================================================
PLANTED = '''
import re
TABLE = {"A": 1}
def quote_name(name):
    return f'"{name}"'
def direct(comp_name):
    return f'SELECT "{comp_name.lower()}" FROM t'
def via_var(comp_name):
    n = comp_name.upper()
    cols = []
    cols.append(n)
    return ", ".join(f'"{c}"' for c in cols)
def via_call(comp_name):
    return quote_name(comp_name.casefold())
def via_key(components, name):
    return components[name.lower()]
def via_get(components, name):
    low = {k.lower(): v for k, v in components.items()}
    return low.get(name)
def via_cmp(a, b):
    return a.lower() == b
def via_member(names, x):
    lowered = [n.lower() for n in names]
    return x in lowered
def via_regex(name, text):
    return re.search(name, text, re.IGNORECASE).group(0) == name
class V:
    def helper(self, x):
        return x.title()
    def visit_A(self, node):
        self.cur = self.helper(node.value)
    def emit(self):
        return 'SELECT "' + self.cur + '"'
def harmless(op, msg, comp_name):
    out = []
    out.append((comp_name, op.lower()))
    for n, o in out:
        if o.upper() in ("MIN", "MAX") and "x" in msg.lower() and TABLE.get(op.upper()):
            return f'{o.upper()}("{n}")'
    return msg.lower().startswith("select")
'''
PLANTED_EXPECT = {"direct": "IDENT", "via_var": "IDENT", "via_call": "IDENT", "via_key": "KEY", "via_get": "KEY",
                  "via_cmp": "CMP", "via_member": "CMP", "via_regex": "CMP", "V.helper": "IDENT"}


def taint_selftest(chk: Check) -> None:
    d = tempfile.mkdtemp(prefix="c29_planted_")
    p = Path(d) / "planted.py"
    p.write_text(PLANTED)
    try:
        ta = TaintAnalysis([str(p)])
        got: Dict[str, set] = {}
        for s in ta.sources:
            got.setdefault(s.function, set()).update(k.kind for k in ta.sinks_of(s.sid))
        for fn, kind in PLANTED_EXPECT.items():
            if kind not in got.get(fn, set()):
                chk.fault(f"taint self-test: planted flow in {fn} ({kind}) not detected")
        if got.get("harmless"):
            chk.fault(f"taint self-test: harmless uses reported as sinks: {got['harmless']}")
        chk.extra["taint_selftest"] = {"planted_flows_detected": len(PLANTED_EXPECT), "harmless_sites_silent": 5}
    finally:
        p.unlink()
        os.rmdir(d)


def _fn_node(rel: str, qualname: str) -> Optional[ast.FunctionDef]:
    cur: Any = module_ast(rel)
    for part in qualname.split("."):
        nxt = None
        for ch in ast.walk(cur) if isinstance(cur, ast.Module) else ast.iter_child_nodes(cur):
            if isinstance(ch, (ast.FunctionDef, ast.ClassDef)) and ch.name == part:
                nxt = ch
                break
        if nxt is None:
            return None
        cur = nxt
    return cur if isinstance(cur, ast.FunctionDef) else None


def justify_message_matching(rel: str, fn_name: str, sinks: Sequence[Any]) -> Optional[str]:
    """J1: every sink is `<x> in M` where M holds (the lowered text of) an exception passed in, and the function only
    builds exception objects (every return is a constructor call of a class imported from vtlengine.Exceptions)."""
    fn = _fn_node(rel, fn_name)
    if fn is None:
        return None
    exc_params = {a.arg for a in fn.args.args if a.annotation is not None and
                  re.search(r"Error|Exception", ast.unparse(a.annotation))}
    msg_vars = set()
    for n in ast.walk(fn):
        if isinstance(n, ast.Assign) and len(n.targets) == 1 and isinstance(n.targets[0], ast.Name):
            v = n.value
            while isinstance(v, ast.Call) and isinstance(v.func, ast.Attribute) and v.func.attr in ("lower", "upper", "strip") and not v.args:
                v = v.func.value
            if isinstance(v, ast.Call) and isinstance(v.func, ast.Name) and v.func.id == "str" and len(v.args) == 1 \
                    and isinstance(v.args[0], ast.Name) and v.args[0].id in exc_params:
                msg_vars.add(n.targets[0].id)
            elif n.targets[0].id in msg_vars:
                return None                    # re-bound to something else
    if not msg_vars:
        return None
    exc_classes = {a.asname or a.name for st in module_ast(rel).body if isinstance(st, ast.ImportFrom)
                   and (st.module or "").endswith("Exceptions") for a in st.names}
    for n in ast.walk(fn):
        if isinstance(n, ast.Return):
            if not (isinstance(n.value, ast.Call) and isinstance(n.value.func, ast.Name) and n.value.func.id in exc_classes):
                return None
    lines = {s.line for s in sinks}
    for n in ast.walk(fn):
        if isinstance(n, ast.Compare) and n.lineno in lines:
            involved = any((isinstance(x, ast.Name) and x.id in msg_vars) or
                           (isinstance(x, ast.Attribute) and x.attr in ("lower", "upper", "casefold")) for x in ast.walk(n))
            if not involved:
                continue
            ok = len(n.ops) == 1 and isinstance(n.ops[0], (ast.In, ast.NotIn)) and isinstance(n.comparators[0], ast.Name) \
                 and n.comparators[0].id in msg_vars
            if not ok:
                return None
            lines.discard(n.lineno)
    if lines or any(s.kind != "CMP" for s in sinks):
        return None
    return f"message matching only: compared against {sorted(msg_vars)} = text of the exception parameter " \
           f"{sorted(exc_params)}; every return of {fn_name} constructs a {sorted(exc_classes)} object"


def justify_closed_function(ta: TaintAnalysis, rel: str, sinks: Sequence[Any]) -> Optional[str]:
    """J2: every sink lies in a function without parameters all of whose free names are module-level definitions that
    are assigned once; the functions it calls receive only values computed there (no caller input can be a VTL name),
    and the module imports nothing from vtlengine (Model / AST objects cannot reach it)."""
    tree = module_ast(rel)
    for st in ast.walk(tree):
        if isinstance(st, (ast.Import, ast.ImportFrom)):
            mod = st.module if isinstance(st, ast.ImportFrom) else ",".join(a.name for a in st.names)
            if "vtlengine" in (mod or "") or (isinstance(st, ast.ImportFrom) and st.level):
                return None
    seen = set()
    for s in sinks:
        if s.rel != rel:
            return None
        fn = _fn_node(rel, s.function)
        if fn is None:
            return None
        a = fn.args
        if a.args or a.posonlyargs or a.kwonlyargs or a.vararg or a.kwarg:
            return None
        seen.add(s.function)
    return f"closed function(s) {sorted(seen)}: no parameters, module imports nothing from vtlengine - the matched text " \
           "is the engine's own SQL library, never a VTL name"


def static_taint(chk: Check) -> TaintAnalysis:
    mods = [m for m in all_modules() if m.startswith(PKG)]
    ta = TaintAnalysis(mods)
    if not ta.converged:
        chk.fault("taint analysis did not reach a fixpoint")
    chk.extra["taint"] = {"modules": len(mods), "functions": len(ta.fns), "rounds": ta.rounds,
                          "case_changing_sites": len(ta.sources), "sink_hits": len(ta.sinks)}
    seen_ids: Dict[str, int] = {}
    for s in ta.sources:
        f = F(s.rel, s.function)
        chk.under_contract(f, "contract")
        base = f"{f}::case-change-stays-out-of-names::{s.receiver[:40]}"
        seen_ids[base] = seen_ids.get(base, 0) + 1
        oid = base if seen_ids[base] == 1 else f"{base}#{seen_ids[base]}"
        ob = chk.ob(oid, f, f"line {s.line}: the result of `{s.text[:80]}` never reaches a double-quoted identifier position, a "
                    "name-resolution key or a comparison with a non-constant")
        ob.backend = "ast-taint"
        sinks = ta.sinks_of(s.sid)
        if not sinks:
            ob.status, ob.detail = DISCHARGED, "no sink reachable (whole-package fixpoint)"
            continue
        why = justify_message_matching(s.rel, s.function, sinks) if all(k.rel == s.rel and k.function == s.function for k in sinks) else None
        if why is None:
            why = justify_closed_function(ta, s.rel, sinks)
        desc = "; ".join(f"{k.kind} at {k.rel.split('/')[-1]}:{k.line} ({k.text[:70]})" for k in sinks[:4])
        if why is not None:
            ob.status, ob.detail = DISCHARGED, f"reaches {desc} - justified: {why}"
            continue
        ob.status = REFUTED
        ob.detail = f"case-changed value reaches {len(sinks)} sink(s): {desc}"
        ob.witness = {"site": f"{s.rel}:{s.line}", "call": s.text, "sinks": [f"{k.kind} {k.rel}:{k.line} {k.function}: {k.text}" for k in sinks[:8]]}
        ob.finding_key = f"case-change::{s.rel.split('/')[-1]}::{s.function}::{s.receiver[:40]}"
        ob.replayed = None
    chk.assume("A-PART (taint analysis): a case-changed string that is spliced OUTSIDE double quotes into a larger text "
               "(SQL keyword / function name / message) is not extracted again and used as a name")
    chk.assume("taint analysis: flow-insensitive, field-based (attributes by name), calls resolved by name inside the "
               "duckdb_transpiler package; implicit flows (a branch on a case-changed value), getattr/setattr/eval and "
               "values handed to code outside the package are not tracked")
    chk.assume("names enter the duckdb_transpiler package unmodified: the AST constructor, the Interpreter, Model and the "
               "DAG analysis are NOT covered by the static contract (only by the bounded tier)")
    return ta


# =====================================================================================================================
# (a3) emission points
# =====================================================================================================================
QUOTERS = {"quote_name", "quote_identifiers", "build_column_expr", "build_function_expr"}


def _plain(e: ast.AST, pkg_funcs: set) -> Optional[str]:
    """None when e is a plain reference; else the offending sub-expression."""
    if isinstance(e, (ast.Name, ast.Constant)):
        return None
    if isinstance(e, ast.Attribute):
        return _plain(e.value, pkg_funcs)
    if isinstance(e, ast.Subscript):
        return _plain(e.value, pkg_funcs) or (_plain(e.slice, pkg_funcs) if not isinstance(e.slice, ast.Slice) else ast.unparse(e))
    if isinstance(e, ast.IfExp):
        return _plain(e.body, pkg_funcs) or _plain(e.orelse, pkg_funcs)
    if isinstance(e, ast.Call):
        fn = e.func.id if isinstance(e.func, ast.Name) else e.func.attr if isinstance(e.func, ast.Attribute) else None
        if fn in pkg_funcs and fn not in ("lower", "upper"):
            return None
        if fn in ("hasattr", "str", "get_measures_names", "get_identifiers_names", "get_components_names",
                  "get_attributes_names", "get"):
            return None
        return ast.unparse(e)
    return ast.unparse(e)


def static_emission(chk: Check, ta: TaintAnalysis) -> None:
    pkg_funcs = set(ta.by_name)
    for rel in sorted(m for m in all_modules() if m.startswith(PKG)):
        tree = module_ast(rel)
        holes, bad = 0, []
        for n in ast.walk(tree):
            if isinstance(n, ast.JoinedStr):
                q = 0
                for v in n.values:
                    if isinstance(v, ast.Constant):
                        q += str(v.value).count('"')
                    elif q % 2 == 1:
                        holes += 1
                        off = _plain(v.value, pkg_funcs)
                        if off:
                            bad.append((n.lineno, off))
            elif isinstance(n, ast.Call):
                fn = n.func.id if isinstance(n.func, ast.Name) else n.func.attr if isinstance(n.func, ast.Attribute) else None
                if fn in QUOTERS and n.args:
                    holes += 1
                    off = _plain(n.args[0], pkg_funcs)
                    if off:
                        bad.append((n.lineno, off))
        if not holes:
            continue
        f = F(rel, "<module>")
        ob = chk.ob(f"{f}::identifier-emission-points-are-plain-references", f,
                    f"each of the {holes} expressions at a double-quoted f-string position / passed to quote_name & co is a "
                    "variable, attribute, subscript, constant or a call of a package function (no string method applied "
                    "where the identifier is emitted)")
        ob.backend = "ast-callsite"
        if not bad:
            ob.status, ob.detail = DISCHARGED, f"{holes} emission points"
        else:
            ob.status = REFUTED
            ob.detail = "; ".join(f"line {ln}: {tx[:60]}" for ln, tx in bad[:5])
            ob.witness = {"module": rel, "sites": [f"{ln}: {tx}" for ln, tx in bad[:10]]}
            ob.finding_key = f"emission::{rel.split('/')[-1]}::" + ",".join(tx[:30] for _ln, tx in bad[:3])
            ob.replayed = None


# =====================================================================================================================
# (a1) pyvc contracts: emitted text is parametric in the names, names sit inside double quotes
# =====================================================================================================================
SPECS = [("Integer", "IDENTIFIER", False), ("String", "IDENTIFIER", False), ("Number", "MEASURE", True),
         ("Integer", "MEASURE", True), ("Boolean", "MEASURE", True), ("Date", "MEASURE", True),
         ("TimePeriod", "MEASURE", True), ("String", "ATTRIBUTE", True), ("Date", "MEASURE", False),
         ("Duration", "MEASURE", True)]


def ph(i: int) -> str:
    return f"\x02N{i}\x03"


def template_term(text: str, names: Sequence[Any]) -> Any:
    parts = re.split(r"\x02N(\d+)\x03", text)
    out: List[Any] = []
    for j, p in enumerate(parts):
        out.append(names[int(p)] if j % 2 else p)
    return smt.Concat(*out)


def scan_template(text: str) -> Tuple[int, int, List[str]]:
    """(occurrences directly between double quotes, occurrences inside single-quoted literals, other occurrences)."""
    quoted = lit = 0
    other: List[str] = []
    i, state = 0, "sql"
    while i < len(text):
        c = text[i]
        if text.startswith("\x02N", i):
            j = text.index("\x03", i) + 1
            if state == "ident" and text[i - 1] == '"' and text[j:j + 1] == '"':
                quoted += 1
            elif state == "str":
                lit += 1
            else:
                other.append(text[max(0, i - 25):j + 15].replace("\x02", "<").replace("\x03", ">"))
            i = j
            continue
        if state == "sql":
            state = "ident" if c == '"' else "str" if c == "'" else "sql"
        elif state == "ident" and c == '"':
            state = "sql"
        elif state == "str" and c == "'":
            state = "sql"
        i += 1
    return quoted, lit, other


class Builders:
    """Both views of one argument set: engine values (symbolic names) and native objects (given names)."""

    def __init__(self, eng: Engine, k: int) -> None:
        import importlib
        self.eng = eng
        self.specs = SPECS[:k]
        self.sym = [eng.sym_str(f"n{i}") for i in range(k)]
        self.M = importlib.import_module("vtlengine.Model")
        self.DT = importlib.import_module("vtlengine.DataTypes")
        self.V = importlib.import_module("vtlengine." + VAL[:-3].replace("/", "."))
        self.role_sym = eng.enum_members(eng.lookup_global("Model/__init__.py", "Role"))

    def comps_sym(self) -> Dict[Any, Any]:
        return {n: ObjV("Component", {"name": n, "data_type": self.eng.lookup_global("DataTypes/__init__.py", t),
                                      "role": self.role_sym[r], "nullable": nl})
                for n, (t, r, nl) in zip(self.sym, self.specs)}

    def comps_nat(self, names: Sequence[str]) -> Dict[str, Any]:
        return {n: self.M.Component(n, getattr(self.DT, t), getattr(self.M.Role, r), nl)
                for n, (t, r, nl) in zip(names, self.specs)}

    def csv_types(self) -> List[str]:
        return [self.V.get_csv_read_type(c) for c in self.comps_nat([f"c{i}" for i in range(len(self.specs))]).values()]


def emit_contract(chk: Check, eng: Engine, rel: str, fname: str, label: str, k: int,
                  sym_args: Callable[[Builders], Tuple[List[Any], Dict[str, Any]]],
                  nat_call: Callable[[Builders, List[str]], Any], extra_names: int = 0) -> None:
    f = F(rel, fname)
    chk.under_contract(f)
    try:
        fn = eng.func(rel, fname)
    except Exception as e:  # noqa: BLE001
        ob = chk.ob(f"{f}::names-verbatim::{label}", f, "emitted text is parametric in the names")
        ob.status, ob.detail = UNDECIDED, f"function not found: {e}"
        return
    b = Builders(eng, k)
    extra = [eng.sym_str(f"x{i}") for i in range(extra_names)]
    b.extra = extra  # type: ignore[attr-defined]
    names_all = b.sym + extra
    pre = ([smt.Distinct(names_all)] if len(names_all) > 1 else []) + [smt.Ge(smt.Len(x), 1) for x in names_all]
    saved_ax = list(eng.axioms)
    eng.axioms = saved_ax + pre
    try:
        args, kwargs = sym_args(b)
        paths = eng.explore(fn, args, kwargs)
    except Exception as e:  # noqa: BLE001
        ob = chk.ob(f"{f}::names-verbatim::{label}", f, "emitted text is parametric in the names")
        ob.status, ob.detail = UNDECIDED, f"{type(e).__name__}: {e}"
        eng.axioms = saved_ax
        return
    placeholders = [ph(i) for i in range(len(names_all))]
    try:
        native = nat_call(b, placeholders)
    except Exception as e:  # noqa: BLE001
        ob = chk.ob(f"{f}::names-verbatim::{label}", f, "emitted text is parametric in the names")
        ob.status, ob.detail = UNDECIDED, f"native call with placeholder names failed: {type(e).__name__}: {e}"
        eng.axioms = saved_ax
        return
    native_list = native if isinstance(native, list) else [native]
    expected = [template_term(t, names_all) for t in native_list]

    def post(p: PathResult) -> Any:
        if p.kind != "return":
            return False
        got = p.value if isinstance(p.value, list) else [p.value]
        if len(got) != len(expected) or any(isinstance(g, Opaque) for g in got):
            return False
        return And(*[Eq(g, x) for g, x in zip(got, expected)])

    def native_compare(names: List[str]) -> Optional[str]:
        try:
            real = nat_call(b, names)
        except Exception as e:  # noqa: BLE001
            return f"real {fname} raises {type(e).__name__}: {str(e)[:120]}"
        real_l = real if isinstance(real, list) else [real]
        want = [t for t in native_list]
        for i, nm in enumerate(names):
            want = [w.replace(ph(i), nm) for w in want]
        if real_l != want:
            for r, w in zip(real_l + [""] * len(want), want + [""] * len(real_l)):
                if r != w:
                    return f"real {fname} with names {names} emits {r[:160]!r}; names substituted verbatim would give {w[:160]!r}"
        return None

    def replay(model: Dict[str, str], p: PathResult) -> Tuple[Optional[bool], str, Any]:
        cands: List[List[str]] = []
        try:
            m = [core.smt_str(model[f"n{i}"]) for i in range(k)] + [core.smt_str(model[f"x{i}"]) for i in range(extra_names)]
            if len(set(m)) == len(m) and all('"' not in x and "'" not in x and "\x02" not in x for x in m):
                cands.append(m)
        except Exception:  # noqa: BLE001
            pass
        cands.append(CANON[:len(names_all)])
        for c in cands:
            d = native_compare(c)
            if d:
                return True, d, {"names": c, "detail": d}
        return False, f"real {fname} emits the names verbatim for {cands}", None

    mv = [f"n{i}" for i in range(k)] + [f"x{i}" for i in range(extra_names)]
    ob = discharge(chk, eng, f, f"names-verbatim::{label}",
                   f"[{label}] for ALL pairwise distinct name strings the emitted SQL equals the text emitted for placeholder "
                   "names with every name substituted byte for byte (no case folding, trimming or re-spelling on any path)",
                   paths, pre, post, mv, replay, lambda m, p: f"{fname}::names-not-verbatim", timeout=30.0)
    ob.backend = ob.backend or "pyvc"
    # the template itself: every name occurrence is directly double-quoted or inside a single-quoted literal
    quoted = lit = 0
    other: List[str] = []
    for t in native_list:
        q, l_, o = scan_template(t)
        quoted, lit, other = quoted + q, lit + l_, other + o
    ob2 = chk.ob(f"{f}::names-double-quoted::{label}", f,
                 f"[{label}] in the emitted template every name occurrence stands directly between double quotes "
                 "(identifier) or inside a single-quoted SQL string literal (message text)")
    ob2.backend = "template-scan"
    if other or quoted == 0:
        ob2.status = REFUTED
        ob2.detail = f"unquoted name occurrence(s): {other[:3]}" if other else "no name is emitted at all"
        ob2.witness = {"template": [t.replace(chr(2), "<").replace(chr(3), ">")[:300] for t in native_list[:3]], "unquoted": other[:5]}
        ob2.finding_key = f"{fname}::name-emitted-unquoted"
        ob2.replayed, ob2.replay_detail = True, f"real {fname} called with placeholder names: " + (other[0] if other else "no name emitted")
    else:
        ob2.status, ob2.detail = DISCHARGED, f"{quoted} identifier occurrences, {lit} inside string literals"
    eng.axioms = saved_ax


def pyvc_contracts(chk: Check) -> None:
    core.boot(full=True)
    import importlib
    sb = importlib.import_module("vtlengine." + SB[:-3].replace("/", "."))
    val = importlib.import_module("vtlengine." + VAL[:-3].replace("/", "."))
    io = importlib.import_module("vtlengine." + IO[:-3].replace("/", "."))
    exe = importlib.import_module("vtlengine." + EXE[:-3].replace("/", "."))
    eng = Engine(max_paths=4000, prune=True)      # infeasible branches (two names equal) are cut with the solver

    # ---- sql_builder -------------------------------------------------------------------------------------------------
    emit_contract(chk, eng, SB, "quote_name", "any name", 1, lambda b: ([b.sym[0]], {}), lambda b, n: sb.quote_name(n[0]))
    emit_contract(chk, eng, SB, "quote_identifiers", "3 names", 3, lambda b: ([list(b.sym)], {}),
                  lambda b, n: sb.quote_identifiers(list(n)))
    emit_contract(chk, eng, SB, "build_column_expr", "name, alias, table alias", 1,
                  lambda b: ([b.sym[0], b.extra[0], "t"], {}), lambda b, n: sb.build_column_expr(n[0], n[1], "t"), extra_names=1)
    emit_contract(chk, eng, SB, "build_function_expr", "name, alias", 1,
                  lambda b: (["SUM", b.sym[0], b.extra[0]], {}), lambda b, n: sb.build_function_expr("SUM", n[0], n[1]), extra_names=1)
    emit_contract(chk, eng, SB, "build_binary_expr", "alias", 1,
                  lambda b: (["a", "+", "b", b.sym[0]], {}), lambda b, n: sb.build_binary_expr("a", "+", "b", n[0]))

    # ---- loaders' SQL builders ------------------------------------------------------------------------------------------
    for k in (2, len(SPECS)):
        lab = f"{k} components (all types/roles)" if k > 2 else "2 components"
        emit_contract(chk, eng, VAL, "build_create_table_sql", lab + ", table name", k,
                      lambda b: ([b.extra[0], b.comps_sym(), None], {}),
                      lambda b, n: val.build_create_table_sql(n[len(b.specs)], b.comps_nat(n[:len(b.specs)])), extra_names=1)
    emit_contract(chk, eng, VAL, "build_create_table_sql", "Date override to TIMESTAMP", 6,
                  lambda b: (["DS_1", b.comps_sym(), {b.sym[5]: "TIMESTAMP"}], {}),
                  lambda b, n: val.build_create_table_sql("DS_1", b.comps_nat(n), {n[5]: "TIMESTAMP"}))
    k = len(SPECS)
    emit_contract(chk, eng, VAL, "build_select_columns", "all columns present in the CSV", k,
                  lambda b: ([b.comps_sym(), list(b.sym), dict(zip(b.sym, b.csv_types())), "DS_1", None], {}),
                  lambda b, n: val.build_select_columns(b.comps_nat(n), list(n), dict(zip(n, b.csv_types())), "DS_1"))
    emit_contract(chk, eng, VAL, "build_select_columns", "nullable columns missing from the CSV, Date override", 6,
                  lambda b: ([b.comps_sym(), [b.sym[0], b.sym[1], b.sym[5]],
                              {b.sym[0]: "DOUBLE", b.sym[1]: "VARCHAR", b.sym[5]: "VARCHAR"}, "DS_1", {b.sym[5]: "TIMESTAMP"}], {}),
                  lambda b, n: val.build_select_columns(b.comps_nat(n), [n[0], n[1], n[5]],
                                                        {n[0]: "DOUBLE", n[1]: "VARCHAR", n[5]: "VARCHAR"}, "DS_1", {n[5]: "TIMESTAMP"}))
    emit_contract(chk, eng, IO, "_build_dataframe_select_columns", "all columns present, VARCHAR sources", k,
                  lambda b: ([b.comps_sym(), list(b.sym), None, None], {}),
                  lambda b, n: io._build_dataframe_select_columns(b.comps_nat(n), list(n)))
    emit_contract(chk, eng, IO, "_build_dataframe_select_columns", "columns missing, typed sources, override", 6,
                  lambda b: ([b.comps_sym(), [b.sym[0], b.sym[2], b.sym[5]], {b.sym[5]: "TIMESTAMP"},
                              {b.sym[0]: "BIGINT", b.sym[2]: "DOUBLE", b.sym[5]: "TIMESTAMP_NS"}], {}),
                  lambda b, n: io._build_dataframe_select_columns(b.comps_nat(n), [n[0], n[2], n[5]], {n[5]: "TIMESTAMP"},
                                                                  {n[0]: "BIGINT", n[2]: "DOUBLE", n[5]: "TIMESTAMP_NS"}))
    # ---- fetch select ---------------------------------------------------------------------------------------------------
    types = ["BIGINT", "VARCHAR", "DECIMAL(28,10)", "DATE", "TIMESTAMP", "TIMESTAMP"]

    def ds_sym(b: Builders) -> Any:
        return ObjV("Dataset", {"name": b.extra[0], "components": {n: Opaque("component") for n in b.sym}, "data": None})

    def ds_nat(b: Builders, n: List[str]) -> Any:
        M = importlib.import_module("vtlengine.Model")
        return M.Dataset(name=n[len(types)], components=b.comps_nat(n[:len(types)]), data=None)
    emit_contract(chk, eng, EXE, "_build_dataset_fetch_select", "6 columns incl. DATE / TIMESTAMP with and without time", len(types),
                  lambda b: ([FetchConn(list(zip(b.sym, types)), [True, False]), b.extra[0], ds_sym(b)], {}),
                  lambda b, n: exe._build_dataset_fetch_select(FetchConn(list(zip(n[:len(types)], types)), [True, False]),
                                                               n[len(types)], ds_nat(b, n)), extra_names=1)
    chk.extra["functions_inlined"] = sorted(eng.inlined)
    chk.assume("(a1) is proved per structure SHAPE (the listed numbers of components, one component per data type and role): "
               "unbounded in the name strings, bounded in the number of components by loop unrolling")
    chk.trust("vc.pyvc symbolic semantics of f-strings / str.join / dict iteration (counter-models are replayed natively)")


# =====================================================================================================================
# (b) distinct VTL names are distinct DuckDB identifiers  -  expected to be refuted
# =====================================================================================================================
def collision_obligations(chk: Check) -> None:
    import duckdb
    import importlib
    import pandas as pd
    eng = Engine()
    n1, n2 = eng.sym_str("n1"), eng.sym_str("n2")
    q1 = eng.explore(eng.func(SB, "quote_name"), [n1])[0].value
    q2 = eng.explore(eng.func(SB, "quote_name"), [n2])[0].value
    M = importlib.import_module("vtlengine.Model")
    DT = importlib.import_module("vtlengine.DataTypes")
    io = importlib.import_module("vtlengine." + IO[:-3].replace("/", "."))
    val = importlib.import_module("vtlengine." + VAL[:-3].replace("/", "."))
    sqlmod = importlib.import_module("vtlengine.duckdb_transpiler.sql")

    def solve(tag: str) -> Any:
        lower = lambda t: smt.app(smt.STR, "str.to_lower", t)  # noqa: E731
        text = smt.query(eng.decls, [smt.InRe(n1, NAME_RE), smt.InRe(n2, NAME_RE), Not(Eq(n1, n2)),
                                     smt.Ge(smt.Len(n1), 4), Eq(lower(q1), lower(q2))], get=["n1", "n2"], logic="ALL")
        return run_smt(text, timeout=30, tag=tag, backends=("cvc5",))

    def comp(n: str, role: str = "MEASURE") -> Any:
        return M.Component(n, DT.Number if role == "MEASURE" else DT.Integer, getattr(M.Role, role), role != "IDENTIFIER")

    # ---- components of one dataset --------------------------------------------------------------------------------------
    f = F(VAL, "build_create_table_sql")
    ob = chk.ob(f"{f}::distinct-as-duckdb-identifiers::components", f,
                "two component names that are distinct in VTL (n1 != n2) are distinct as DuckDB identifiers: "
                "fold(quote_name(n1)) != fold(quote_name(n2)) under the identifier axiom")
    r = solve("c29-collide")
    ob.backend, ob.seconds = r.backend, r.seconds
    if r.status == "unsat":
        ob.status = DISCHARGED
    elif r.status != "sat":
        ob.status, ob.detail = UNDECIDED, f"cvc5: {r.raw[:160]}"
    else:
        a, b = core.smt_str(r.model["n1"]), core.smt_str(r.model["n2"])
        ob.status = REFUTED
        ob.detail = f"counter-model n1={a!r} n2={b!r}: quote_name gives {sb_q(a)} / {sb_q(b)}, equal modulo ASCII case"
        ob.finding_key = "load::case-variant-components-in-one-dataset"
        comps = {"Id_1": comp("Id_1", "IDENTIFIER"), a: comp(a), b: comp(b)}
        outcomes = []
        con = duckdb.connect()
        sqlmod.initialize_time_types(con)
        try:
            try:
                con.execute(val.build_create_table_sql("DS_1", comps))
                outcomes.append("CREATE TABLE accepted")
            except duckdb.Error as e:
                outcomes.append(f"real build_create_table_sql text rejected by DuckDB: {str(e)[:90]}")
            con.execute('DROP TABLE IF EXISTS "DS_1"')
            ds = {"DS_1": M.Dataset(name="DS_1", components=comps, data=None)}
            df = pd.DataFrame({"Id_1": [1], a: [1.0], b: [10.0]})
            try:
                io.register_dataframes(con, {"DS_1": df}, ds)
                got = con.execute('SELECT * FROM "DS_1"').fetchdf()
                ok = list(got.columns) == ["Id_1", a, b] and got[a][0] == 1.0 and got[b][0] == 10.0
                outcomes.append("register_dataframes loaded both columns" if ok else f"register_dataframes loaded {got.to_dict('records')}")
                failed = not ok
            except Exception as e:  # noqa: BLE001
                outcomes.append(f"register_dataframes raises {type(e).__name__}: {str(e)[:90]}")
                failed = True
            con.execute('DROP TABLE IF EXISTS "DS_1"')
            d = tempfile.mkdtemp(prefix="c29_")
            p = Path(d) / "DS_1.csv"
            p.write_text(f"Id_1,{a},{b}\n1,1.0,10.0\n")
            try:
                io.load_datapoints_duckdb(con, comps, "DS_1", p)
                outcomes.append("load_datapoints_duckdb(csv) accepted")
            except Exception as e:  # noqa: BLE001
                outcomes.append(f"load_datapoints_duckdb(csv) raises {type(e).__name__}: {str(e)[:90]}")
                failed = True
            p.unlink()
            os.rmdir(d)
        finally:
            con.close()
        ob.witness = {"n1": a, "n2": b, "structure": ["Id_1", a, b], "outcomes": outcomes}
        ob.replayed, ob.replay_detail = failed, "; ".join(outcomes)

    # ---- dataset (table) names ---------------------------------------------------------------------------------------------
    ob = chk.ob(f"{f}::distinct-as-duckdb-identifiers::datasets", f,
                "two dataset names that are distinct in VTL are distinct as DuckDB table identifiers")
    ob.backend, ob.seconds = r.backend, 0.0
    if r.status == "unsat":
        ob.status = DISCHARGED
    elif r.status != "sat":
        ob.status, ob.detail = UNDECIDED, "cvc5 did not answer"
    else:
        a0, b0 = core.smt_str(r.model["n1"]), core.smt_str(r.model["n2"])
        ob.status = REFUTED
        ob.detail = f"counter-model dataset names {a0!r} / {b0!r}"
        ob.finding_key = "load::case-variant-dataset-names"
        con = duckdb.connect()
        try:
            comps = {"Id_1": comp("Id_1", "IDENTIFIER"), "Me_1": comp("Me_1")}
            ds = {a0: M.Dataset(name=a0, components=comps, data=None), b0: M.Dataset(name=b0, components=comps, data=None)}
            df = pd.DataFrame({"Id_1": [1], "Me_1": [1.0]})
            try:
                io.register_dataframes(con, {a0: df, b0: df.assign(Me_1=5.0)}, ds)
                va = con.execute(f'SELECT "Me_1" FROM "{a0}"').fetchone()
                vb = con.execute(f'SELECT "Me_1" FROM "{b0}"').fetchone()
                bad = not (va == (1.0,) and vb == (5.0,))
                det = f"both registered; values {va} / {vb}"
            except Exception as e:  # noqa: BLE001
                bad, det = True, f"register_dataframes of datasets {a0!r} and {b0!r} raises {type(e).__name__}: {str(e)[:100]}"
        finally:
            con.close()
        ob.witness = {"dataset_names": [a0, b0], "outcome": det}
        ob.replayed, ob.replay_detail = bad, det


def sb_q(n: str) -> str:
    import importlib
    return importlib.import_module("vtlengine." + SB[:-3].replace("/", ".")).quote_name(n)


# =====================================================================================================================
# (c) quote_name does not escape
# =====================================================================================================================
def quote_escape(chk: Check) -> None:
    import duckdb
    eng = Engine()
    n = eng.sym_str("n")
    f = F(SB, "quote_name")
    q = eng.explore(eng.func(SB, "quote_name"), [n])[0].value
    # well-formed quoted identifier denoting n:  '"' + n with every '"' doubled + '"'
    dq = '"'
    wf = Eq(q, smt.Concat(dq, smt.app(smt.STR, "str.replace_all", n, dq, dq + dq), dq))
    ob = chk.ob(f"{f}::denotes-its-argument::names-without-double-quote", f,
                "for every name that contains no '\"', quote_name(n) is the DuckDB quoted identifier that denotes n")
    r = run_smt(smt.query(eng.decls, [Not(smt.app(smt.BOOL, "str.contains", n, dq)), Not(wf)], get=["n"]), timeout=20, tag="c29-q")
    ob.backend, ob.seconds = r.backend, r.seconds
    if r.status == "unsat":
        ob.status = DISCHARGED
    elif r.status == "sat":
        ob.status, ob.detail, ob.witness = REFUTED, f"counter-model {r.model}", r.model
        bad = core.smt_str(r.model["n"])
        ob.finding_key = "quote_name::not-verbatim"
        ob.replayed = sb_q(bad) != '"' + bad + '"'
        ob.replay_detail = f"quote_name({bad!r}) = {sb_q(bad)!r}"
    else:
        ob.status, ob.detail = UNDECIDED, r.raw[:200]
    ob = chk.ob(f"{f}::denotes-its-argument::every-name-the-structure-schema-admits", f,
                "for EVERY name (the JSON schema admits '...'-quoted names with arbitrary content), quote_name(n) denotes n; "
                "requires escaping of embedded double quotes")
    r = run_smt(smt.query(eng.decls, [Not(wf)], get=["n"]), timeout=20, tag="c29-q2")
    ob.backend, ob.seconds = r.backend, r.seconds
    if r.status == "unsat":
        ob.status = DISCHARGED
    elif r.status == "sat":
        bad = core.smt_str(r.model["n"])
        ob.status = REFUTED
        ob.finding_key = "quote_name::embedded-double-quote"
        text = sb_q(bad)
        con = duckdb.connect()
        try:
            try:
                got = con.execute(f"SELECT 1 AS {text}").description
                names = [d[0] for d in got]
                rep, det = names != [bad], f"SELECT 1 AS {text} yields column name(s) {names}, expected [{bad!r}]"
            except duckdb.Error as e:
                rep, det = True, f"SELECT 1 AS {text} is rejected by DuckDB: {str(e)[:100]}"
        finally:
            con.close()
        # the same defect through the real loader, with a name the structure JSON schema admits ('...'-quoted)
        try:
            import importlib
            import pandas as pd
            M = importlib.import_module("vtlengine.Model")
            DT = importlib.import_module("vtlengine.DataTypes")
            io = importlib.import_module("vtlengine." + IO[:-3].replace("/", "."))
            nm = "'a\"b'"
            comps = {"Id_1": M.Component("Id_1", DT.Integer, M.Role.IDENTIFIER, False), nm: M.Component(nm, DT.Number, M.Role.MEASURE, True)}
            con = duckdb.connect()
            try:
                io.register_dataframes(con, {"DS_1": pd.DataFrame({"Id_1": [1], nm: [1.5]})}, {"DS_1": M.Dataset("DS_1", comps, None)})
                det += f"; register_dataframes with component {nm!r} succeeded"
            except Exception as e:  # noqa: BLE001
                rep = True
                det += f"; register_dataframes with a component named {nm!r} raises {type(e).__name__}: {str(e)[:80]}"
            finally:
                con.close()
        except Exception as e:  # noqa: BLE001
            det += f"; (loader replay harness error {type(e).__name__})"
        ob.detail = f"counter-model n={bad!r}: quote_name emits {text!r} without doubling the embedded quote"
        ob.witness = {"name": bad, "emitted": text}
        ob.replayed, ob.replay_detail = rep, det
    else:
        ob.status, ob.detail = UNDECIDED, r.raw[:200]


def main() -> None:
    chk = Check("C29", "proof", "contracts on the identifier-emitting functions (symbolic execution over symbolic name strings, "
                "SMT string equality per path), a whole-package static taint contract on case-changing operations, the "
                "DuckDB identifier axiom validated on the real DuckDB, cvc5 counter-models replayed through the real loaders; "
                "bounded tier on the real engine with case-variant program families", min_obligations=40)
    core.boot(full=True)
    import time
    phases: Dict[str, float] = {}

    def phase(name: str, fn: Callable[[], Any]) -> Any:
        t0 = time.time()
        r = fn()
        phases[name] = round(time.time() - t0, 1)
        return r
    phase("axiom", lambda: validate_axiom(chk))
    phase("taint-selftest", lambda: taint_selftest(chk))
    ta = phase("taint", lambda: static_taint(chk))
    phase("emission", lambda: static_emission(chk, ta))
    import _c29_outside
    phase("outside-transpiler", lambda: _c29_outside.run(chk))
    phase("pyvc", lambda: pyvc_contracts(chk))
    phase("collision", lambda: collision_obligations(chk))
    phase("quote-escape", lambda: quote_escape(chk))
    import _c29_bounded
    phase("bounded", lambda: _c29_bounded.run(chk))
    chk.extra["phase_seconds"] = phases
    chk.trust("cvc5 1.0.3 (str.to_lower, strings), z3 5.1")
    chk.trust("vc.pytaint (self-tested on every run against 9 planted flows and 5 harmless uses)")
    chk.finish()


if __name__ == "__main__":
    core.main_guard("C29", main)
