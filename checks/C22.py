"""C22 — public API calls never modify the caller's arguments.

Frame contracts (E3, vc.pyframe) on the real source, all paths:
   for every public entry point f in API/__init__.py and every caller-facing parameter p of f
       assigns(f) ∩ reachable(p) = ∅        "no object reachable from the argument passed for p is ever mutated"
   computed inter-procedurally over API/__init__.py, API/_InternalApi.py, API/_sdmx_utils.py, files/parser/*.py,
   files/sdmx_handler.py, duckdb_transpiler/io/*.py, closed under "package function that receives (part of) a caller
   object" (may-alias, flow-sensitive re-binding; three alias depths: the object itself / a fresh container around the
   caller's elements / anything reachable; a callee's mutation is classified top vs deep so that a fresh wrapper
   `g({k: d[k]})` around the caller's DataFrame does not hide a mutation of the frame).
A refuted clause is replayed natively: the entry point is called (API.run / semantic_analysis through the mechanical
below-the-parser extraction of vc.pipeline) with deep snapshots of every argument taken before and compared after,
on a pool of valid and invalid calls; the run-time monitor also runs on the unchanged tree (bounded tier) so that a
mutation the static clause cannot see (through an unanalysed callee) still surfaces.
"""
from __future__ import annotations

import copy
import sys
from pathlib import Path
from typing import Any, Callable, Dict, List, Optional, Sequence, Tuple

sys.path.insert(0, str(Path(__file__).resolve().parent.parent))
from vc import core  # noqa: E402
from vc import pipeline as P  # noqa: E402
from vc.core import BOUNDED_OK, DISCHARGED, REFUTED, UNDECIDED, Check  # noqa: E402
from vc.pyframe import FrameAnalysis  # noqa: E402

MODULES = ["API/__init__.py", "API/_InternalApi.py", "API/_sdmx_utils.py", "files/parser/__init__.py",
           "files/parser/_rfc_dialect.py", "files/parser/_time_checking.py", "files/sdmx_handler.py",
           "duckdb_transpiler/io/_io.py", "duckdb_transpiler/io/_validation.py", "duckdb_transpiler/io/_execution.py",
           "duckdb_transpiler/io/_time_handling.py", "files/output/__init__.py",
           "files/output/_time_period_representation.py"]
ENTRY = {
    "run": ["data_structures", "datapoints", "value_domains", "external_routines", "scalar_values", "sdmx_mappings"],
    "run_sdmx": ["datasets", "mappings", "value_domains", "external_routines"],
    "semantic_analysis": ["data_structures", "value_domains", "external_routines", "sdmx_mappings"],
    "validate_dataset": ["data_structures", "datapoints", "scalar_values"],
    "validate_value_domain": ["input"],
    "validate_external_routine": ["input"],
    "generate_sdmx": ["script"],
    "prettify": ["script"],
}


def build_analysis() -> Tuple[FrameAnalysis, List[str], List[str]]:
    """Frame analysis over MODULES closed under "a function of the package that receives (part of) a caller object":
    a callee imported from a module outside the set is located (re-exports followed) and its module is added, until no
    such callee is left.  Returns (analysis, modules added, callees left to the external assumption)."""
    import ast as pyast
    from vc.pysrc import module_ast

    def locate(module: str, level: int, name: str, rel: str, depth: int = 0) -> Optional[str]:
        if level > 0:
            base = Path(rel).parent
            for _ in range(level - 1):
                base = base.parent
            parts = list(base.parts) + (module.split(".") if module else [])
        else:
            parts = module.split(".")[1:]
        for cand in ("/".join(parts) + ".py", "/".join(parts + ["__init__.py"])):
            if not parts and cand.startswith(".py"):
                continue
            cand = cand.lstrip("/")
            if not (core.SRC / cand).exists():
                continue
            tree = module_ast(cand)
            for st in tree.body:
                if isinstance(st, (pyast.FunctionDef, pyast.AsyncFunctionDef)) and st.name == name:
                    return cand
                if isinstance(st, pyast.ImportFrom) and depth < 4:
                    for a in st.names:
                        if (a.asname or a.name) == name:
                            return locate(st.module or "", st.level, a.name, cand, depth + 1)
            return None
        return None

    mods = [m for m in MODULES if (core.SRC / m).exists()]
    added: List[str] = []
    fa = FrameAnalysis(mods)
    for _ in range(8):
        new = []
        for module, level, name, rel in sorted(fa.unresolved_internal):
            where = locate(module, level, name, rel)
            if where is not None and where not in mods and where not in new:
                new.append(where)
        if not new:
            break
        mods += new
        added += new
        fa = FrameAnalysis(mods)
    left = sorted({f"{module}.{name}" for module, level, name, rel in fa.unresolved_internal
                   if locate(module, level, name, rel) is None})
    return fa, added, left


def snapshot(x: Any) -> Any:
    import pandas as pd
    if isinstance(x, pd.DataFrame):
        return ("df", [repr(c) for c in x.columns], repr(x.columns.name), [str(t) for t in x.dtypes],
                [[repr(v) for v in row] for row in x.to_numpy(dtype=object).tolist()],
                [repr(v) for v in x.index.tolist()], type(x.index).__name__, [repr(n) for n in x.index.names],
                x.shape, repr(dict(x.attrs)), repr(x.flags.allows_duplicate_labels))
    if hasattr(x, "data") and isinstance(getattr(x, "data", None), pd.DataFrame):       # pysdmx PandasDataset
        return ("dataset-object", type(x).__name__, snapshot(x.data), repr(getattr(x, "structure", None)),
                repr(getattr(x, "attributes", None)))
    if isinstance(x, dict):
        return ("dict", [(k, snapshot(v)) for k, v in x.items()])
    if isinstance(x, (list, tuple)):
        return (type(x).__name__, [snapshot(v) for v in x])
    return ("val", repr(x))


def monitored(fn: Callable[..., Any], kwargs: Dict[str, Any]) -> Tuple[str, List[str]]:
    before = {k: snapshot(v) for k, v in kwargs.items()}
    try:
        fn(**kwargs)
        outcome = "returned"
    except Exception as e:  # noqa: BLE001
        outcome = f"raised {type(e).__name__}"
    changed = [k for k, v in kwargs.items() if snapshot(v) != before[k]]
    return outcome, changed


def call_pool() -> List[Tuple[str, str, Dict[str, Any]]]:
    """(entry point, label, kwargs) — valid and invalid calls; ast-based entries use the extracted functions."""
    import pandas as pd
    ds1 = P.dataset_structure("DS_1", measures=("Me_1", "Me_2"))
    ds1["DataStructure"].append({"name": "At_1", "type": "String", "role": "Attribute", "nullable": True})
    ds1["DataStructure"].append({"name": "Vi_1", "type": "String", "role": "ViralAttribute", "nullable": True})
    structs = P.structures([ds1, P.dataset_structure("DS_2")], [{"name": "sc_1", "type": "Integer"}])
    good = pd.DataFrame({"Id_1": [1, 2], "Me_1": [1.5, None], "Me_2": [3.0, 4.0], "At_1": ["a", ""], "Vi_1": ["x", "y"]})
    missing_nullable = pd.DataFrame({"Id_1": [1, 2], "Me_1": [1.5, 2.5]})
    bom = pd.DataFrame({"﻿Id_1": [1, 2], "Me_1": [1.0, 2.0], "Me_2": [1.0, 2.0], "At_1": ["", "b"], "Vi_1": ["", ""]})
    dup = pd.DataFrame({"Id_1": [1, 1], "Me_1": [1.0, 2.0], "Me_2": [1.0, 2.0], "At_1": ["a", "b"], "Vi_1": ["", ""]})
    bad_type = pd.DataFrame({"Id_1": ["x", "y"], "Me_1": ["1", ""], "Me_2": [1.0, 2.0], "At_1": ["a", "b"], "Vi_1": ["", ""]})
    d2 = pd.DataFrame({"Id_1": [1, 2], "Me_1": [10.0, 20.0]})
    pool: List[Tuple[str, str, Dict[str, Any]]] = []
    for label, df in (("valid", good), ("missing-nullable-columns", missing_nullable), ("bom-column", bom),
                      ("duplicate-keys", dup), ("bad-values", bad_type)):
        pool.append(("validate_dataset", label, {"data_structures": copy.deepcopy(structs),
                                                 "datapoints": {"DS_1": df.copy(), "DS_2": d2.copy()},
                                                 "scalar_values": {"sc_1": 3}}))
    script = P.start([P.assign("DS_r", P.binop(P.var("DS_1"), "*", P.var("sc_1")), True),
                      P.assign("DS_r2", P.binop(P.var("DS_2"), "+", P.var("DS_2")), True)])
    bad_script = P.start([P.assign("DS_r", P.binop(P.var("DS_1"), "+", P.var("DS_9")), True)])
    for label, df, sc in (("valid", good, script), ("missing-nullable-columns", missing_nullable, script),
                          ("duplicate-keys", dup, script), ("semantic-error", good, bad_script)):
        pool.append(("run", label, {"ast": sc, "data_structures": copy.deepcopy(structs),
                                    "datapoints": {"DS_1": df.copy(), "DS_2": d2.copy()}, "scalar_values": {"sc_1": 3},
                                    "value_domains": [{"name": "VD_1", "type": "Integer", "setlist": [1, 2]}],
                                    "external_routines": None}))
        pool.append(("semantic_analysis", label, {"ast": sc, "data_structures": copy.deepcopy(structs),
                                                  "value_domains": [{"name": "VD_1", "type": "Integer", "setlist": [1, 2]}]}))
    # a run that succeeds end to end (no viral attribute, which would need a propagation rule)
    plain = P.structures([P.dataset_structure("DS_1", measures=("Me_1", "Me_2")), P.dataset_structure("DS_2")],
                         [{"name": "sc_1", "type": "Integer"}])
    pool.append(("run", "valid-end-to-end", {"ast": script, "data_structures": plain,
                                              "datapoints": {"DS_1": good[["Id_1", "Me_1", "Me_2"]].copy(), "DS_2": d2.copy()},
                                              "scalar_values": {"sc_1": 3}, "return_only_persistent": False}))
    # unusual but legal frames: every one goes through run() and validate_dataset()
    for label, ds, df in unusual_frames():
        st = P.structures([ds])
        name = ds["name"]
        is_num = any(c["type"] == "Number" for c in ds["DataStructure"])
        expr = P.binop(P.var(name), "+", P.var(name)) if is_num else P.var(name)
        pool.append(("run", label, {"ast": P.start([P.assign("DS_r", expr, True)]), "data_structures": copy.deepcopy(st),
                                    "datapoints": {name: df.copy()}}))
        pool.append(("validate_dataset", label, {"data_structures": copy.deepcopy(st), "datapoints": {name: df.copy()}}))
    return pool


def unusual_frames() -> List[Tuple[str, Dict[str, Any], Any]]:
    """(label, dataset structure, frame): index / dtype / label shapes a caller may legally hand over."""
    import numpy as np
    import pandas as pd
    d1 = P.dataset_structure("DS_1", measures=("Me_1", "Me_2"))
    d3 = P.dataset_structure("DS_3", ids=("Id_1", "Id_2"))
    d3["DataStructure"][1]["type"] = "String"
    d4 = P.dataset_structure("DS_4", me_type="String")
    base1 = pd.DataFrame({"Id_1": [1, 2, 3], "Me_1": [1.5, 2.5, None], "Me_2": [3.0, 4.0, 5.0]})
    base3 = pd.DataFrame({"Id_1": [1, 2, 3], "Id_2": ["A", "B", "C"], "Me_1": [1.5, 2.5, 3.5]})
    base4 = pd.DataFrame({"Id_1": [1, 2, 3], "Me_1": ["a", "b", "a"]})
    out: List[Tuple[str, Dict[str, Any], Any]] = []
    out.append(("index-named-as-identifier", d1, base1.set_index("Id_1")))
    out.append(("multiindex-named-as-identifiers", d3, base3.set_index(["Id_1", "Id_2"])))
    out.append(("multiindex-one-level-identifier", d3, base3.assign(k=[7, 8, 9]).set_index(["k", "Id_2"])))
    out.append(("index-named-as-measure", d1, base1.dropna().set_index("Me_2")))
    out.append(("index-named-unrelated", d1, base1.rename_axis("row")))
    out.append(("shuffled-index", d1, base1.iloc[[2, 0, 1]]))
    out.append(("string-index", d1, base1.set_axis(["x", "y", "z"], axis=0)))
    named_cols = base1.copy()
    named_cols.columns.name = "component"
    out.append(("named-columns-axis", d1, named_cols))
    out.append(("bom-column-name", d1, base1.rename(columns={"Id_1": "﻿Id_1"})))
    out.append(("extra-column", d1, base1.assign(Extra=["p", "q", "r"])))
    out.append(("categorical-measure", d4, base4.assign(Me_1=base4["Me_1"].astype("category"))))
    out.append(("categorical-identifier", d3, base3.assign(Id_2=base3["Id_2"].astype("category"))))
    out.append(("object-column-with-None", d4, pd.DataFrame({"Id_1": [1, 2, 3],
                                                             "Me_1": pd.Series(["a", None, "c"], dtype=object)})))
    out.append(("object-numeric-with-None", d1, pd.DataFrame({"Id_1": pd.Series([1, 2, 3], dtype=object),
                                                              "Me_1": pd.Series([1.5, None, 2], dtype=object),
                                                              "Me_2": pd.Series([np.nan, 1.0, 2.0])})))
    with_attrs = base1.copy()
    with_attrs.attrs["source"] = "caller"
    out.append(("frame-with-attrs", d1, with_attrs))
    out.append(("empty-frame", d1, base1.iloc[0:0]))
    return out


def run_sdmx_cases() -> Dict[Tuple[str, str], Tuple[str, List[str]]]:
    """run_sdmx() natively: the two parser-dependent callees are replaced on the harness side (`_extract_input_datasets`
    by the input names of the hand-built AST, `run` by the mechanically extracted run-from-AST); the body of run_sdmx,
    to_vtl_json, the mapping code and everything below run() are the code of the tree."""
    import importlib
    import pandas as pd
    from pysdmx.io.pd import PandasDataset
    from pysdmx.model import Component, Components, Concept, DataType, Role
    from pysdmx.model.dataflow import Schema
    core.boot(full=True)
    api = importlib.import_module("vtlengine.API")
    run_ast = P.api_from_ast("run")
    g = api.run_sdmx.__globals__
    saved = {k: g.get(k) for k in ("run", "_extract_input_datasets")}
    script = P.start([P.assign("DS_r", P.binop(P.var("DS_1"), "+", P.var("DS_1")), True)])
    comps = Components([
        Component(id="Id_1", required=True, role=Role.DIMENSION, concept=Concept(id="Id_1"), local_dtype=DataType.INTEGER),
        Component(id="Me_1", required=False, role=Role.MEASURE, concept=Concept(id="Me_1"), local_dtype=DataType.DOUBLE)])
    res: Dict[Tuple[str, str], Tuple[str, List[str]]] = {}
    try:
        g["_extract_input_datasets"] = lambda s: ["DS_1"]
        g["run"] = lambda script, **kw: run_ast(script, **kw)
        frames = {"valid": pd.DataFrame({"Id_1": [1, 2], "Me_1": [1.0, 2.0]}),
                  "index-named-as-identifier": pd.DataFrame({"Me_1": [1.0, 2.0]}, index=pd.Index([1, 2], name="Id_1")),
                  "duplicate-keys": pd.DataFrame({"Id_1": [1, 1], "Me_1": [1.0, 2.0]})}
        for label, df in frames.items():
            schema = Schema(context="datastructure", agency="MD", id="DS_1", components=comps, version="1.0")
            res[("run_sdmx", label)] = monitored(api.run_sdmx, {"script": script,
                                                                "datasets": [PandasDataset(structure=schema, data=df)],
                                                                "mappings": None})
    finally:
        for k, v in saved.items():
            g[k] = v
    return res


def run_url_case() -> Tuple[str, List[str]]:
    """run() with URL datapoints: the network fetch is replaced by a stub (harness side) returning a frame."""
    import importlib
    import pandas as pd
    core.boot(full=True)
    run = P.api_from_ast("run")
    g = run.__globals__
    saved = {k: g.get(k) for k in ("_handle_url_datapoints", "load_datasets", "_is_url")}
    ds = P.structures([P.dataset_structure("DS_1")])
    api_int = importlib.import_module("vtlengine.API._InternalApi")
    real_load = api_int.load_datasets
    try:
        g["_is_url"] = lambda v: isinstance(v, str) and v.startswith("http")
        g["load_datasets"] = lambda data_structures, **k: real_load(ds, **k)
        loaded = real_load(ds)[0]
        g["_handle_url_datapoints"] = lambda urls, structures, mapping: (
            {"DS_1": loaded["DS_1"]}, None, {"DS_1": pd.DataFrame({"Id_1": [1], "Me_1": [1.0]})})
        script = P.start([P.assign("DS_r", P.var("DS_1"), True)])
        return monitored(run, {"ast": script, "data_structures": "structure.json",
                               "datapoints": {"DS_1": "https://example.org/data.csv"}})
    finally:
        for k, v in saved.items():
            g[k] = v


def main() -> None:  # noqa: C901
    chk = Check("C22", "proof", "inter-procedural frame (assigns) analysis of the real source: for every public entry point "
                "and caller-facing parameter, no object reachable from the argument is in any write frame; refutations "
                "replayed natively with deep argument snapshots; the same snapshot monitor runs over a pool of valid and "
                "invalid calls as a bounded tier", min_obligations=10)
    import os
    fa, added_modules, left_external = build_analysis()
    if not fa.converged:
        o = chk.ob("pyframe::fixpoint", "vc/pyframe.py", "the inter-procedural frame fixpoint converged")
        o.status, o.detail = UNDECIDED, f"no fixpoint after {fa.rounds} rounds: the write frames may be incomplete"
    pool_results: Dict[Tuple[str, str], Tuple[str, List[str]]] = {}
    core.boot(full=True)
    import importlib
    api = importlib.import_module("vtlengine.API")
    fns: Dict[str, Callable[..., Any]] = {"validate_dataset": api.validate_dataset}
    for name in ("run", "semantic_analysis"):
        try:
            fns[name] = P.api_from_ast(name)
        except Exception as e:  # noqa: BLE001
            chk.fault(f"cannot extract API.{name}: {e}")
    for entry, label, kwargs in call_pool():
        if entry in fns:
            pool_results[(entry, label)] = monitored(fns[entry], kwargs)
    try:
        pool_results[("run", "url-datapoints")] = run_url_case()
    except Exception as e:  # noqa: BLE001
        pool_results[("run", "url-datapoints")] = (f"harness error {type(e).__name__}: {e}", [])
    try:
        pool_results.update(run_sdmx_cases())
    except Exception as e:  # noqa: BLE001
        pool_results[("run_sdmx", "harness")] = (f"harness error {type(e).__name__}: {e}", [])

    for entry, params in ENTRY.items():
        info = fa.fns.get(("API/__init__.py", entry))
        f = f"src/vtlengine/API/__init__.py:{entry}"
        if info is None:
            o = chk.ob(f"{f}::frame", f, "entry point present")
            o.status, o.detail = UNDECIDED, "function not found"
            continue
        chk.under_contract(f)
        for p in params:
            if p not in info.params:
                continue
            ob = chk.ob(f"{f}::does-not-modify::{p}", f, f"no object reachable from argument `{p}` is mutated on any path "
                        "(success or failure)")
            ob.backend = "pyframe"
            if p in info.mutates:
                ob.status = REFUTED
                ob.detail = "; ".join(info.mutates[p][:3])
                ob.witness = {"entry": entry, "parameter": p, "write": info.mutates[p][:3]}
                ob.finding_key = f"{entry}::{p}"
                hits = [(k, v) for k, v in pool_results.items() if k[0] == entry and p in v[1]]
                if hits:
                    (e2, label), (outcome, changed) = hits[0]
                    ob.replayed = True
                    ob.replay_detail = f"native call {entry}(<{label}>) {outcome}; arguments modified afterwards: {changed}"
                    ob.witness["call"] = label
                else:
                    ob.replayed = None
                    ob.replay_detail = "none of the native monitor's calls reproduced a modification of this argument"
            else:
                ob.status = DISCHARGED
    # ---- bounded tier: the run-time monitor on its own --------------------------------------------------------------
    for (entry, label), (outcome, changed) in sorted(pool_results.items()):
        f = f"src/vtlengine/API/__init__.py:{entry}"
        ob = chk.ob(f"{f}::monitor::{label}", f, f"deep snapshot of every argument equal before and after {entry}(<{label}>)",
                    bounded=True)
        ob.backend = "native-monitor"
        if outcome.startswith("harness error"):
            ob.status, ob.detail = UNDECIDED, outcome
        elif changed:
            static_hit = any(p in (fa.fns[("API/__init__.py", entry)].mutates if ("API/__init__.py", entry) in fa.fns else {})
                             for p in changed)
            ob.status, ob.detail = REFUTED, f"{outcome}; modified arguments: {changed}"
            ob.replayed, ob.replay_detail = True, ob.detail
            ob.witness = {"entry": entry, "call": label, "modified": changed}
            ob.finding_key = f"{entry}::{changed[0]}"
            if static_hit:
                # already reported by the frame clause with this replay: keep one report per defect
                ob.status, ob.detail = BOUNDED_OK, "same defect as the refuted frame clause (reported there): " + ob.detail
        else:
            ob.status, ob.detail = BOUNDED_OK, outcome
    chk.extra["functions_analysed"] = len(fa.fns)
    chk.extra["functions_with_nonempty_write_frame"] = {f"{i.rel}:{i.qualname}": {p: r[0] for p, r in i.mutates.items()}
                                                        for i in fa.fns.values() if i.mutates}
    chk.extra["extraction_drops"] = P.EXTRACTION_DROPS
    chk.extra["modules_analysed"] = fa.modules
    chk.extra["modules_added_by_closure"] = added_modules
    chk.extra["fixpoint_rounds"] = fa.rounds
    chk.extra["package_callees_receiving_caller_objects_not_followed"] = left_external
    chk.extra["external_callees_receiving_caller_objects"] = sorted(fa.assumed_externals)
    chk.assume("external callees (pandas non-inplace methods, pysdmx, json, jsonschema, pathlib, copy.deepcopy) do not mutate "
               "their arguments; only the mutator methods / functions listed in vc/pyframe.py and any call with an "
               "`inplace=` keyword that is not literally False/None do; constructors of package classes "
               "(Dataset, Component, Scalar, SQLTranspiler, exceptions ...) keep references but do not mutate (listed in "
               "the evidence)")
    chk.assume("run_sdmx native replay: `_extract_input_datasets` and `run` (both need the compiled parser) are replaced by "
               "the input names of the hand-built AST and by the mechanically extracted run-from-AST")
    chk.assume("objects reach analysed functions only through parameters (no mutation through module globals holding "
               "caller objects); dynamic dispatch inside InterpreterAnalyzer / SQLTranspiler is not followed - their inputs "
               "are deep copies or freshly loaded structures (checked for run(): copy.deepcopy(input_datasets))")
    chk.assume("prettify / generate_sdmx need the compiled parser at run time: frame clause only, no native replay")
    chk.finish()


if __name__ == "__main__":
    core.main_guard("C22", main)
